"""./check driver: runs the contracts of one property against /repo's working
tree, discharges the obligations, replays refutations natively, writes the
evidence file and prints VIOLATION / KNOWN-FINDING lines."""
import argparse
import hashlib
import importlib
import inspect
import json
import multiprocessing
import os
import sys
import time
import warnings

ROOT = os.path.dirname(os.path.dirname(os.path.abspath(__file__)))
REPO = os.environ.get('VERIF_REPO', '/repo')

EXIT_OK, EXIT_VIOLATION, EXIT_UNDECIDED, EXIT_GAP = 0, 1, 2, 3


def _prepare():
    """Import menpo from the working tree, install the np proxy."""
    if REPO not in sys.path:
        sys.path.insert(0, REPO)
    if ROOT not in sys.path:
        sys.path.insert(0, ROOT)
    warnings.filterwarnings('ignore')
    import menpo  # noqa
    if not os.path.abspath(menpo.__file__).startswith(os.path.abspath(REPO)):
        raise SystemExit('menpo imported from %s, not from %s' % (menpo.__file__, REPO))
    import menpo.transform, menpo.shape, menpo.image, menpo.landmark, menpo.model, menpo.feature  # noqa
    import menpo.math  # noqa
    from vp import proxy, imagestub
    proxy.install()
    imagestub.install()


def _load(prop):
    from vp import registry
    mod = importlib.import_module('contracts.%s' % prop.lower())
    importlib.import_module('contracts.personas')     # representation / history independence (bounded), several properties
    importlib.import_module('contracts.fuzz')         # state-reconstruction oracle over random histories (bounded)
    importlib.import_module('contracts.sizes')        # the same laws at scale: inputs that cross size thresholds (bounded)
    importlib.import_module('contracts.aliasing')     # the same object in two roles: aliased arguments (bounded)
    for extra in filter(None, os.environ.get('VERIF_EXTRA', '').split(',')):
        importlib.import_module(extra)
    return registry.for_property(prop), mod


# ------------------------------------------------------------------- workers
class TaskTimeout(BaseException):
    pass


def _watchdog(limit):
    """raise TaskTimeout in the worker's main thread after `limit` seconds: a
    runaway pure-python computation (normal forms, sympy) becomes an engine
    gap (exit 3) instead of a hang.  Solver calls have their own hard kill."""
    import ctypes
    import threading
    tid = threading.main_thread().ident

    def fire():
        ctypes.pythonapi.PyThreadState_SetAsyncExc(ctypes.c_ulong(tid), ctypes.py_object(TaskTimeout))
    t = threading.Timer(limit, fire)
    t.daemon = True
    t.start()
    return t


def _work(task):
    cid, config, mode, seed = task
    from vp import registry, core
    cd = registry.CONTRACTS[cid]
    t0 = time.time()
    wd = _watchdog(float(os.environ.get('VERIF_TASK_LIMIT', '600')))
    try:
        if mode == 'sym':
            r = core.run_symbolic(cd.fn, config, max_paths=cd.max_paths, budget_s=cd.budget_s)
        else:
            st, info = core.run_native(cd.fn, config, seed=seed, tol=cd.tol)
            r = dict(config=core._cfg(config), native=dict(status=st, info=info))
    except (Exception, TaskTimeout) as e:  # engine crash / task limit: never a verdict
        import traceback
        r = dict(config=config, engine_crash=''.join(traceback.format_exception(type(e), e, e.__traceback__)[-8:]))
    finally:
        wd.cancel()
    r['contract'] = cid
    r['mode'] = mode
    r['task_wall_s'] = time.time() - t0
    return r


def _function_info(spec):
    """'module:Qual.name' -> file:line + hash of the source that is verified."""
    try:
        modname, qual = spec.split(':')
        obj = importlib.import_module(modname)
        for part in qual.split('.'):
            obj = inspect.getattr_static(obj, part) if inspect.isclass(obj) else getattr(obj, part)
        if isinstance(obj, property):
            obj = obj.fget
        if isinstance(obj, (staticmethod, classmethod)):
            obj = obj.__func__
        obj = inspect.unwrap(obj)
        src = inspect.getsource(obj)
        fn = inspect.getsourcefile(obj)
        line = inspect.getsourcelines(obj)[1]
        return dict(function=spec, where='%s:%d' % (os.path.relpath(fn, REPO), line),
                    sha1=hashlib.sha1(src.encode()).hexdigest()[:12])
    except Exception as e:
        return dict(function=spec, where='UNRESOLVED (%s)' % e, sha1='')


def load_known():
    p = os.path.join(ROOT, 'known_findings.json')
    if not os.path.exists(p):
        return []
    return json.load(open(p))


def _matches(entry, prop, cid, clause, config, inputs=None):
    if entry.get('property') != prop:
        return False
    m = entry.get('match', {})
    if m.get('input_predicate'):
        from vp import known_predicates
        if not inputs:
            return False
        try:
            pred = getattr(known_predicates, m['input_predicate'])
            ok = pred(inputs, config, clause) if pred.__code__.co_argcount >= 3 else pred(inputs, config)
            if not ok:
                return False
        except Exception:
            return False
    if m.get('contract') and m['contract'] != cid.split('/', 1)[1]:
        return False
    if m.get('clause_prefix') and not clause.startswith(m['clause_prefix']):
        return False
    if m.get('clause_regex'):
        import re
        if not re.search(m['clause_regex'], clause):
            return False
    for k, v in m.get('config', {}).items():
        if config.get(k) != v:
            return False
    return True


def main(argv=None):
    ap = argparse.ArgumentParser()
    ap.add_argument('prop', nargs='?')
    ap.add_argument('--tier', default=os.environ.get('VERIF_TIER', 'quick'))
    ap.add_argument('--replay')
    ap.add_argument('--only', help='only contracts whose name contains this')
    ap.add_argument('--filter', help='only configs whose json contains this substring')
    ap.add_argument('--jobs', type=int, default=int(os.environ.get('VERIF_JOBS', '12')))
    ap.add_argument('--native-only', action='store_true', help='run every contract natively only (cross-check)')
    ap.add_argument('--no-evidence', action='store_true')
    ap.add_argument('-v', '--verbose', action='store_true')
    args = ap.parse_args(argv)
    seed = int(os.environ.get('VERIF_SEED', '0'))
    if os.environ.get('VERIF_DEBUG_HANG'):
        import faulthandler
        faulthandler.dump_traceback_later(int(os.environ['VERIF_DEBUG_HANG']), exit=True)
    os.chdir(ROOT)
    os.makedirs('evidence', exist_ok=True)
    os.makedirs('replays', exist_ok=True)
    _prepare()
    if args.replay:
        return replay(args.replay)
    prop = args.prop
    t0 = time.time()
    cds, mod = _load(prop)
    if args.only:
        cds = [c for c in cds if args.only in c.name]
    tasks = []
    for cd in cds:
        for cfg in cd.config_list(args.tier):
            if args.filter and args.filter not in json.dumps(cfg, sort_keys=True):
                continue
            if cd.level == 'proof' and not args.native_only:
                tasks.append((cd.id, cfg, 'sym', seed))
                if args.tier != 'quick':
                    # CPython cross-check: the same contract text as a run-time
                    # contract on float inputs (bounded, counted apart)
                    for k in range(3):
                        tasks.append((cd.id, cfg, 'native', seed + k))
            else:
                mult = 1 if args.tier == 'quick' else 4
                for k in range(cd.native_samples * mult):
                    tasks.append((cd.id, cfg, 'native', seed + k))
    can = _canaries()
    if can:
        print('ENGINE-CANARY failed: %s' % can)
        return EXIT_GAP
    if not tasks:
        print('no obligations generated for %s: refusing to report success' % prop)
        return EXIT_GAP
    # heavy tasks first
    results = []
    if args.jobs > 1 and len(tasks) > 1:
        ctx = multiprocessing.get_context('fork')
        with ctx.Pool(min(args.jobs, len(tasks))) as pool:
            for r in pool.imap_unordered(_work, tasks, chunksize=1):
                results.append(r)
                if args.verbose:
                    _brief(r)
    else:
        for t in tasks:
            r = _work(t)
            results.append(r)
            if args.verbose:
                _brief(r)
    return report(prop, args, seed, cds, results, t0)


def _canary_contract(ctx, false_claim=False):
    import numpy as np
    x, y = ctx.real('cx'), ctx.real('cy')
    k = ctx.real('ck', lo=0)
    a = np.array([[x, y], [y, k]], dtype=object if ctx.sym else float)
    lhs = a.dot(a)[0, 0]
    ctx.check_eq('canary', lhs, x * x + y * y + (k if false_claim else 0))
    if x > y:
        ctx.check('canary-branch', x - y > 0)
    else:
        ctx.check('canary-branch', (x - y <= 0) if not false_claim else (x - y < 0))


def _canaries():
    """the engine must prove a true obligation and refute (with a replayable
    model) a false one on every run."""
    from vp import core
    r = core.run_symbolic(_canary_contract, dict(false_claim=False))
    if r['gaps'] or r['n_paths'] != 2 or any(o['status'] != 'proved' for o in r['results']) or len(r['results']) != 4:
        return 'true canary not proved: %s' % r
    r = core.run_symbolic(_canary_contract, dict(false_claim=True))
    ref = [o for o in r['results'] if o['status'] == 'refuted']
    if len(ref) < 3:
        return 'false canary not refuted: %s' % r['results']
    st, info = core.run_native(_canary_contract, dict(false_claim=True), model=ref[0].get('model'), tries=1)
    if st != 'failed':
        return 'false canary model does not replay natively: %s' % st
    return None


def _brief(r):
    if r['mode'] == 'sym' and 'results' in r:
        st = {}
        for o in r['results']:
            st[o['status']] = st.get(o['status'], 0) + 1
        print('  %-28s %s paths=%d %s gaps=%d %.1fs' % (r['contract'], json.dumps(r['config'], sort_keys=True), r['n_paths'], st,
                                                        len(r['gaps']), r['task_wall_s']), flush=True)
    elif 'native' in r:
        print('  %-28s %s native=%s' % (r['contract'], json.dumps(r['config'], sort_keys=True), r['native']['status']), flush=True)
    else:
        print('  %-28s %s ENGINE CRASH\n%s' % (r['contract'], r['config'], r.get('engine_crash')), flush=True)


def report(prop, args, seed, cds, results, t0):
    from vp import registry, core
    known = load_known()
    n_obl = n_dis = 0
    by_backend = {}
    violations = []     # (cid, config, clause, rec)
    undecided = []
    gaps = []
    crashes = []
    bounded_cases = bounded_failed = 0
    native_evals = native_distinct = native_clauses = crosscheck_rejected = 0
    native_samples = []
    samples = []
    stubs = set()
    denoms = set()
    solver_time = 0.0
    n_paths = 0
    vac = 0
    per_contract = {}
    for r in results:
        cid = r['contract']
        pc = per_contract.setdefault(cid, dict(configs=0, paths=0, obligations=0, discharged=0, native_runs=0))
        pc['configs'] += 1
        if 'engine_crash' in r:
            crashes.append((cid, r['config'], r['engine_crash']))
            continue
        if r['mode'] == 'native':
            bounded_cases += 1
            pc['native_runs'] += 1
            st = r['native']['status']
            ninfo = r['native'].get('info') or {}
            nc = ninfo.get('cases') or 0
            native_evals += nc if nc else 1
            native_distinct += (ninfo.get('distinct_cases') or 0) if nc else 1
            native_clauses += ninfo.get('checked') or 0
            for cs in (ninfo.get('case_samples') or [dict(contract=cid, config=r['config'], seed=ninfo.get('seed'), inputs=_short_inputs(ninfo.get('inputs')))])[:2]:
                if len(native_samples) < 6 and (not native_samples or cid != native_samples[-1].get('contract')):
                    native_samples.append(dict(contract=cid, case=cs))
            if st == 'failed':
                bounded_failed += 1
                seen_b = set()
                for f in r['native']['info']['failures']:
                    cb = _clause_base(f['clause'])
                    if cb in seen_b:
                        continue
                    seen_b.add(cb)
                    violations.append((cid, r['config'], f['clause'], dict(status='refuted', backend='native', native=dict(r['native']['info'], failures=[f]), model=r['native']['info'].get('inputs'))))
            elif st == 'crash':
                violations.append((cid, r['config'], 'returns-normally', dict(status='refuted', backend='native', native=r['native']['info'], model=r['native']['info'].get('inputs'))))
            elif st == 'rejected' and registry.CONTRACTS[cid].level == 'proof':
                crosscheck_rejected += 1      # float sampling cannot hit a measure-zero requires; the symbolic run covers it
            elif st == 'rejected':
                gaps.append((cid, r['config'], dict(kind='native-rejected', detail='no sample satisfied the requires')))
            continue
        n_paths += r['n_paths']
        pc['paths'] += r['n_paths']
        stubs |= set(r['stubs'])
        denoms |= set(r['denominators_assumed_nonzero'])
        if r['n_paths'] == 0 or not r['results']:
            gaps.append((cid, r['config'], dict(kind='vacuous', detail='no feasible path / zero obligations')))
        vac += sum(1 for p in r['paths'] if p['status'] == 'vacuous')
        for g in r['gaps']:
            gaps.append((cid, r['config'], g))
        for o in r['results']:
            n_obl += 1
            pc['obligations'] += 1
            solver_time += o.get('time_s', 0)
            if o['status'] == 'proved':
                n_dis += 1
                pc['discharged'] += 1
                by_backend[o['backend']] = by_backend.get(o['backend'], 0) + 1
                if len(samples) < 6 and o['backend'] not in ('concrete',):
                    samples.append(dict(obligation='%s/%s%s' % (cid, o['name'], _cfgs(r['config'])), backend=o['backend'], time_s=round(o['time_s'], 4)))
            elif o['status'] == 'refuted':
                violations.append((cid, r['config'], o['name'], o))
            else:
                undecided.append((cid, r['config'], o['name'], o))

    # ---- refutations: native replay, known-findings filter
    printed = []
    n_viol = 0
    seen = set()
    known_keys = set()
    for cid, config, clause, rec in violations:
        key = (cid, json.dumps(config, sort_keys=True), _clause_base(clause))
        if key in seen:
            continue
        seen.add(key)
        cd = registry.CONTRACTS[cid]
        replay_info = None
        if rec.get('backend') != 'native':
            st, info = core.run_native(cd.fn, config, seed=seed, model=rec.get('model'), tries=1, tol=cd.tol)
            found = st in ('failed', 'crash')
            if not found:
                # seeded native search from the contract's generator
                for k in range(40):
                    st, info = core.run_native(cd.fn, config, seed=seed + 1 + k, tries=3, tol=cd.tol)
                    if st in ('failed', 'crash'):
                        found = True
                        break
            replay_info = dict(status=st, info=info, found=found)
        else:
            replay_info = dict(status='failed', info=rec.get('native'), found=True)
        inputs = ((replay_info.get('info') or {}).get('inputs') if replay_info.get('found') else None)
        kn = [e for e in known if e.get('status') == 'known' and _matches(e, prop, cid, clause, config, inputs)]
        if kn:
            known_keys.add(key)
            line = 'KNOWN-FINDING: property=%s %s' % (prop, kn[0]['what'])
            if line not in printed:
                printed.append(line)
                print(line)
            continue
        n_viol += 1
        if n_viol > 20:
            continue
        fn = os.path.join('replays', '%s_%s_%d.json' % (prop, cid.split('/')[1], n_viol))
        oid = '%s/%s%s' % (cid, clause, _cfgs(config))
        with open(fn, 'w') as f:
            json.dump(dict(property=prop, contract=cid, config=config, obligation=oid, clause=clause,
                           solver=dict(backend=rec.get('backend'), detail=rec.get('detail'), model=rec.get('model')),
                           native_replay=replay_info), f, indent=1, default=str)
        suffix = '' if replay_info['found'] else ' no-failing-input-found'
        print('VIOLATION property=%s replay=%s obligation=%s%s' % (prop, fn, oid, suffix))

    if n_viol > 20:
        print('... and %d more violated obligations (only the first 20 are written out)' % (n_viol - 20))
    for cid, config, clause, rec in undecided[:20]:
        print('UNDECIDED %s/%s%s backend=%s %s' % (cid, clause, _cfgs(config), rec.get('backend'), (rec.get('detail') or '')[:200]))
    for cid, config, g in gaps[:20]:
        print('ENGINE-GAP %s%s %s: %s' % (cid, _cfgs(config), g.get('kind'), (g.get('detail') or '')[:600]))
    for cid, config, tb in crashes[:10]:
        print('ENGINE-CRASH %s%s\n%s' % (cid, _cfgs(config), tb))

    n_known_obl = sum(1 for cid, config, clause, rec in violations
                      if (cid, json.dumps(config, sort_keys=True), _clause_base(clause)) in known_keys
                      and rec.get('backend') != 'native')
    n_obl -= n_known_obl
    wall = time.time() - t0
    proof_level = all(cd.level == 'proof' for cd in cds) and not args.native_only
    from vp import manifest_levels
    level = manifest_levels.LEVELS.get(prop, 'proof' if proof_level else 'other')
    functions = []
    for cd in cds:
        for spec in cd.functions:
            fi = _function_info(spec)
            fi['contract'] = cd.id
            functions.append(fi)
    trusted = sorted(stubs) + list(getattr(sys.modules.get('contracts.%s' % prop.lower()), 'TRUSTED', []))
    assumptions = list(getattr(sys.modules.get('contracts.%s' % prop.lower()), 'ASSUMPTIONS', [])) + [
        'machine floats treated as mathematical reals (object-dtype persona)',
        'array shapes are concrete per configuration; values are universally quantified',
        'numpy structural operations (indexing, broadcasting, dot, reshape) behave on object arrays as on float arrays',
    ]
    if denoms:
        assumptions.append('identities hold where these denominators are non-zero (not derivable from the requires): ' + '; '.join(sorted(denoms)[:8]))
    n_sym_cfg = len({(r['contract'], json.dumps(r['config'], sort_keys=True)) for r in results if r.get('mode') == 'sym'})
    cov = dict(
        obligations=n_obl, discharged=n_dis,
        checker_cmd='./check %s --tier %s' % (prop, args.tier),
        trusted_base=trusted,
        by_backend=by_backend,
        solver_time_s=round(solver_time, 3),
        paths_explored=n_paths, vacuous_paths=vac,
        configurations=len(results),
        refuted_obligations_matching_known_findings=n_known_obl,
        undecided=len(undecided), engine_gaps=len(gaps) + len(crashes),
        bounded_cases=bounded_cases, bounded_failed=bounded_failed,
        functions_under_contract=functions,
        per_contract=per_contract,
        samples=(samples + native_samples) or [dict(note='nothing evaluated in this run')],
        evaluations=n_obl + native_evals,
        distinct_nontrivial=n_sym_cfg + native_distinct,
        bounded_clause_evaluations=native_clauses,
        crosscheck_runs_rejected_by_requires=crosscheck_rejected,
        rule=('evaluations = proof obligations generated from the real code on this run + cases explored by the bounded run-time contracts '
              '(a case = one graph / tree / file / value / seeded input, counted by the contract as it runs; a native run that does not count for itself is one case). '
              'distinct_nontrivial = distinct symbolic (contract, configuration) pairs, each covering all real values of its leaves, + distinct bounded cases '
              '(distinct by construction of the enumeration or by (configuration, seed); trivial ones such as the edgeless graph are not counted)'),
        explanation=manifest_levels.EXPLAIN.get(prop, ''),
        exhaustive=False,
    )
    ev = dict(property_id=prop, tier=args.tier, seed=seed, level=level, coverage=cov, assumptions=assumptions,
              wall_s=round(wall, 2), violations=n_viol)
    if not args.no_evidence and not args.only and not args.filter:
        with open(os.path.join('evidence', '%s.json' % prop), 'w') as f:
            json.dump(ev, f, indent=1, default=str)
    print('%s tier=%s obligations=%d discharged=%d backends=%s paths=%d bounded=%d undecided=%d gaps=%d violations=%d wall=%.1fs'
          % (prop, args.tier, n_obl, n_dis, by_backend, n_paths, bounded_cases, len(undecided), len(gaps) + len(crashes), n_viol, wall))
    if n_viol:
        return EXIT_VIOLATION
    if crashes or gaps:
        return EXIT_GAP
    if undecided:
        return EXIT_UNDECIDED
    if n_obl + bounded_cases == 0:
        print('zero obligations: refusing to report success')
        return EXIT_GAP
    return EXIT_OK


def _short_inputs(inputs, n=6):
    if not isinstance(inputs, dict):
        return inputs
    return {k: inputs[k] for k in list(inputs)[:n]}


def _clause_base(clause):
    """clause name without the trailing element indices ([0, 1], #3)"""
    import re
    return re.sub(r'((\[[0-9, ]+\])|(#[0-9]+))+$', '', clause)


def _cfgs(config):
    return '[' + ','.join('%s=%s' % (k, config[k]) for k in sorted(config)) + ']' if config else ''


def replay(path):
    from vp import registry, core
    d = json.load(open(path))
    prop = d['property']
    _load(prop)
    cd = registry.CONTRACTS[d['contract']]
    model = (d.get('solver') or {}).get('model') or ((d.get('native_replay') or {}).get('info') or {}).get('inputs')
    st, info = core.run_native(cd.fn, d['config'], model=model, tries=1, tol=cd.tol)
    if st not in ('failed', 'crash'):
        rinfo = (d.get('native_replay') or {}).get('info') or {}
        if rinfo.get('seed') is not None:
            ctx_seed = rinfo['seed']
            st, info = core.run_native(cd.fn, d['config'], seed=0, model=rinfo.get('inputs'), tries=1, tol=cd.tol)
    print('replay %s: obligation %s -> native status %s' % (path, d['obligation'], st))
    print(json.dumps(info, indent=1, default=str)[:3000])
    if st in ('failed', 'crash'):
        print('VIOLATION property=%s replay=%s' % (prop, path))
        return EXIT_VIOLATION
    return EXIT_OK


if __name__ == '__main__':
    sys.exit(main())
