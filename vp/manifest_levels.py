"""Level written into each evidence file and into MANIFEST.json (single
source; tools/mkmanifest.py regenerates the manifest from this)."""
LEVELS = {
    'C03': 'proof',
}
EXPLAIN = {}
NOT_CLAIMED = {}
CLAIMS = {
    'C03': dict(
        engine='symnp (E2)',
        design_ref='DESIGN.md §6 C03',
        technique='contract-based deductive verification: sidecar contracts on the real compose/apply functions, symbolic execution over reals, obligations discharged by normal form / Groebner / z3',
        text='For every ordered pair of the 12 homogeneous-family classes, both dimensions, both sides: law, closure, class honesty, invertibility and frame are proved for all real parameter values (class pairs and dimensions enumerated completely).',
        note='Reals instead of floats; numpy structural ops trusted on object arrays; alignment operands generated as superset of reachable states; induction over call sequences (G0) is a paper argument.',
    ),
}
