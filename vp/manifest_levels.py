"""Level written into each evidence file and into MANIFEST.json (single
source; tools/mkmanifest.py regenerates the manifest from this)."""
LEVELS = {
    'C03': 'proof',
    'C04': 'proof',
    'C20': 'proof',
    'C02': 'proof',
    'C05': 'proof',
    'C06': 'proof',
    'C08': 'proof',
    'C07': 'other',
    'C13': 'proof',
    'C01': 'proof',
    'C15': 'proof',
    'C17': 'proof',
    'C18': 'proof',
}
EXPLAIN = {
    'C07': 'Mixed: deductive (all real values at bounded sizes) for aligned_source/alignment_error/rejection on every alignment class, translation and affine recovery + optimality certificates, 2-D rotation orthogonality / built-from-svd / never-a-reflection, PWA vertex, per-triangle affine and edge-continuity clauses; bounded run-time contracts (seeded, never counted as proved) for 3-D rotations, similarity and uniform-scale recovery/size/optimality against an independent Kabsch reference. coverage.obligations/discharged count the deductive part, coverage.bounded_cases the stand-ins.',
}
NOT_CLAIMED = {}
CLAIMS = {
    'C18': dict(
        engine='symnp (E2)',
        design_ref='DESIGN.md §6 C18',
        technique='contract-based deductive verification: an uninterpreted pure feature through the real ndfeature/imgfeature/winitfeature decorators; the normalisers over symbolic pixel values (sqrt-aware normal form, forking over the zero-scale test); concrete features by a bounded run-time contract',
        text='Wrappers: for any pure feature (same size, size changing, with sampling centres) on Image/MaskedImage with and without landmarks: array call == image call, kind kept, landmarks/mask unchanged and owned (same size) or rescaled / resized / sampled (new size), input untouched. Normalisers (std, norm, var; both modes; arrays, Image, MaskedImage; 1-2 channels): result = (x-mean)/scale, zero mean, unit std/norm, idempotent, zero scale refused or skipped and finite - for all pixel values. gradient/Gaussian/IGO/ES/DAISY/no_op and a composition: purity and attachment, bounded.',
        note='2x2 pixel arrays for the normalisers, 4x5 for the wrappers (values universal); inner numerics of the concrete features are external and not claimed.',
    ),
    'C17': dict(
        engine='symnp (E2)',
        design_ref='DESIGN.md §6 C17',
        technique='contract-based deductive verification: masking contracts over symbolic coordinates/colours/tcoords with the structure enumerated exhaustively at small scope; geometric identities by rational-function normal form with constraint-free rotation parametrisations and sqrt/abs rewriting; structural/normal clauses that do not discharge are bounded run-time contracts',
        text='Masking: 6 triangle lists (single, shared edge, isolated pair, non-manifold fan, unused vertex, strip) x every vertex mask and every triangle mask keeping a whole triangle x 3 mesh classes: kept triangles, dropped orphans, every kept triangle joins the same coordinates, colours/tcoords/texture/landmarks carried, input untouched - all attribute values. Geometry: areas and edge lengths non-negative, invariant under all rigid motions, scaling by s^2 / |s|; triangle normals unit and perpendicular (2-D and 3-D). Boundary detection, unique edges, vertex normals, normals under rotation and tiny units: bounded stand-in.',
        note='Structure scope small (<=6 vertices, <=3 triangles), values universal; all-true mask is the identity by reading of the statement.',
    ),
    'C15': dict(
        engine='symnp (E2)',
        design_ref='DESIGN.md §6 C15',
        technique='contract-based deductive verification: symbolic coordinates through the real labellers / selection methods (re-indexing proved by identity of symbolic leaves, commutation with an uninterpreted row-wise map); structure enumerated; hash-seed independence by a bounded multi-process run',
        text='All 33 index-based labellers x {ndarray, PointCloud, LabelledPointUndirectedGraph} x {2-D, 3-D}: output points are pairwise distinct input leaves, every point labelled, masks/edges/trilists well-formed, no branch on coordinates, commutes with any row-wise map, wrong sizes rejected, input untouched - for all coordinate values (the input size is fixed by each labeller, so the domain is complete). Selection: with/without/get/add/remove on every label cover of 3 points by 1-3 labels x 3 edge sets x every label subset: exact points, induced edges, restricted masks, original label order, invariant "every point labelled".',
        note='Selection scope is small (3-4 points), values universal; with_labels only with requests in original order; PYTHONHASHSEED independence is a bounded stand-in (6 seeds in fresh interpreters); one recorded known finding (49-point trimesh table).',
    ),
    'C01': dict(
        engine='symnp (E2)',
        design_ref='DESIGN.md §6 C01',
        technique='contract-based deductive verification: registration contract out[q] = Sample(src, T_ret(q)), T_ret(landmarks_out) = landmarks_src, mask warped by the same mapping, on the real ops with symbolic parameters; sampler and mask warp through dependency/callee contracts; real-dtype behaviour by a bounded run-time contract',
        text='warp_to_shape (affine, projective, opaque map; Image/MaskedImage 2-D/3-D, BooleanImage), rescale (3 rounding modes, 2-D/3-D), resize, zoom, mirror, rotate and transform_about_centre with retained shape, rescale_to_diagonal, warp_to_mask: pixels, landmarks and mask registered w.r.t. the returned transform for all real parameter values; crop_to_*/pyramid proved equal to the op they delegate to. Shape-growing rotations, rescale_to_pointcloud / landmarks range, gaussian_pyramid and all dtypes: bounded stand-in through the real scipy (bit-identical resampling at T(grid)).',
        note='Small images (3x4, 2x3x2), result sides concretised within the stated parameter ranges; interpolation error is not part of the claim; sampler contract assumed; BooleanImage.warp_to_shape as callee contract for the mask; one recorded known finding (scale*len == 1).',
    ),
    'C13': dict(
        engine='symnp (E2)',
        design_ref='DESIGN.md §6 C13',
        technique='contract-based deductive verification: crop/patch contracts on the real code with symbolic pixel leaves and symbolic real crop bounds (path forking over the boundary cases, integer concretisation of the result shape); the sampler through its dependency contract; dtype by a bounded run-time contract',
        text='Crop: for all real bounds (each axis over inside / partially / wholly outside on each side, and all overflow combinations across axes), all three image classes, 2-D and 3-D: exact source block (same leaves), landmarks shifted by the minimum, returned transform, ValueError / ImageBoundaryError exactly as specified, receiver untouched. Patches: for all pixel values, enumerated geometry (1-5 channels, 6 patch shapes, 49 centres in and beyond the image, 4 offset sets, fractional centres away from ties): shape, content, slicing==sampling path, write-back.',
        note='Image sizes/geometry enumerated (values universal); scipy map_coordinates via the pointwise sampler contract (exact at grid points, cval outside); dtype preservation only by the bounded persona contract.',
    ),
    'C08': dict(
        engine='symnp (E2)',
        design_ref='DESIGN.md §6 C08',
        technique='contract-based deductive verification: set_target contract "post-state == state of a fresh constructor call" over symbolic source/old target/new target, dependency results functional',
        text='For all alignment classes and all constructor options (rotation x allow_mirror, kernels), 2-D and 3-D: after set_target(t1) on an alignment fitted to an arbitrary t0 the full state, map and aligned source equal those of a fresh Class(source, t1, **options); copies taken before/after are unaffected/equal; source and passed point sets untouched; incompatible targets rejected with the state unchanged. Independence from the history follows because the old target is symbolic (G0). GPA clause: bounded stand-in.',
        note='N = d+1 points (3 for TPS/PWA), values universal; svd/solve/sqrt as functional dependency contracts; TPS coefficients via functional callee contract; GPA is a bounded run-time check.',
    ),
    'C07': dict(
        engine='symnp (E2)',
        design_ref='DESIGN.md §6 C07',
        technique='contract-based deductive verification for the polynomial clauses (translation/affine certificates, 2-D rotation via svd contract, PWA); bounded run-time contracts against an independent Kabsch reference for the svd/sqrt-heavy clauses',
        text='See evidence explanation: deductive where the obligations discharge, bounded stand-ins elsewhere (3-D rotation, similarity, uniform scale). Optimality is proved as certificates (zero-sum residual, normal equations); certificate => optimum is a paper lemma.',
        note='G1/G5 paper lemmas; bounded parts are seeded samples (mirrored and non-mirrored data, with and without noise).',
    ),
    'C06': dict(
        engine='symnp (E2)',
        design_ref='DESIGN.md §6 C06',
        technique='contract-based deductive verification: copy()/landmark-manager contracts over an abstract state view and a reachable-storage (heap separation) analysis of the real objects, symbolic values',
        text='copy(): equal state, disjoint reachable mutable storage (documented sharing excepted), no value-dependent branch, and write-through cross-checks, for 8 shape classes, 4 image configurations, LandmarkManager, 12 homogeneous classes, chain, TPS, PWA, RBF, WithDims, linear/PCA models (trimmed and not), LazyList; 8 public mutators do not leak between copy and original; every landmark-manager operation (set/get/delete/iterate/copy/assign-to-owner/transform) satisfies its whole-view contract and preserves the invariant at 0-3 groups, which extends to all histories by induction (G0).',
        note='Values universal, sizes bounded (k<=3 groups, small shapes); heap-separation => non-interference (G4) and induction over histories (G0) are paper arguments; unbounded group count would need the E1 engine.',
    ),
    'C02': dict(
        engine='symnp (E2)',
        design_ref='DESIGN.md §6 C02',
        technique='contract-based deductive verification: an uninterpreted row-wise transform applied to every shape class through the real apply/_transform/copy code; callee contract (row-wise, pure) verified per concrete transform class',
        text='For all 8 shape classes, 2-D/3-D, 0-2 landmark groups of rotating classes and nested landmark groups: result class, moved points, every landmark group moved by the same map, all other attributes carried over, input/transform unchanged, array call agrees, batching irrelevant - proved for all coordinate values with an opaque row-wise transform. The row-wise/purity contract is proved for the 12 homogeneous classes, chains, WithDims (2-D/3-D), TPS, PWA and both RBF kernels.',
        note='Shapes have 3-4 points and fixed small connectivity (values universal, sizes bounded); TPS coefficients via callee contract; reals for floats.',
    ),
    'C05': dict(
        engine='symnp (E2)',
        design_ref='DESIGN.md §6 C05',
        technique='contract-based deductive verification: sidecar contracts on as_vector/from_vector of the real classes over symbolic state; dtype behaviour by a bounded run-time contract',
        text='as_vector read-only/size/non-mutating, full-state round trip, from_vector(w).as_vector()==w and receiver untouched proved for all 8 shape classes (2-D/3-D, with landmarks), Image/MaskedImage (all 63 non-empty masks of a 2x3 image, 2 channels, 3-D) and every vectorisable homogeneous class incl. alignment target re-sync; BooleanImage exhaustively; every wrong length raises or yields a well-formed object. Mirrored 2-D similarities are a recorded known finding. dtype personas (uint8/float32/float64 images x float vectors) are a bounded stand-in.',
        note='Object persona hides dtypes (bounded contract covers them, not counted as proved); rotation as_vector round trip (eigh) is the bounded contract in C20; sizes bounded, values universal.',
    ),
    'C20': dict(
        engine='symnp (E2)',
        design_ref='DESIGN.md §6 C20',
        technique='contract-based deductive verification: sidecar contracts on the real constructors, cos/sin/arccos/arctan2 as uninterpreted functions with their defining axioms; two clauses bounded (run-time contract)',
        text='Angle constructors (2-D, x/y/z, degrees/radians), quaternion -> rotation, about-centre helpers (point clouds, meshes, images; affine, rotation, scale, projective, opaque map), Scale factory and texture-coordinate transforms are proved for all real parameters. 2-D reported angle proved on the counter-clockwise half; the clockwise half is a recorded known finding. Quaternion round trip and 3-D axis-angle are bounded stand-ins (seeded native runs), not counted as proved.',
        note='cos/sin uninterpreted with c^2+s^2=1; pi only bounded; eigh/eig based clauses (quaternion round trip, 3-D axis-angle) are bounded run-time checks.',
    ),
    'C04': dict(
        engine='symnp (E2)',
        design_ref='DESIGN.md §6 C04',
        technique='contract-based deductive verification: sidecar contracts on pseudoinverse/apply of the real classes, symbolic execution over reals; TPS coefficients through a callee contract',
        text='Two-sided inverse, honest class, swapped source/target and untouched receiver proved for all 12 homogeneous classes in 2-D and 3-D (all real parameters). TPS (3 kernels, N=3,4): interpolation and reverse-fit inverse proved modulo the contract of _build_coefficients (lemma SVD-INV). PWA: vertices both ways on 1 and 2 triangles, left inverse on a generic interior point of one triangle.',
        note='Reals for floats; lemma SVD-INV and the svd dependency contract are assumed (listed in evidence); PWA/TPS sizes are bounded (N<=4 landmarks, <=2 triangles), values universal; cdist := sqrt of squared distance.',
    ),
    'C03': dict(
        engine='symnp (E2)',
        design_ref='DESIGN.md §6 C03',
        technique='contract-based deductive verification: sidecar contracts on the real compose/apply functions, symbolic execution over reals, obligations discharged by normal form / Groebner / z3',
        text='For every ordered pair of the 12 homogeneous-family classes, both dimensions, both sides: law, closure, class honesty, invertibility and frame are proved for all real parameter values (class pairs and dimensions enumerated completely).',
        note='Reals instead of floats; numpy structural ops trusted on object arrays; alignment operands generated as superset of reachable states; induction over call sequences (G0) is a paper argument.',
    ),
}
