"""Input signatures of recorded known findings.  Each predicate receives the
failing native inputs (name -> float) and the configuration and says whether
this failing input is *the* recorded one.  A violation whose failing input
does not satisfy the predicate is reported as a new violation."""
import numpy as np


def _mat(inputs, base, n, m):
    return np.array([[inputs['%s_%d_%d' % (base, i, j)] for j in range(m)] for i in range(n)], dtype=float)


def near_uniform_singular_values(inputs, config):
    d = config['d']
    L = _mat(inputs, 'a_L', d, d)
    s = np.linalg.svd(L, compute_uv=False)
    return bool(np.allclose(s, s[0]) and not np.all(s == s[0]))


def negative_sine_rotation(inputs, config):
    """the recorded C20 finding: 2-D rotations with sin(theta) < 0."""
    import math
    if 'theta' in inputs:
        return math.sin(inputs['theta']) < 0
    if 'r_s' in inputs:
        return inputs['r_s'] < 0
    return False


def rescale_scale_times_length_is_one(inputs, config):
    """the recorded C01 finding: a rescale whose scale * axis length is exactly
    1 on some axis (index-space scale factor (s*len - 1)/(len - 1) = 0)."""
    shape = (2, 3, 2) if str(config.get('op', '')).endswith('3d') else (3, 4)
    for a, n in enumerate(shape):
        v = inputs.get('s_%d' % a)
        if v is not None and abs(v * n - 1.0) < 1e-9:
            return True
    return False


def centred_model_mean_exactly_zero(inputs, config, clause=''):
    """the recorded C11 finding: the failing chunking is one in which a centred
    PCA model had an exactly-zero mean when increment() was called (the
    contract records that fact per chunking while it runs)."""
    import re
    m = re.match(r'(split\[[0-9, ]+\])', clause)
    return bool(m and inputs.get('centred_model_mean_exactly_zero_before_increment/' + m.group(1)))
