"""E1 extension for the export guard functions of menpo.io.output.base.

Same generator as vp.pyvc (VCs from the AST of the real function, re-read on
every run) with the extra constructs those functions use:

* string constants and dict displays as opaque values,
* tuple displays, tuple-unpacking assignment,
* ``with <call> as name:`` (body run with the bound value; closing the file is
  not modelled),
* ``while`` loops are NOT supported (a function that needs one is replaced by
  its callee contract),
* exception constructors ``raise X(<message arguments>)``: the message
  arguments are dropped (pure string formatting), the class is kept,
* values of python types enumerated by the contract (``str`` / ``Path`` /
  file handle): ``isinstance`` is decided concretely per enumerated kind.

The file system is abstract: a *location* sort, ``exists : Loc -> Bool`` (the
state before the call) and a ghost set ``$written`` of the locations opened
for writing during the call.
"""
import ast

import z3

from . import pyvc
from .pyvc import Gen, ExcV, NONE, OutsideSubset

Loc = z3.DeclareSort('Loc')
exists = z3.Function('exists', Loc, z3.BoolSort())


class Opaque(object):
    """a value the functions only pass around (strings, dicts, callables)"""

    def __init__(self, tag):
        self.tag = tag

    def __repr__(self):
        return 'Opaque(%s)' % self.tag


class TypeTok(object):
    def __init__(self, name):
        self.name = name


class PathV(object):
    """a str or pathlib.Path naming the file at location ``loc``.
    normalised: produced by _norm_path (same location by the trusted contract
    of os.path / pathlib)."""

    def __init__(self, kind, loc, normalised=False):
        self.kind, self.loc, self.normalised = kind, loc, normalised


class HandleV(object):
    """an open file handle bound by ``with p.open('wb') as h``"""

    def __init__(self, loc):
        self.loc = loc


class IOGen(Gen):
    def __init__(self, func, contracts, name=None, exception_classes=('OverwriteError', 'ValueError', 'AttributeError')):
        Gen.__init__(self, func, contracts, {}, name=name)
        self.exception_classes = set(exception_classes)

    # -------------------------------------------------------- statements
    def run_stmt(self, st, s):
        if isinstance(st, ast.Assign) and len(st.targets) == 1 and isinstance(st.targets[0], ast.Tuple):
            names = st.targets[0].elts
            if not all(isinstance(n, ast.Name) for n in names):
                raise OutsideSubset('tuple target')
            res = []
            for s2, v in self.ev(st.value, s):
                if isinstance(v, ExcV):
                    res.append((s2, ('raise', v)))
                    continue
                if not isinstance(v, tuple) or len(v) != len(names):
                    raise OutsideSubset('unpacking a non-tuple')
                for n, x in zip(names, v):
                    s2.env[n.id] = x
                res.append((s2, None))
            return res
        if isinstance(st, ast.With):
            if len(st.items) != 1:
                raise OutsideSubset('with: several items')
            it = st.items[0]
            res = []
            for s2, v in self.ev(it.context_expr, s):
                if isinstance(v, ExcV):
                    res.append((s2, ('raise', v)))
                    continue
                if it.optional_vars is not None:
                    if not isinstance(it.optional_vars, ast.Name):
                        raise OutsideSubset('with: target')
                    s2.env[it.optional_vars.id] = v
                res.extend(self.run_block(st.body, s2))
            if 'closing the file of a with-block' not in self.dropped:
                self.dropped.append('closing the file of a with-block')
            return res
        if isinstance(st, ast.Raise) and isinstance(st.exc, ast.Call) and isinstance(st.exc.func, ast.Name) \
                and st.exc.func.id in self.exception_classes:
            if 'exception message arguments' not in self.dropped:
                self.dropped.append('exception message arguments')
            return [(s, ('raise', ExcV(st.exc.func.id)))]
        if isinstance(st, ast.Expr) and isinstance(st.value, ast.Call) and isinstance(st.value.func, ast.Attribute) \
                and isinstance(st.value.func.value, ast.Name) and st.value.func.value.id == 'warnings':
            if 'warnings.warn calls' not in self.dropped:
                self.dropped.append('warnings.warn calls')
            return [(s, None)]
        return Gen.run_stmt(self, st, s)

    # ------------------------------------------------------- expressions
    def truth(self, v):
        if isinstance(v, (PathV, HandleV, Opaque)):
            return z3.BoolVal(True)
        return z3.simplify(Gen.truth(self, v))

    def ev(self, node, s):
        if isinstance(node, ast.Constant) and isinstance(node.value, str):
            return [(s, Opaque('str:%s' % node.value[:20]))]
        if isinstance(node, ast.Dict):
            return [(s, Opaque('dict'))]
        if isinstance(node, ast.Tuple):
            outs = [(s, ())]
            for e in node.elts:
                nxt = []
                for s1, vals in outs:
                    for s2, v in self.ev(e, s1):
                        if isinstance(v, ExcV):
                            raise OutsideSubset('raising tuple element')
                        nxt.append((s2, vals + (v,)))
                outs = nxt
            return outs
        if isinstance(node, ast.BoolOp):
            # short-circuit evaluation
            def go(vals, s0):
                first, rest = vals[0], vals[1:]
                out = []
                for s1, v in self.ev(first, s0):
                    if isinstance(v, ExcV) or not rest:
                        out.append((s1, v))
                        continue
                    c = self.truth(v)
                    stop = c if isinstance(node.op, ast.Or) else z3.Not(c)
                    stop = z3.simplify(stop)
                    if z3.is_true(stop):
                        out.append((s1, v))
                    elif z3.is_false(stop):
                        out.extend(go(rest, s1))
                    else:
                        out.append((s1.fork([stop]), v))
                        out.extend(go(rest, s1.fork([z3.Not(stop)])))
                return out
            return go(node.values, s)
        if isinstance(node, ast.Attribute):
            out = []
            for s1, base in self.ev(node.value, s):
                if isinstance(base, ExcV):
                    out.append((s1, base))
                elif isinstance(base, PathV) and node.attr in ('name', 'suffix', 'suffixes'):
                    out.append((s1, Opaque('%s-of-path' % node.attr)))
                elif isinstance(base, HandleV) and node.attr == 'name':
                    # a handle opened from a path has a name; an anonymous buffer would raise AttributeError
                    out.append((s1, PathV('str', base.loc)))
                elif isinstance(base, Opaque) and base.tag == 'object:any':
                    # attribute access on an arbitrary user object: present or AttributeError
                    b = self.fresh_bool('has_' + node.attr)
                    out.append((s1.fork([b]), Opaque('attr:' + node.attr)))
                    out.append((s1.fork([z3.Not(b)]), ExcV('AttributeError')))
                else:
                    return Gen.ev(self, node, s)
            return out
        if isinstance(node, ast.Subscript):
            (s1, base), = self.ev(node.value, s)
            if isinstance(base, Opaque):
                return [(s1, Opaque('item-of-' + base.tag))]
        if isinstance(node, ast.IfExp):
            out = []
            for s1, c in self.ev(node.test, s):
                c = z3.simplify(self.truth(c))
                if z3.is_true(c):
                    out.extend(self.ev(node.body, s1))
                elif z3.is_false(c):
                    out.extend(self.ev(node.orelse, s1))
                else:
                    out.extend(self.ev(node.body, s1.fork([c])))
                    out.extend(self.ev(node.orelse, s1.fork([z3.Not(c)])))
            return out
        if isinstance(node, ast.Compare) and len(node.ops) == 1 and not isinstance(node.ops[0], (ast.Is, ast.IsNot)):
            (s1, a), = self.ev(node.left, s)
            (s2, b), = self.ev(node.comparators[0], s1)
            if isinstance(a, Opaque) or isinstance(b, Opaque) or a is NONE or b is NONE:
                # comparison of strings the model does not interpret: either outcome
                return [(s2, self.fresh_bool('cmp'))]
        return Gen.ev(self, node, s)

    def ev_call(self, node, s):
        f = node.func
        # method calls on a local whose value is a path: contract keyed '<Path>.method'
        if isinstance(f, ast.Attribute) and isinstance(f.value, ast.Name) and isinstance(s.env.get(f.value.id), PathV):
            c = self.contracts.get('<Path>.' + f.attr)
            if c is None:
                raise OutsideSubset('call to <Path>.%s has no contract' % f.attr)
            args = []
            for a in node.args:
                (s, v), = self.ev(a, s)
                args.append(v)
            return c(self, s, [s.env[f.value.id]] + args, {k.arg: k.value for k in node.keywords if k.arg})
        # calls through a local variable holding a callable
        if isinstance(f, ast.Name) and isinstance(s.env.get(f.id), Opaque) and s.env[f.id].tag.startswith('callable:'):
            c = self.contracts.get('<%s>' % s.env[f.id].tag)
            if c is None:
                raise OutsideSubset('call to %s has no contract' % s.env[f.id].tag)
            args = []
            for a in node.args:
                (s, v), = self.ev(a, s)
                args.append(v)
            if any(k.arg is None for k in node.keywords) and 'forwarded **kwargs' not in self.dropped:
                self.dropped.append('forwarded **kwargs')
            return c(self, s, args, {k.arg: k.value for k in node.keywords if k.arg})
        return Gen.ev_call(self, node, s)


# ------------------------------------------------------------------ builtins
def c_isinstance(gen, s, args, kw):
    v, t = args
    toks = t if isinstance(t, tuple) else (t,)
    names = {x.name for x in toks}
    if isinstance(v, PathV):
        return [(s, z3.BoolVal(v.kind in names))]
    if isinstance(v, HandleV):
        return [(s, z3.BoolVal(False))]
    raise OutsideSubset('isinstance of %r' % (v,))


def c_Path(gen, s, args, kw):
    """pathlib.Path(str-or-Path): names the same location (trusted)."""
    (v,) = args
    if not isinstance(v, PathV):
        raise OutsideSubset('Path() of %r' % (v,))
    return [(s, PathV('Path', v.loc, v.normalised))]


def c_norm_path(gen, s, args, kw):
    """menpo.io.utils._norm_path: absolute, normalised spelling of the same
    location (trusted contract of os.path.expanduser/expandvars/normpath/abspath)."""
    (v,) = args
    return [(s, PathV('Path', v.loc, True))]


def c_path_exists(gen, s, args, kw):
    (p,) = args
    return [(s, exists(p.loc))]


def c_path_open_wb(gen, s, args, kw):
    """Path.open('wb'): creates/truncates the file at the path's location -
    the location joins the ghost set $written."""
    p = args[0]
    s.env['$written'] = z3.Store(s.env['$written'], p.loc, True)
    s.env['$n_opens'] = s.env['$n_opens'] + 1
    return [(s, HandleV(p.loc))]
