"""E1 `pyvc` — verification-condition generation from the AST of the real
function (source re-read from the working tree on every run).

Subset (anything else raises OutsideSubset, never a verdict): assignments to
names, expression statements that are method calls, if/else, `for v in
range(a, b, c)` with c > 0 and a sidecar invariant, try/except/else with named
exception classes, return, raise; expressions over ints, bools, None,
comparisons, `is None`, + and -, `x.shape[0]`, slices `x[a:b]`, empty list
displays, and calls that have a contract in the sidecar table.

Encoding: python ints are mathematical integers.  An array value is a pair
(length, element function) over an uninterpreted element sort; a python list
that is only ever built by `append` from `[]` is represented by its element
count and the ghost concatenation of its elements (what np.vstack / np.hstack
return), maintained by the contract of `append`.  Docstrings are dropped,
`**kwargs` that are merely forwarded are ignored.
"""
import ast
import inspect
import textwrap
import time

import z3


class OutsideSubset(Exception):
    pass


Row = z3.DeclareSort('Row')


class ArrV(object):
    """immutable array value: length + element function (rows or bools)"""

    def __init__(self, length, at, kind='rows'):
        self.length, self.at, self.kind = length, at, kind


class ListV(object):
    """list built by appends from []: count + ghost concatenation"""

    def __init__(self, count, cat_len, cat_at, kind):
        self.count, self.cat_len, self.cat_at, self.kind = count, cat_len, cat_at, kind


def cat(gen, l, kind):
    """ghost concatenation array of a list (a fresh one for the empty list)"""
    if l.cat_at is None:
        l.cat_at = gen.fresh_arr('cat0', kind)
        l.kind = l.kind or kind
    return l.cat_at


class Ref(object):
    def __init__(self, i):
        self.i = i


class ExcV(object):
    def __init__(self, cls, payload=None):
        self.cls, self.payload = cls, payload


NONE = object()


class State(object):
    def __init__(self, env=None, heap=None, pc=None):
        self.env = dict(env or {})
        self.heap = dict(heap or {})
        self.pc = list(pc or [])

    def fork(self, extra=()):
        s = State(self.env, {k: v for k, v in self.heap.items()}, self.pc + list(extra))
        return s


class Gen(object):
    def __init__(self, func, contracts, invariants, name=None):
        self.func = func
        src = textwrap.dedent(inspect.getsource(func))
        self.tree = ast.parse(src).body[0]
        self.src_lines = len(src.splitlines())
        self.contracts = contracts
        self.invariants = invariants
        self.vcs = []            # (name, hyps, goal)
        self.counter = 0
        self.loop_ordinal = 0
        self.name = name or func.__qualname__
        self.dropped = []
        body = self.tree.body
        if body and isinstance(body[0], ast.Expr) and isinstance(getattr(body[0], 'value', None), ast.Constant) and isinstance(body[0].value.value, str):
            body = body[1:]
            self.dropped.append('docstring')
        self.body = body

    # ------------------------------------------------------------ helpers
    def fresh_int(self, base):
        self.counter += 1
        return z3.Int('%s!%d' % (base, self.counter))

    def fresh_bool(self, base):
        self.counter += 1
        return z3.Bool('%s!%d' % (base, self.counter))

    def fresh_arr(self, base, kind='rows'):
        self.counter += 1
        sort = Row if kind == 'rows' else z3.BoolSort()
        return z3.Array('%s!%d' % (base, self.counter), z3.IntSort(), sort)

    def oblige(self, name, state, goal):
        self.vcs.append((name, list(state.pc), goal))

    # --------------------------------------------------------- statements
    def run_block(self, stmts, state):
        """returns list of (state, outcome) with outcome None (fell through),
        ('return', v) or ('raise', ExcV)"""
        states = [(state, None)]
        for st in stmts:
            nxt = []
            for s, out in states:
                if out is not None:
                    nxt.append((s, out))
                else:
                    nxt.extend(self.run_stmt(st, s))
            states = nxt
        return states

    def run_stmt(self, st, s):
        if isinstance(st, ast.Pass):
            return [(s, None)]
        if isinstance(st, ast.Assign):
            if len(st.targets) != 1 or not isinstance(st.targets[0], ast.Name):
                raise OutsideSubset('assignment target %s' % ast.dump(st.targets[0]))
            res = []
            for s2, v in self.ev(st.value, s):
                if isinstance(v, ExcV):
                    res.append((s2, ('raise', v)))
                else:
                    s2.env[st.targets[0].id] = v
                    res.append((s2, None))
            return res
        if isinstance(st, ast.Expr):
            res = []
            for s2, v in self.ev(st.value, s):
                res.append((s2, ('raise', v) if isinstance(v, ExcV) else None))
            return res
        if isinstance(st, ast.Return):
            res = []
            for s2, v in (self.ev(st.value, s) if st.value is not None else [(s, NONE)]):
                res.append((s2, ('raise', v) if isinstance(v, ExcV) else ('return', v)))
            return res
        if isinstance(st, ast.Raise):
            res = []
            for s2, v in self.ev(st.exc, s):
                if not isinstance(v, ExcV):
                    raise OutsideSubset('raise of a non-exception value')
                res.append((s2, ('raise', v)))
            return res
        if isinstance(st, ast.If):
            res = []
            for s2, c in self.ev(st.test, s):
                if isinstance(c, ExcV):
                    res.append((s2, ('raise', c)))
                    continue
                c = self.truth(c)
                if z3.is_true(c):
                    res.extend(self.run_block(st.body, s2))
                elif z3.is_false(c):
                    res.extend(self.run_block(st.orelse, s2))
                else:
                    res.extend(self.run_block(st.body, s2.fork([c])))
                    res.extend(self.run_block(st.orelse, s2.fork([z3.Not(c)])))
            return res
        if isinstance(st, ast.Try):
            if st.finalbody:
                raise OutsideSubset('try/finally')
            res = []
            for s2, out in self.run_block(st.body, s):
                if out is None:
                    res.extend(self.run_block(st.orelse, s2))
                elif out[0] == 'raise':
                    handled = False
                    for h in st.handlers:
                        hname = h.type.id if isinstance(h.type, ast.Name) else None
                        if hname is None:
                            raise OutsideSubset('except without a named class')
                        if out[1].cls == hname:
                            if h.name:
                                s2.env[h.name] = out[1]
                            res.extend(self.run_block(h.body, s2))
                            handled = True
                            break
                    if not handled:
                        res.append((s2, out))
                else:
                    res.append((s2, out))
            return res
        if isinstance(st, ast.For):
            return self.run_for(st, s)
        raise OutsideSubset('statement %s' % type(st).__name__)

    def run_for(self, st, s):
        if st.orelse:
            raise OutsideSubset('for/else')
        it = st.iter
        if not (isinstance(it, ast.Call) and isinstance(it.func, ast.Name) and it.func.id == 'range' and isinstance(st.target, ast.Name)):
            raise OutsideSubset('for over something else than range()')
        args = []
        for a in it.args:
            (s, v), = self.ev(a, s)
            args.append(v)
        if len(args) == 1:
            start, stop, step = z3.IntVal(0), args[0], z3.IntVal(1)
        elif len(args) == 2:
            start, stop, step = args[0], args[1], z3.IntVal(1)
        else:
            start, stop, step = args
        ordinal = self.loop_ordinal
        self.loop_ordinal += 1
        inv = self.invariants.get(ordinal)
        if inv is None:
            raise OutsideSubset('loop %d has no invariant in the sidecar' % ordinal)
        self.oblige('%s/loop%d/range-step-positive' % (self.name, ordinal), s, step > 0)
        var = st.target.id
        # (1) invariant holds initially
        s0 = s.fork()
        s0.env[var] = start
        self.oblige('%s/loop%d/invariant-initially' % (self.name, ordinal), s0, inv(self, s0, start, s, 'assert'))
        # (2) preserved: havoc everything the body assigns / every list it appends to
        assigned = sorted({n.id for n in ast.walk(st) if isinstance(n, ast.Name) and isinstance(n.ctx, ast.Store)} - {var})
        sh = self.havoc(s, assigned, 'loop%d' % ordinal)
        k = self.fresh_int('iter')
        sh.env[var] = k
        sh.pc += [k >= start, k < stop, (k - start) % step == 0]
        sh.pc.append(inv(self, sh, k, s, 'assume'))
        outs = self.run_block(st.body, sh.fork())
        res = []
        for s2, out in outs:
            if out is None:
                s3 = s2.fork()
                s3.env[var] = k + step
                self.oblige('%s/loop%d/invariant-preserved' % (self.name, ordinal), s2, inv(self, s3, k + step, s, 'assert'))
            else:
                res.append((s2, out))          # exits the loop by return / raise
        # (3) after the loop
        se = self.havoc(s, assigned, 'exit%d' % ordinal)
        ke = self.fresh_int('exit')
        se.pc += [ke >= start, ke >= stop, (ke - start) % step == 0, z3.Or(ke == start, ke - step < stop)]
        se.env[var] = ke
        se.pc.append(inv(self, se, ke, s, 'assume'))
        # python leaves the loop variable at its last value; the functions in scope never read it afterwards
        res.append((se, None))
        return res

    def havoc(self, s, names, tag):
        h = s.fork()
        for n in names:
            v = h.env.get(n)
            if isinstance(v, Ref) or v is None:
                continue
            if isinstance(v, z3.BoolRef):
                h.env[n] = self.fresh_bool('%s_%s' % (n, tag))
            elif isinstance(v, z3.ArithRef):
                h.env[n] = self.fresh_int('%s_%s' % (n, tag))
            else:
                h.env.pop(n, None)
        for i, l in list(h.heap.items()):
            h.heap[i] = ListV(self.fresh_int('count_%s' % tag), self.fresh_int('catlen_%s' % tag), self.fresh_arr('cat_%s' % tag, l.kind), l.kind)
            h.pc += [h.heap[i].count >= 0, h.heap[i].cat_len >= 0]
        return h

    # -------------------------------------------------------- expressions
    def truth(self, v):
        if isinstance(v, z3.BoolRef):
            return v
        if v is NONE:
            return z3.BoolVal(False)
        if isinstance(v, bool):
            return z3.BoolVal(v)
        raise OutsideSubset('truth value of %r' % (v,))

    def ev(self, node, s):
        """list of (state, value-or-ExcV)"""
        if isinstance(node, ast.Constant):
            v = node.value
            if v is None:
                return [(s, NONE)]
            if isinstance(v, bool):
                return [(s, z3.BoolVal(v))]
            if isinstance(v, int):
                return [(s, z3.IntVal(v))]
            raise OutsideSubset('constant %r' % (v,))
        if isinstance(node, ast.Name):
            if node.id not in s.env:
                raise OutsideSubset('unknown name %s' % node.id)
            return [(s, s.env[node.id])]
        if isinstance(node, ast.List):
            if node.elts:
                raise OutsideSubset('non-empty list display')
            i = len(s.heap) + 1000 * (self.counter + 1)
            self.counter += 1
            s.heap[i] = ListV(z3.IntVal(0), z3.IntVal(0), None, None)
            return [(s, Ref(i))]
        if isinstance(node, ast.BinOp) and isinstance(node.op, (ast.Add, ast.Sub)):
            out = []
            for s1, a in self.ev(node.left, s):
                for s2, b in self.ev(node.right, s1):
                    out.append((s2, a + b if isinstance(node.op, ast.Add) else a - b))
            return out
        if isinstance(node, ast.UnaryOp) and isinstance(node.op, ast.Not):
            return [(s2, z3.Not(self.truth(v))) for s2, v in self.ev(node.operand, s)]
        if isinstance(node, ast.Compare) and len(node.ops) == 1:
            (s1, a), = self.ev(node.left, s)
            (s2, b), = self.ev(node.comparators[0], s1)
            op = node.ops[0]
            if isinstance(op, (ast.Is, ast.IsNot)):
                r = (a is NONE) == (b is NONE) if (a is NONE or b is NONE) else None
                if r is None:
                    raise OutsideSubset('identity comparison of non-None values')
                return [(s2, z3.BoolVal(r if isinstance(op, ast.Is) else not r))]
            f = {ast.Lt: lambda: a < b, ast.LtE: lambda: a <= b, ast.Gt: lambda: a > b, ast.GtE: lambda: a >= b,
                 ast.Eq: lambda: a == b, ast.NotEq: lambda: a != b}.get(type(op))
            if f is None:
                raise OutsideSubset('comparison %s' % type(op).__name__)
            return [(s2, f())]
        if isinstance(node, ast.Subscript):
            # x.shape[0]
            if (isinstance(node.value, ast.Attribute) and node.value.attr == 'shape' and isinstance(node.slice, ast.Constant) and node.slice.value == 0):
                (s1, a), = self.ev(node.value.value, s)
                if not isinstance(a, ArrV):
                    raise OutsideSubset('.shape of a non-array')
                return [(s1, a.length)]
            (s1, a), = self.ev(node.value, s)
            if isinstance(node.slice, ast.Slice) and isinstance(a, ArrV):
                if node.slice.step is not None:
                    raise OutsideSubset('slice step')
                (s1, lo), = self.ev(node.slice.lower, s1) if node.slice.lower is not None else [(s1, z3.IntVal(0))]
                (s1, hi), = self.ev(node.slice.upper, s1) if node.slice.upper is not None else [(s1, a.length)]
                return [(s1, self.slice_contract(s1, a, lo, hi))]
            raise OutsideSubset('subscript')
        if isinstance(node, ast.Attribute):
            (s1, a), = self.ev(node.value, s)
            if isinstance(a, ExcV) and a.payload is not None and node.attr in a.payload:
                return [(s1, a.payload[node.attr])]
            raise OutsideSubset('attribute .%s' % node.attr)
        if isinstance(node, ast.Call):
            return self.ev_call(node, s)
        raise OutsideSubset('expression %s' % type(node).__name__)

    def slice_contract(self, s, a, lo, hi):
        """python slicing of an array with 0 <= lo (builtin contract):
        length = max(0, min(hi, n) - min(lo, n)); element i is a[lo + i]."""
        self.oblige('%s/slice/lower-bound-non-negative' % self.name, s, lo >= 0)
        n = a.length
        clo = z3.If(lo < n, lo, n)
        chi = z3.If(hi < n, hi, n)
        ln = z3.If(chi - clo > 0, chi - clo, z3.IntVal(0))
        at = self.fresh_arr('slice', a.kind)
        i = z3.Int('i!slice')
        s.pc.append(z3.ForAll([i], z3.Implies(z3.And(i >= 0, i < ln), at[i] == a.at[clo + i])))
        return ArrV(ln, at, a.kind)

    def ev_call(self, node, s):
        f = node.func
        dropped_kw = [k for k in node.keywords if k.arg is None]
        if dropped_kw and 'forwarded **kwargs' not in self.dropped:
            self.dropped.append('forwarded **kwargs')
        if isinstance(f, ast.Attribute):
            key = f.attr if isinstance(f.value, ast.Name) and f.value.id == 'self' else None
            dotted = '%s.%s' % (f.value.id, f.attr) if isinstance(f.value, ast.Name) else None
            if isinstance(f.value, ast.Name) and f.attr == 'append' and isinstance(s.env.get(f.value.id), Ref):
                out = []
                for s1, v in self.ev(node.args[0], s):
                    if isinstance(v, ExcV):
                        out.append((s1, v))
                        continue
                    self.append_contract(s1, s1.env[f.value.id], v)
                    out.append((s1, NONE))
                return out
            c = self.contracts.get('self.' + key if key else dotted)
            if c is None:
                raise OutsideSubset('call to %s has no contract' % (dotted or ast.dump(f)))
        elif isinstance(f, ast.Name):
            c = self.contracts.get(f.id)
            if c is None:
                raise OutsideSubset('call to %s has no contract' % f.id)
        else:
            raise OutsideSubset('call expression')
        # evaluate positional args (pure in the subset)
        argsets = [(s, [])]
        for a in node.args:
            nxt = []
            for s1, vals in argsets:
                for s2, v in self.ev(a, s1):
                    if isinstance(v, ExcV):
                        raise OutsideSubset('raising argument expression')
                    nxt.append((s2, vals + [v]))
            argsets = nxt
        kw = {}
        for k in node.keywords:
            if k.arg is not None:
                kw[k.arg] = k.value
        out = []
        for s1, vals in argsets:
            out.extend(c(self, s1, vals, kw))
        return out

    def append_contract(self, s, ref, v):
        """builtin contract of list.append on a list of array batches: the
        count grows by one and the ghost concatenation is extended by v."""
        l = s.heap[ref.i]
        if not isinstance(v, ArrV):
            raise OutsideSubset('append of a non-array value')
        kind = l.kind or v.kind
        cat = l.cat_at if l.cat_at is not None else self.fresh_arr('cat0', kind)
        new = self.fresh_arr('cat', kind)
        i = z3.Int('i!app')
        s.pc.append(z3.ForAll([i], z3.Implies(z3.And(i >= 0, i < l.cat_len), new[i] == cat[i])))
        s.pc.append(z3.ForAll([i], z3.Implies(z3.And(i >= l.cat_len, i < l.cat_len + v.length), new[i] == v.at[i - l.cat_len])))
        s.pc.append(v.length >= 0)
        s.heap[ref.i] = ListV(l.count + 1, l.cat_len + v.length, new, kind)

    # ----------------------------------------------------------- driver
    def run(self, params, pre, post):
        """params: name -> symbolic value; pre: list of z3 Bool; post(gen,
        state, outcome) is called for every terminating path and states the
        obligations of that outcome."""
        s = State(params, {}, list(pre))
        self.paths = 0
        self.vacuous_paths = 0
        for st, out in self.run_block(self.body, s):
            self.paths += 1
            # vacuity: the assumptions collected along the path must not be contradictory
            from .util import forked, TIMEOUT
            pc = list(st.pc)

            def job():
                sv = z3.Solver()
                for h in pc:
                    sv.add(h)
                return str(sv.check())
            r = forked(job, 6.0)
            if r == 'unsat':
                self.vacuous_paths += 1
                continue
            post(self, st, out if out is not None else ('return', NONE))
        return self.vcs


def discharge(vcs, timeout_ms=20000):
    """z3 (then cvc5) on every VC; returns records like vp.discharge."""
    from . import discharge as D
    out = []
    for name, hyps, goal in vcs:
        parts = _split(goal)
        for k, g in enumerate(parts):
            t0 = time.time()
            r = D.prove(g, hyps, z3_timeout_ms=timeout_ms)
            r['name'] = name if len(parts) == 1 else '%s#%d' % (name, k)
            r['time_s'] = time.time() - t0
            out.append(r)
    return out


_SK = [0]


def _split(goal):
    """conjuncts proved separately; a universally quantified goal is proved
    for a fresh constant (skolemisation of the negated goal - sound)."""
    if z3.is_and(goal):
        r = []
        for c in goal.children():
            r.extend(_split(c))
        return r
    if z3.is_quantifier(goal) and goal.is_forall():
        vs = []
        for j in range(goal.num_vars()):
            _SK[0] += 1
            vs.append(z3.Const('sk!%d' % _SK[0], goal.var_sort(j)))
        body = z3.substitute_vars(goal.body(), *reversed(vs))
        return _split(body) if z3.is_and(body) else [body]
    if z3.is_implies(goal) and z3.is_and(goal.arg(1)):
        return [z3.Implies(goal.arg(0), c) for c in _split(goal.arg(1))]
    return [goal]
