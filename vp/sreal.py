"""E2 `symnp` leaves: symbolic reals / booleans over z3 terms, the path oracle
(forking by re-execution) and integer concretisation.

The real menpo functions are executed by CPython on numpy ``object`` arrays
whose elements are ``SReal``.  Every Python-level branch on a symbolic value
goes through ``SBool.__bool__`` which asks the engine; the engine re-executes
the whole contract once per feasible decision sequence.
"""
from fractions import Fraction
import numbers
import os

import numpy as np
import z3


class EngineGap(Exception):
    """The shim cannot model an operation (never a verdict)."""


class Infeasible(Exception):
    """The current path became infeasible (dropped silently)."""


class PathLimit(Exception):
    pass


def _is_num(x):
    return isinstance(x, (numbers.Real, np.floating, np.integer, np.bool_)) and not isinstance(x, SReal)


class Q(Fraction):
    """exact rational constant that also absorbs python floats exactly, so
    that concrete arithmetic inside a symbolic run is never rounded (a rounded
    constant next to exact symbolic arithmetic would make T(T^-1(x)) differ
    from x by an ulp and look like a violation)."""
    __slots__ = ()

    @staticmethod
    def _c(o):
        if isinstance(o, Fraction):
            return o
        if isinstance(o, (bool, np.bool_)):
            return Fraction(int(o))
        if isinstance(o, (int, np.integer)):
            return Fraction(int(o))
        if isinstance(o, (float, np.floating)):
            f = float(o)
            if f != f or f in (float('inf'), float('-inf')):
                return None
            return Fraction(f)
        return None

    @staticmethod
    def _w(fr):
        return Q(fr)

    def __index__(self):
        if self.denominator != 1:
            raise TypeError('non-integral rational used as an index')
        return self.numerator

    def __repr__(self):
        return str(self.numerator) if self.denominator == 1 else '%d/%d' % (self.numerator, self.denominator)
    __str__ = __repr__

    def __format__(self, spec):
        return format(float(self) if self.denominator != 1 else self.numerator, spec)

    def _op(self, o, f, swap=False):
        c = Q._c(o)
        if c is None:
            if isinstance(o, (float, np.floating)):      # inf / nan: float semantics
                a, b = (float(o), float(self)) if swap else (float(self), float(o))
                with np.errstate(all='ignore'):
                    return float(f(np.float64(a), np.float64(b)))
            return NotImplemented
        a, b = (c, Fraction(self)) if swap else (Fraction(self), c)
        return Q._w(f(a, b))

    def __add__(self, o): return self._op(o, lambda a, b: a + b)
    def __radd__(self, o): return self._op(o, lambda a, b: a + b, True)
    def __sub__(self, o): return self._op(o, lambda a, b: a - b)
    def __rsub__(self, o): return self._op(o, lambda a, b: a - b, True)
    def __mul__(self, o): return self._op(o, lambda a, b: a * b)
    def __rmul__(self, o): return self._op(o, lambda a, b: a * b, True)

    def __truediv__(self, o):
        c = Q._c(o)
        if c is None:
            return NotImplemented
        if c == 0:
            return float(self) / 0.0 if False else (float('inf') if self > 0 else float('-inf'))
        return Q._w(Fraction(self) / c)

    def __rtruediv__(self, o):
        c = Q._c(o)
        if c is None:
            return NotImplemented
        return Q._w(c / Fraction(self))

    def __neg__(self): return Q._w(-Fraction(self))
    def __abs__(self): return Q._w(abs(Fraction(self)))

    def __pow__(self, e):
        if isinstance(e, (int, np.integer)):
            return Q._w(Fraction(self) ** int(e))
        return float(self) ** e

    def __hash__(self):
        return Fraction.__hash__(self)

    def sqrt(self):
        import math
        return math.sqrt(self)


def to_fraction(x):
    if isinstance(x, (bool, np.bool_)):
        return Fraction(int(x))
    if isinstance(x, (int, np.integer)):
        return Fraction(int(x))
    if isinstance(x, Fraction):
        return x
    f = float(x)
    if f != f or f in (float('inf'), float('-inf')):
        raise EngineGap('non-finite constant %r meets a symbolic value' % (x,))
    return Fraction(f)


_CONST_CACHE = {}


def zconst(x):
    fr = to_fraction(x)
    t = _CONST_CACHE.get(fr)
    if t is None:
        t = z3.RealVal(str(fr)) if fr.denominator != 1 else z3.RealVal(fr.numerator)
        _CONST_CACHE[fr] = t
    return t


def zval(t):
    """Fraction of a z3 numeral term, else None."""
    if z3.is_rational_value(t):
        return Fraction(t.numerator_as_long(), t.denominator_as_long())
    if z3.is_int_value(t):
        return Fraction(t.as_long())
    return None


def lift(x):
    """z3 real term of a python number / SReal."""
    if isinstance(x, SReal):
        return x.t
    if isinstance(x, SBool):
        return z3.If(x.b, zconst(1), zconst(0))
    if _is_num(x):
        return zconst(x)
    if isinstance(x, np.ndarray) and x.ndim == 0:
        return lift(x.item())
    raise EngineGap('cannot lift %r (%s) to a symbolic real' % (x, type(x).__name__))


def mk(t):
    """SReal, or a python number when the term is a numeral (keeps arrays of
    constants concrete so that real numpy code paths keep working)."""
    v = zval(t)
    if v is not None:
        return int(v) if v.denominator == 1 else Q(v)
    return SReal(t)



class _ScalarAPI(object):
    """the bits of numpy's array-scalar interface that library code uses on
    the result of a reduction (np.std(x).ravel(), (s == 0).ravel(), ...)"""
    __slots__ = ()
    shape = ()
    ndim = 0
    size = 1

    def _arr(self):
        a = np.empty(1, dtype=object)
        a[0] = self
        from .proxy import sa
        return sa(a)

    def ravel(self, *a, **k): return self._arr()
    def flatten(self, *a, **k): return self._arr()
    def reshape(self, *shape, **k):
        if len(shape) == 1 and isinstance(shape[0], (tuple, list)):
            shape = tuple(shape[0])
        return self._arr().reshape(shape) if shape not in ((), ((),)) else self
    def item(self): return self
    def copy(self): return self
    def squeeze(self, *a, **k): return self
    def any(self, *a, **k): return self
    def all(self, *a, **k): return self
    def sum(self, *a, **k): return self
    def max(self, *a, **k): return self
    def min(self, *a, **k): return self
    def mean(self, *a, **k): return self


class SReal(_ScalarAPI):
    __slots__ = ('t',)

    def __init__(self, t):
        self.t = t

    # ------------------------------------------------------------- display
    def __repr__(self):
        s = str(self.t).replace('\n', ' ')
        return 'S<%s>' % (s if len(s) < 60 else s[:57] + '...')

    def __hash__(self):
        return self.t.hash()

    # ---------------------------------------------------------- arithmetic
    def _bin(self, o, op, swap=False):
        if isinstance(o, np.ndarray):
            return NotImplemented
        if isinstance(o, SBool):
            o = o.as_real()
        if not (isinstance(o, SReal) or _is_num(o) or isinstance(o, Fraction)):
            return NotImplemented
        a, b = (o, self) if swap else (self, o)
        return arith(op, a, b)

    def __add__(self, o): return self._bin(o, '+')
    def __radd__(self, o): return self._bin(o, '+', True)
    def __sub__(self, o): return self._bin(o, '-')
    def __rsub__(self, o): return self._bin(o, '-', True)
    def __mul__(self, o): return self._bin(o, '*')
    def __rmul__(self, o): return self._bin(o, '*', True)
    def __truediv__(self, o): return self._bin(o, '/')
    def __rtruediv__(self, o): return self._bin(o, '/', True)

    def __neg__(self):
        return arith('-', 0, self)

    def __pos__(self):
        return self

    def __abs__(self):
        return sabs(self)

    def __pow__(self, o):
        if isinstance(o, np.ndarray):
            return NotImplemented
        if isinstance(o, SReal):
            raise EngineGap('symbolic exponent')
        fr = to_fraction(o)
        if fr.denominator == 1:
            n = int(fr)
            if n == 0:
                return 1
            base = self if n > 0 else 1 / self
            r = base
            for _ in range(abs(n) - 1):
                r = r * base
            return r
        if fr == Fraction(1, 2):
            return self.sqrt()
        if fr == Fraction(-1, 2):
            return 1 / self.sqrt()
        raise EngineGap('fractional power %s' % fr)

    def __rpow__(self, o):
        raise EngineGap('symbolic exponent')

    def __floordiv__(self, o):
        return sfloor(self / o)

    def __rfloordiv__(self, o):
        return sfloor(o / self)

    def __mod__(self, o):
        return self - o * sfloor(self / o)

    # --------------------------------------------------------- comparisons
    def _cmp(self, o, op):
        if isinstance(o, np.ndarray):
            return NotImplemented
        if isinstance(o, SBool):
            o = o.as_real()
        if not (isinstance(o, SReal) or _is_num(o) or isinstance(o, Fraction)):
            return NotImplemented
        a, b = self.t, lift(o)
        return mkbool({'<': a < b, '<=': a <= b, '>': a > b, '>=': a >= b,
                       '==': a == b, '!=': a != b}[op])

    def __lt__(self, o): return self._cmp(o, '<')
    def __le__(self, o): return self._cmp(o, '<=')
    def __gt__(self, o): return self._cmp(o, '>')
    def __ge__(self, o): return self._cmp(o, '>=')
    def __eq__(self, o): return self._cmp(o, '==')
    def __ne__(self, o): return self._cmp(o, '!=')

    def __bool__(self):
        return bool(self != 0)

    # ------------------------------------------- numpy object-loop methods
    def sqrt(self): return ENG.fn_sqrt(self)
    def cos(self): return ENG.fn_trig('cos', self)
    def sin(self): return ENG.fn_trig('sin', self)
    def tan(self): return ENG.fn_trig('sin', self) / ENG.fn_trig('cos', self)
    def arccos(self): return ENG.fn_arccos(self)
    def log(self): return ENG.app('log', self)
    def exp(self): return ENG.app('exp', self)
    def conjugate(self): return self
    def deg2rad(self): return ENG.fn_deg2rad(self)
    def radians(self): return ENG.fn_deg2rad(self)
    def rad2deg(self): return ENG.fn_rad2deg(self)
    def degrees(self): return ENG.fn_rad2deg(self)
    def floor(self): return sfloor(self)
    def ceil(self): return sceil(self)
    def rint(self): return srint(self)
    def __floor__(self): return sfloor(self)
    def __ceil__(self): return sceil(self)
    def __round__(self, nd=None):
        if nd:
            raise EngineGap('round to digits')
        return srint(self)
    def __trunc__(self):
        return int(self)
    def isnan(self): return False
    def isfinite(self): return True
    def isinf(self): return False

    @property
    def real(self): return self
    @property
    def imag(self): return 0

    # ------------------------------------------------------ concretisation
    def __int__(self):
        return ENG.concretise_int(self)

    def __index__(self):
        return ENG.concretise_int(self, need_integral=True)

    def __float__(self):
        raise EngineGap('float() of a symbolic real (code escapes to a C/float routine that has no dependency contract)')

    def __complex__(self):
        raise EngineGap('complex() of a symbolic real')


numbers.Real.register(SReal)
for _n in ('ravel', 'flatten', 'reshape', 'item', 'copy', 'squeeze', '_arr'):
    setattr(Q, _n, getattr(_ScalarAPI, _n))
Q.shape, Q.ndim, Q.size = (), 0, 1


def _q_cmp(name):
    base = getattr(Fraction, name)

    def f(self, o):
        if isinstance(o, (SReal, SBool, np.ndarray)):
            return NotImplemented
        r = base(self, o)
        return r if r is NotImplemented else np.bool_(r)
    return f


for _n in ('__eq__', '__ne__', '__lt__', '__le__', '__gt__', '__ge__'):
    setattr(Q, _n, _q_cmp(_n))


def arith(op, a, b):
    """a op b on python numbers / SReal with light constant simplification."""
    an, bn = not isinstance(a, SReal), not isinstance(b, SReal)
    if an and bn:
        fa, fb = to_fraction(a), to_fraction(b)
        r = {'+': lambda: fa + fb, '-': lambda: fa - fb, '*': lambda: fa * fb,
             '/': lambda: fa / fb}[op]()
        return int(r) if r.denominator == 1 else Q(r)
    if op == '+':
        if an and a == 0: return b
        if bn and b == 0: return a
        return mk(lift(a) + lift(b))
    if op == '-':
        if bn and b == 0: return a
        if an and a == 0: return mk(-lift(b))
        if not an and not bn and a.t.eq(b.t): return 0
        return mk(lift(a) - lift(b))
    if op == '*':
        if an:
            if a == 0: return 0
            if a == 1: return b
        if bn:
            if b == 0: return 0
            if b == 1: return a
        return mk(lift(a) * lift(b))
    if op == '/':
        if bn:
            if b == 1: return a
            if b == 0:
                raise EngineGap('division of a symbolic value by literal zero')
            return mk(lift(a) * zconst(1 / to_fraction(b)))
        if an and a == 0:
            ENG.note_denominator(b)
            return 0
        ENG.note_denominator(b)
        return mk(lift(a) / lift(b))
    raise EngineGap(op)


def sabs(x):
    if not isinstance(x, SReal):
        return abs(x)
    r = mk(z3.If(x.t >= 0, x.t, -x.t))
    if isinstance(r, SReal):
        # |x| is the non-negative square root of x^2: same normal-form rule
        from . import poly
        rid = r.t.get_id()
        if rid not in poly.SQRT_DEFS:
            try:
                poly.ratfun(r.t)
                n, d = poly.ratfun(x.t)
                poly.SQRT_DEFS[rid] = (poly.p_mul(n, n), poly.p_mul(d, d))
            except Exception:
                pass
    return r


def sfloor(x):
    if not isinstance(x, SReal):
        fr = to_fraction(x)
        return fr.numerator // fr.denominator
    return mk(z3.ToReal(z3.ToInt(x.t)))


def sceil(x):
    if not isinstance(x, SReal):
        fr = to_fraction(x)
        return -((-fr.numerator) // fr.denominator)
    return mk(-z3.ToReal(z3.ToInt(-x.t)))


def srint(x):
    """numpy's rint/round: round half to even."""
    if not isinstance(x, SReal):
        return int(round(to_fraction(x)))
    if _int_valued(x.t):
        return x
    fl = z3.ToInt(x.t)
    frac = x.t - z3.ToReal(fl)
    half = zconst(Fraction(1, 2))
    r = z3.If(frac < half, fl, z3.If(frac > half, fl + 1, z3.If(fl % 2 == 0, fl, fl + 1)))
    return mk(z3.ToReal(r))


def smax(a, b):
    if not isinstance(a, SReal) and not isinstance(b, SReal):
        return max(a, b)
    ta, tb = lift(a), lift(b)
    return mk(z3.If(ta >= tb, ta, tb))


def smin(a, b):
    if not isinstance(a, SReal) and not isinstance(b, SReal):
        return min(a, b)
    ta, tb = lift(a), lift(b)
    return mk(z3.If(ta <= tb, ta, tb))


# ------------------------------------------------------------------ booleans
def mkbool(b):
    if z3.is_true(b):
        return True
    if z3.is_false(b):
        return False
    return SBool(b)


def liftb(x):
    if isinstance(x, SBool):
        return x.b
    if isinstance(x, (bool, np.bool_)):
        return z3.BoolVal(bool(x))
    if isinstance(x, SReal):
        return x.t != 0
    if _is_num(x):
        return z3.BoolVal(bool(x))
    raise EngineGap('cannot lift %r to a symbolic bool' % (x,))


class SBool(_ScalarAPI):
    __slots__ = ('b',)

    def __init__(self, b):
        self.b = b

    def __repr__(self):
        s = str(self.b).replace('\n', ' ')
        return 'SB<%s>' % (s if len(s) < 60 else s[:57] + '...')

    def __hash__(self):
        return self.b.hash()

    def __bool__(self):
        return ENG.decide(self.b)

    def as_real(self):
        return mk(z3.If(self.b, zconst(1), zconst(0)))

    def __and__(self, o):
        if isinstance(o, np.ndarray): return NotImplemented
        return mkbool(z3.simplify(z3.And(self.b, liftb(o))))
    __rand__ = __and__

    def __or__(self, o):
        if isinstance(o, np.ndarray): return NotImplemented
        return mkbool(z3.simplify(z3.Or(self.b, liftb(o))))
    __ror__ = __or__

    def __invert__(self):
        return mkbool(z3.Not(self.b))

    def __eq__(self, o):
        if isinstance(o, np.ndarray): return NotImplemented
        return mkbool(self.b == liftb(o))

    def __ne__(self, o):
        if isinstance(o, np.ndarray): return NotImplemented
        return mkbool(self.b != liftb(o))

    def logical_and(self, o): return self & o
    def logical_or(self, o): return self | o
    def logical_not(self): return ~self

    # arithmetic on booleans (np.sum of masks etc.)
    def __add__(self, o): return self.as_real() + o
    __radd__ = __add__
    def __mul__(self, o): return self.as_real() * o
    __rmul__ = __mul__
    def __int__(self): return int(bool(self))
    def __index__(self): return int(bool(self))


def sand(*xs):
    bs = [liftb(x) for x in xs]
    return mkbool(z3.simplify(z3.And(*bs))) if bs else True


def sor(*xs):
    bs = [liftb(x) for x in xs]
    return mkbool(z3.simplify(z3.Or(*bs))) if bs else False


def snot(x):
    return mkbool(z3.simplify(z3.Not(liftb(x))))


def is_sym(x):
    """Does x (scalar / array / nested sequence) contain symbolic leaves?"""
    if isinstance(x, (SReal, SBool)):
        return True
    if isinstance(x, np.ndarray):
        if x.dtype != object:
            return False
        for e in x.flat:
            if isinstance(e, (SReal, SBool)):
                return True
        return False
    if isinstance(x, (list, tuple)):
        return any(is_sym(e) for e in x)
    return False


def checked(solver, seconds):
    """solver.check() with a hard wall-clock limit (z3's own timeout is not
    always honoured inside nlsat): a timer thread interrupts the context."""
    import threading
    t = threading.Timer(seconds + 0.5, solver.ctx.interrupt)
    t.daemon = True
    t.start()
    try:
        r = solver.check()
    except z3.Z3Exception:
        r = z3.unknown
    finally:
        t.cancel()
    return r


# -------------------------------------------------------------------- engine
class Engine(object):
    """Per-process singleton holding the current path."""

    def __init__(self):
        self.active = False
        self.reset_all()

    def reset_all(self):
        self.hyps = []            # z3 bools: requires + dependency axioms
        self.hyp_notes = []       # readable provenance of each hypothesis
        self.hyp_bulk = []
        self.path = []            # (z3 bool taken as true, kind)
        self.prefix = []          # decisions to replay: bool or ('int', v)
        self.pending = []         # alternative prefixes discovered on this run
        self.decisions = []       # outcomes on this run (same encoding as prefix)
        self.counter = {}
        self.apps = {}            # (fname, canonical args) -> z3 term
        self.funcs = {}
        self.denominators = {}
        self.used_stubs = set()
        self.solver_time = 0.0
        self.fork_timeout_ms = 2000
        self.use_abstraction = True
        self.atom_values = {}
        self._abs_cache = {}
        self.int_cap = 12
        self.max_decisions = 400
        self._solver = None

    # .................................................................. names
    def fresh(self, base):
        n = self.counter.get(base, 0)
        self.counter[base] = n + 1
        return z3.Real('%s#%d' % (base, n) if n else base)

    def real(self, name):
        return SReal(z3.Real(name))

    # ............................................................. hypotheses
    def assume(self, cond, note='', bulk=False):
        """bulk=True: the hypothesis (typically the defining equations of a
        dependency contract) is used when discharging obligations but left out
        of the fork-feasibility context (sound: feasibility is only
        over-approximated)."""
        if cond is True or (isinstance(cond, (bool, np.bool_)) and cond):
            return
        if cond is False or (isinstance(cond, (bool, np.bool_)) and not cond):
            raise Infeasible('assumption is literally false: %s' % note)
        b = liftb(cond)
        self.hyps.append(b)
        self.hyp_notes.append(note)
        self.hyp_bulk.append(bulk)
        if self._solver is not None and not bulk:
            self._solver.add(b)

    def context(self):
        return list(self.hyps) + [c for c, _ in self.path]

    # ................................................................ solver
    def solver(self):
        if self._solver is None:
            s = z3.Solver()
            s.set('timeout', self.fork_timeout_ms)
            for h, bulk in zip(self.hyps, self.hyp_bulk):
                if not bulk:
                    s.add(h)
            for c, _ in self.path:
                s.add(c)
            self._solver = s
        return self._solver

    def _feasible(self, cond):
        """sat / unsat / unknown of (context and cond).  Sound
        over-approximation: unsat is only reported when a *subset* of the
        context is unsat together with cond (tried in growing relevance
        order), anything else counts as feasible."""
        import time
        from .util import forked, TIMEOUT
        t0 = time.time()
        ctxs = [h for h, bulk in zip(self.hyps, self.hyp_bulk) if not bulk] + [c for c, _ in self.path]
        # stage A: sign abstraction over irreducible factors (fast, decides
        # orientation-type geometric predicates)
        if self.use_abstraction:
            ac = _abstract(cond)
            if ac is not None:
                ahs = []
                for h in ctxs:
                    i = h.get_id()
                    a = self._abs_cache.get(i)
                    if a is None:
                        a = (h, _abstract(h))
                        self._abs_cache[i] = a
                    if a[1] is not None:
                        ahs.append(a[1])

                def ajob():
                    s = z3.Solver()
                    for h in ahs:
                        s.add(h)
                    s.add(ac)
                    return str(s.check())
                r = forked(ajob, 2.0)
                if os.environ.get('VERIF_TRACE_FORK'):
                    print('  feas stage A hyps=%d -> %s %.2fs %s' % (len(ahs), r if r is not TIMEOUT else 'TIMEOUT', time.time() - t0, str(ac)[:100].replace('\n', ' ')), flush=True)
                if r == 'unsat':
                    self.solver_time += time.time() - t0
                    return z3.unsat
        stages = []
        if len(ctxs) > 12:
            seen = _atoms(cond)
            chosen = []
            rest = list(ctxs)
            for hop in range(2):
                new_atoms = set()
                keep = []
                for h in rest:
                    a = _atoms(h)
                    if a & seen:
                        chosen.append(h)
                        new_atoms |= a
                    else:
                        keep.append(h)
                rest = keep
                seen |= new_atoms
                if chosen and (not stages or len(chosen) > len(stages[-1])):
                    stages.append(list(chosen))
            if not stages or len(stages[-1]) < len(ctxs):
                stages.append(ctxs)
        else:
            stages.append(ctxs)
        res = z3.unknown
        for k, hs in enumerate(stages):
            last = k == len(stages) - 1

            def job():
                s = z3.Solver()
                for h in hs:
                    s.add(h)
                s.add(cond)
                return str(s.check())
            r = forked(job, (self.fork_timeout_ms / 1000.0) if last else min(1.0, self.fork_timeout_ms / 1000.0))
            if os.environ.get('VERIF_TRACE_FORK'):
                print('  feas stage %d/%d hyps=%d -> %s %.2fs  %s' % (k, len(stages), len(hs), r if r is not TIMEOUT else 'TIMEOUT', time.time() - t0, str(cond)[:80].replace('\n', ' ')), flush=True)
            if r == 'unsat':
                res = z3.unsat
                break
            if last:
                res = {'sat': z3.sat}.get(r, z3.unknown)
        self.solver_time += time.time() - t0
        return res

    def _take(self, cond, kind, outcome):
        self.path.append((cond, kind))
        self.decisions.append(outcome)
        if self._solver is not None:
            self._solver.add(cond)

    def decide(self, b):
        b = z3.simplify(b)
        if z3.is_true(b):
            return True
        if z3.is_false(b):
            return False
        cv = _concrete_cmp(b)
        if cv is not None:
            return cv
        b = _polynomialise(b)
        if z3.is_true(b):
            return True
        if z3.is_false(b):
            return False
        idx = len(self.decisions)
        if idx >= self.max_decisions:
            raise PathLimit('more than %d decisions on one path' % self.max_decisions)
        nb = z3.Not(b)
        if idx < len(self.prefix):
            out = self.prefix[idx]
            if not isinstance(out, bool):
                raise EngineGap('non-deterministic re-execution (decision kind changed)')
            self._take(b if out else nb, 'branch', out)
            return out
        # the context is satisfiable (path invariant), so if one side is
        # unsat the other one is forced and need not be checked
        rt = self._feasible(b)
        rf = self._feasible(nb) if rt != z3.unsat else z3.sat
        can_t = rt != z3.unsat
        can_f = rf != z3.unsat
        if can_t and can_f:
            self.pending.append(list(self.decisions) + [False])
            self._take(b, 'branch', True)
            return True
        if can_t:
            self._take(b, 'forced', True)
            return True
        if can_f:
            self._take(nb, 'forced', False)
            return False
        raise Infeasible('path condition unsatisfiable')

    def concretise_int(self, x, need_integral=False):
        """Fork over the feasible integer values of trunc(x) (int()) or x
        itself (__index__)."""
        t = z3.simplify(x.t)
        v = zval(t)
        if v is not None:
            return int(v)
        v = self._value_under_path(t)
        if v is not None and v.denominator == 1:
            return int(v)
        # int() truncates towards zero
        ti = z3.ToInt(t)
        tr = z3.If(t >= 0, ti, -z3.ToInt(-t))
        k = z3.Int('k!conc')
        idx = len(self.decisions)
        if idx < len(self.prefix):
            out = self.prefix[idx]
            if not (isinstance(out, tuple) and out[0] == 'int'):
                raise EngineGap('non-deterministic re-execution (expected int decision)')
            self._take(tr == out[1], 'int', out)
            self._learn_atom_value(t, out[1])
            return out[1]
        from .util import forked, TIMEOUT
        s = self.solver()
        cap = self.int_cap

        def job():
            vals = []
            s.add(k == tr)
            while True:
                r = s.check()
                if r == z3.unknown:
                    return 'unknown'
                if r == z3.unsat:
                    return vals
                v = s.model().eval(k, model_completion=True).as_long()
                vals.append(v)
                if len(vals) > cap:
                    return 'toomany'
                s.add(k != v)
        vals = forked(job, 30.0)
        if vals is TIMEOUT or vals == 'unknown':
            raise EngineGap('solver unknown while enumerating integer values of %s' % x)
        if vals == 'toomany':
            raise EngineGap('integer concretisation of %r exceeds cap %d (add a bound to the contract)' % (x, self.int_cap))
        if not vals:
            raise Infeasible('no integer value')
        vals.sort()
        for v in vals[1:]:
            self.pending.append(list(self.decisions) + [('int', v)])
        self._take(tr == vals[0], 'int', ('int', vals[0]))
        self._learn_atom_value(t, vals[0])
        return vals[0]

    def _learn_atom_value(self, t, v):
        """t == v was just fixed on this path and t is integer valued: if t is
        c*atom + k for a single atom, remember the atom's value (saves the
        solver calls for every later coordinate that differs by a constant)."""
        from . import poly
        try:
            n, d = poly.ratfun(t)
        except Exception:
            return
        if d != poly.ONE or not _int_valued(t):
            return
        atoms = poly.atoms_of(n)
        if len(atoms) != 1:
            return
        a = next(iter(atoms))
        c = n.get(((a, 1),))
        k = n.get((), Fraction(0))
        if c is None or len(n) > 2 or (len(n) == 2 and () not in n):
            return
        self.atom_values[a] = (Fraction(v) - k) / c

    def _value_under_path(self, t):
        from . import poly
        if not self.atom_values:
            return None
        try:
            n, d = poly.ratfun(t)
        except Exception:
            return None
        if d != poly.ONE:
            return None
        tot = Fraction(0)
        for m, c in n.items():
            val = c
            for a, e in m:
                if a not in self.atom_values:
                    return None
                val = val * self.atom_values[a] ** e
            tot += val
        return tot

    # .............................................. uninterpreted functions
    def func(self, name, arity, boolean=False):
        key = (name, arity, boolean)
        f = self.funcs.get(key)
        if f is None:
            f = z3.Function(name, *([z3.RealSort()] * arity + [z3.BoolSort() if boolean else z3.RealSort()]))
            self.funcs[key] = f
        return f

    def app(self, name, *args, boolean=False):
        """Application of an uninterpreted function, memoised on the
        polynomial normal form of the arguments (so syntactically different but
        polynomially equal arguments give the same term)."""
        from . import poly
        self.used_stubs.add(name)
        ts = [lift(a) for a in args]
        key = (name,) + tuple(poly.canon_key(t) for t in ts)
        t = self.apps.get(key)
        if t is None:
            t = self.func(name, len(ts), boolean)(*ts)
            self.apps[key] = t
        return SBool(t) if boolean else SReal(t)

    def note_denominator(self, d):
        if isinstance(d, SReal):
            self.denominators[d.t.get_id()] = d.t

    # .............................................. transcendental contracts
    def fn_sqrt(self, x):
        if isinstance(x, SReal):
            from . import poly
            cv = poly.const_value(x.t)
            if cv is not None:
                x = cv
        if not isinstance(x, SReal):
            import math
            fr = to_fraction(x)
            if fr < 0:
                return float('nan')
            rt = Fraction(math.isqrt(fr.numerator), math.isqrt(fr.denominator))
            if rt * rt == fr:
                return Q(rt)
            return Q(math.sqrt(fr))
        r = self.app('sqrt', x)
        from . import poly
        rid = r.t.get_id()
        if rid not in poly.SQRT_DEFS:
            poly.ratfun(r.t)                      # registers the atom
            poly.SQRT_DEFS[rid] = poly.ratfun(x.t)
            self.assume(mkbool(r.t >= 0), 'sqrt>=0')
            self.assume(mkbool(r.t * r.t == x.t), 'sqrt^2')
        return r

    def fn_trig(self, which, x):
        c = self.app('cos', x)
        s = self.app('sin', x)
        self.assume(mkbool(c.t * c.t + s.t * s.t == 1), 'cos^2+sin^2=1')
        return c if which == 'cos' else s

    PI = None

    def pi(self):
        if self.PI is None:
            self.PI = z3.Real('pi')
        self.assume(mkbool(z3.And(self.PI > zconst(Fraction(314159, 100000)), self.PI < zconst(Fraction(314160, 100000)))), 'pi bounds')
        return SReal(self.PI)

    def fn_deg2rad(self, x):
        return x * self.pi() / 180

    def fn_rad2deg(self, x):
        return x * 180 / self.pi()

    def fn_arccos(self, x):
        r = self.app('arccos', x)
        c = self.fn_trig('cos', r)
        s = self.fn_trig('sin', r)
        pi = self.pi()
        self.assume(mkbool(z3.And(r.t >= 0, r.t <= pi.t)), 'arccos range')
        self.assume(mkbool(c.t == lift(x)), 'cos(arccos x)=x')
        self.assume(mkbool(s.t >= 0), 'sin(arccos x)>=0')
        return r

    def fn_arctan2(self, y, x):
        r = self.app('arctan2', y, x)
        c = self.fn_trig('cos', r)
        s = self.fn_trig('sin', r)
        rad = self.fn_sqrt(x * x + y * y)
        pi = self.pi()
        self.assume(mkbool(z3.And(r.t > -pi.t, r.t <= pi.t)), 'arctan2 range')
        self.assume(mkbool(z3.And(rad.t * c.t == lift(x), rad.t * s.t == lift(y))), 'arctan2 polar')
        return r


def _has_div(t):
    stack, seen = [t], set()
    while stack:
        u = stack.pop()
        i = u.get_id()
        if i in seen:
            continue
        seen.add(i)
        if z3.is_app(u):
            if u.decl().kind() == z3.Z3_OP_DIV:
                return True
            if u.decl().kind() == z3.Z3_OP_UNINTERPRETED:
                continue
            stack.extend(u.children())
    return False


def _polynomialise(b):
    """recursive over the boolean structure; leaves are comparisons."""
    if z3.is_and(b) or z3.is_or(b):
        parts = [_polynomialise(c) for c in b.children()]
        return z3.simplify(z3.And(*parts) if z3.is_and(b) else z3.Or(*parts))
    if z3.is_not(b) and (z3.is_and(b.arg(0)) or z3.is_or(b.arg(0)) or z3.is_not(b.arg(0))):
        return z3.simplify(z3.Not(_polynomialise(b.arg(0))))
    cv = _concrete_cmp(b)
    if cv is not None:
        return z3.BoolVal(cv)
    return _polynomialise_leaf(b)


def _polynomialise_leaf(b):
    """N/D cmp 0  ->  N*D cmp 0  (denominators are non-zero wherever the real
    code computes finite values); keeps the solvers inside polynomial
    arithmetic, which nlsat decides far better than division."""
    from . import poly
    neg = False
    c = b
    while z3.is_not(c):
        c = c.arg(0)
        neg = not neg
    if not z3.is_app(c) or c.num_args() != 2 or c.arg(0).sort().kind() != z3.Z3_REAL_SORT:
        return b
    k = c.decl().kind()
    if k not in (z3.Z3_OP_LE, z3.Z3_OP_LT, z3.Z3_OP_GE, z3.Z3_OP_GT, z3.Z3_OP_EQ, z3.Z3_OP_DISTINCT):
        return b
    if not (_has_div(c.arg(0)) or _has_div(c.arg(1))):
        return b
    try:
        n, d = poly.ratfun(c.arg(0) - c.arg(1))
    except Exception:
        return b
    if len(n) * len(d) > 4000:
        return b
    if d != poly.ONE and len(n) < 400 and len(d) < 400:
        try:
            n, d = poly.cancel(n, d)
        except Exception:
            pass
    if k in (z3.Z3_OP_EQ, z3.Z3_OP_DISTINCT):
        t = poly.to_z3(n)
    else:
        t = poly.to_z3(poly.p_mul(n, d)) if d != poly.ONE else poly.to_z3(n)
    zero = zconst(0)
    r = {z3.Z3_OP_LE: lambda: t <= zero, z3.Z3_OP_LT: lambda: t < zero, z3.Z3_OP_GE: lambda: t >= zero,
         z3.Z3_OP_GT: lambda: t > zero, z3.Z3_OP_EQ: lambda: t == zero, z3.Z3_OP_DISTINCT: lambda: t != zero}[k]()
    return z3.Not(r) if neg else r


def _abstract(b):
    """sign abstraction of a boolean combination of polynomial comparisons
    over irreducible-factor variables; None where not applicable (dropping a
    hypothesis only over-approximates feasibility)."""
    from . import poly
    if z3.is_not(b):
        a = _abstract(b.arg(0))
        return None if a is None else z3.Not(a)
    if z3.is_and(b):
        parts = [x for x in (_abstract(c) for c in b.children()) if x is not None]
        return z3.And(*parts) if parts else None
    if z3.is_or(b):
        parts = [_abstract(c) for c in b.children()]
        if any(x is None for x in parts):
            return None
        return z3.Or(*parts)
    if not z3.is_app(b) or b.num_args() != 2 or b.arg(0).sort().kind() != z3.Z3_REAL_SORT:
        return None
    k = b.decl().kind()
    if k not in (z3.Z3_OP_LE, z3.Z3_OP_LT, z3.Z3_OP_GE, z3.Z3_OP_GT, z3.Z3_OP_EQ, z3.Z3_OP_DISTINCT):
        return None
    try:
        n, d = poly.ratfun(b.arg(0) - b.arg(1))
        if len(n) > 600 or len(d) > 600:
            return None
        if d != poly.ONE:
            n, d = poly.cancel(n, d)
        tn = poly.abstract_sign_term(n)
        t = tn if (d == poly.ONE or k in (z3.Z3_OP_EQ, z3.Z3_OP_DISTINCT)) else tn * poly.abstract_sign_term(d)
    except Exception:
        return None
    zero = zconst(0)
    return {z3.Z3_OP_LE: lambda: t <= zero, z3.Z3_OP_LT: lambda: t < zero, z3.Z3_OP_GE: lambda: t >= zero,
            z3.Z3_OP_GT: lambda: t > zero, z3.Z3_OP_EQ: lambda: t == zero, z3.Z3_OP_DISTINCT: lambda: t != zero}[k]()


_ATOM_CACHE = {}


def _atoms(t):
    """ids of the uninterpreted constants / applications occurring in t."""
    i = t.get_id()
    r = _ATOM_CACHE.get(i)
    if r is not None and r[0].eq(t):
        return r[1]
    out = set()
    stack = [t]
    seen = set()
    while stack:
        u = stack.pop()
        ui = u.get_id()
        if ui in seen:
            continue
        seen.add(ui)
        if z3.is_app(u):
            if u.decl().kind() == z3.Z3_OP_UNINTERPRETED:
                out.add(ui)
            stack.extend(u.children())
    _ATOM_CACHE[i] = (t, out)
    if len(_ATOM_CACHE) > 20000:
        _ATOM_CACHE.clear()
    return out


def _int_valued(t):
    """syntactically integer valued: to_real(to_int(.)), integer numerals,
    If / + / - / * of such."""
    if z3.is_int_value(t):
        return True
    if z3.is_rational_value(t):
        return t.denominator_as_long() == 1
    if not z3.is_app(t):
        return False
    k = t.decl().kind()
    if k == z3.Z3_OP_TO_REAL:
        return True if t.arg(0).sort().kind() == z3.Z3_INT_SORT else False
    if k in (z3.Z3_OP_ADD, z3.Z3_OP_SUB, z3.Z3_OP_MUL, z3.Z3_OP_UMINUS):
        return all(_int_valued(c) for c in t.children())
    if k == z3.Z3_OP_ITE:
        return _int_valued(t.arg(1)) and _int_valued(t.arg(2))
    return False


def _concrete_cmp(b):
    """Decide a comparison whose two sides differ by a constant rational
    function (exact normal form), e.g. barycentric coordinates of a vertex."""
    from . import poly
    neg = False
    while z3.is_not(b):
        b = b.arg(0)
        neg = not neg
    if not z3.is_app(b) or b.num_args() != 2:
        return None
    k = b.decl().kind()
    ops = {z3.Z3_OP_LE: lambda c: c <= 0, z3.Z3_OP_LT: lambda c: c < 0, z3.Z3_OP_GE: lambda c: c >= 0,
           z3.Z3_OP_GT: lambda c: c > 0, z3.Z3_OP_EQ: lambda c: c == 0, z3.Z3_OP_DISTINCT: lambda c: c != 0}
    if k not in ops or b.arg(0).sort().kind() != z3.Z3_REAL_SORT:
        return None
    try:
        c = poly.const_value(b.arg(0) - b.arg(1))
    except Exception:
        return None
    if c is None:
        return None
    r = ops[k](c)
    return (not r) if neg else r


ENG = Engine()
