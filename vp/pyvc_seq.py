"""E1 extension: objects with fields, immutable sequences of symbolic length
(thunks or ints), closures over local defs, list comprehensions, thunk calls
with a ghost 'invoked' set.  Used for menpo.base.LazyList (C19).

Additional subset: `self.attr` loads, `name.attr = expr` stores on objects
allocated in the function, `isinstance(x, T)` / `hasattr(x, '__index__')` /
`callable(x)` on parameters whose kind is fixed per VC run, `len()`,
`seq[int]`, `seq[slice-object]`, `seq + seq`, `list(seq)`, single-generator
list comprehensions over a sequence (optionally `zip` of two), `partial(f, x)`
with f a parameter, a local def or a callee, calls of stored thunks, nested
`def` of straight-line functions, `raise Cls(...)`.
"""
import ast

import z3

from .pyvc import Gen, State, OutsideSubset, ExcV, NONE

Thunk = z3.DeclareSort('Thunk')
Fn = z3.DeclareSort('Fn')
Val = z3.DeclareSort('Val')
evalT = z3.Function('evalT', Thunk, Val)            # value a thunk returns when invoked
appF = z3.Function('appF', Fn, Val, Val)            # f(v)
Delayed = z3.Function('Delayed', Fn, Thunk, Thunk)  # partial(delayed, f, t)
PartV = z3.Function('PartV', Fn, Val, Thunk)        # partial(f, v)
ConstT = z3.Function('ConstT', Val, Thunk)          # partial(identity, v)
SliceLen = z3.Function('pyslice_len', z3.IntSort(), z3.IntSort(), z3.IntSort())          # (slice id, len) -> len of l[sl]
SliceIdx = z3.Function('pyslice_idx', z3.IntSort(), z3.IntSort(), z3.IntSort(), z3.IntSort())   # (slice id, len, k) -> source index


class SeqV(object):
    def __init__(self, length, at, ident, kind='thunk'):
        self.length, self.at, self.ident, self.kind = length, at, ident, kind


class ObjV(object):
    def __init__(self, cls, fields):
        self.cls, self.fields = cls, dict(fields)


class ORef(object):
    def __init__(self, i):
        self.i = i


class FnV(object):
    def __init__(self, t):
        self.t = t


class Param(object):
    """opaque parameter with a fixed kind (decides isinstance / hasattr / callable)"""

    def __init__(self, kind, payload=None):
        self.kind, self.payload = kind, payload


class LocalDef(object):
    def __init__(self, node):
        self.node = node


class SliceObj(object):
    def __init__(self, ident):
        self.ident = ident


KIND_FACTS = {
    # kind: (is Iterable, is int, has __index__, callable, is LazyList)
    'int': (False, True, True, False, False),
    'index-like': (False, False, True, False, False),
    'slice': (False, False, False, False, False),
    'iterable-of-ints': (True, False, False, False, False),
    'callable': (False, False, False, True, False),
    'iterable-of-callables': (True, False, False, False, False),
    'callable-iterable': (True, False, False, True, False),
    'LazyList': (True, False, False, False, True),
    'plain-iterable': (True, False, False, False, False),
    'non-iterable': (False, False, False, False, False),
}


class SeqGen(Gen):
    def __init__(self, func, contracts, invariants=None, name=None, cls_name='LazyList'):
        Gen.__init__(self, func, contracts, invariants or {}, name)
        self.cls_name = cls_name
        self.next_ident = 100
        self.invoked0 = z3.Array('invoked0', Thunk, z3.BoolSort())
        self.axioms = []            # defining equations of closures / partial (global)

    def oblige(self, name, state, goal):
        self.vcs.append((name, list(self.axioms) + list(state.pc), goal))

    def new_ident(self):
        self.next_ident += 1
        return self.next_ident

    def fresh_seq(self, base, kind='thunk'):
        self.counter += 1
        sort = Thunk if kind == 'thunk' else (z3.IntSort() if kind == 'int' else Fn)
        n = z3.Int('%s_len!%d' % (base, self.counter))
        at = z3.Array('%s_at!%d' % (base, self.counter), z3.IntSort(), sort)
        return SeqV(n, at, self.new_ident(), kind)

    def alloc(self, s, obj):
        i = self.new_ident()
        s.heap[i] = obj
        return ORef(i)

    def fork_state(self, s):
        s2 = s.fork()
        s2.heap = {k: (ObjV(v.cls, v.fields) if isinstance(v, ObjV) else v) for k, v in s.heap.items()}
        return s2

    # ------------------------------------------------------------------
    def run_stmt(self, st, s):
        if isinstance(st, ast.FunctionDef):
            s.env[st.name] = LocalDef(st)
            return [(s, None)]
        if isinstance(st, ast.Assign) and len(st.targets) == 1 and isinstance(st.targets[0], ast.Attribute):
            tgt = st.targets[0]
            res = []
            for s2, v in self.ev(st.value, s):
                if isinstance(v, ExcV):
                    res.append((s2, ('raise', v)))
                    continue
                (s3, o), = self.ev(tgt.value, s2)
                if not isinstance(o, ORef):
                    raise OutsideSubset('attribute store on a non-object')
                ob = s3.heap[o.i]
                s3.heap[o.i] = ObjV(ob.cls, dict(ob.fields, **{tgt.attr: v}))
                res.append((s3, None))
            return res
        if isinstance(st, ast.If):
            # make sure forks do not share object tables
            res = []
            for s2, c in self.ev(st.test, s):
                if isinstance(c, ExcV):
                    res.append((s2, ('raise', c)))
                    continue
                c = self.truth(c)
                if z3.is_true(c):
                    res.extend(self.run_block(st.body, s2))
                elif z3.is_false(c):
                    res.extend(self.run_block(st.orelse, s2))
                else:
                    a = self.fork_state(s2); a.pc.append(c)
                    b = self.fork_state(s2); b.pc.append(z3.Not(c))
                    res.extend(self.run_block(st.body, a))
                    res.extend(self.run_block(st.orelse, b))
            return res
        return Gen.run_stmt(self, st, s)

    # ------------------------------------------------------------------
    def _ev_main(self, node, s):
        if isinstance(node, ast.Attribute):
            (s1, o), = self.ev(node.value, s)
            if isinstance(o, ORef):
                ob = s1.heap[o.i]
                if node.attr in ob.fields:
                    return [(s1, ob.fields[node.attr])]
                raise OutsideSubset('unknown field %s' % node.attr)
            if isinstance(o, Param) and o.kind == 'LazyList' and node.attr == '_callables':
                return [(s1, o.payload)]
            if isinstance(o, Param) and node.attr == 'Iterable':
                return [(s1, 'T:Iterable')]
            return [(s1, 'ATTR:%s.%s' % (getattr(node.value, 'id', '?'), node.attr))]
        if isinstance(node, ast.Name) and node.id not in s.env:
            if node.id in ('collections_abc', 'int', 'LazyList', 'partial', 'Copyable', 'chain', 'zip', 'list', 'len', 'isinstance', 'hasattr', 'callable',
                           'ValueError', 'type', 'cls', 'range'):
                return [(s, Param('builtin', node.id))]
            raise OutsideSubset('unknown name %s' % node.id)
        if isinstance(node, ast.Constant) and isinstance(node.value, str):
            return [(s, node.value)]
        if isinstance(node, ast.BoolOp):
            vals = []
            for v in node.values:
                (s, x), = self.ev(v, s)
                vals.append(self.truth(x))
            return [(s, z3.simplify(z3.And(*vals) if isinstance(node.op, ast.And) else z3.Or(*vals)))]
        if isinstance(node, ast.Compare) and len(node.ops) == 1 and isinstance(node.ops[0], (ast.Eq, ast.NotEq)):
            (s1, a), = self.ev(node.left, s)
            (s2, b), = self.ev(node.comparators[0], s1)
            r = a == b
            return [(s2, r if isinstance(node.ops[0], ast.Eq) else z3.Not(r))]
        if isinstance(node, ast.Subscript):
            (s1, a), = self.ev(node.value, s)
            if isinstance(a, SeqV):
                (s1, i), = self.ev(node.slice, s1)
                return self.seq_index(s1, a, i)
        if isinstance(node, ast.BinOp) and isinstance(node.op, (ast.Add, ast.Sub)):
            (s1, a), = self.ev(node.left, s)
            (s2, b), = self.ev(node.right, s1)
            ua = a.payload if isinstance(a, Param) and isinstance(a.payload, z3.ArithRef) else a
            ub = b.payload if isinstance(b, Param) and isinstance(b.payload, z3.ArithRef) else b
            if isinstance(ua, z3.ArithRef) and isinstance(ub, z3.ArithRef):
                return [(s2, ua + ub if isinstance(node.op, ast.Add) else ua - ub)]
            if isinstance(node.op, ast.Sub):
                raise OutsideSubset('subtraction of non-integers')
            if isinstance(a, SeqV) and isinstance(b, SeqV):
                return [(s2, self.seq_concat(s2, a, b))]
            if isinstance(a, ORef) or (isinstance(a, Param) and a.kind == 'LazyList'):
                c = self.contracts.get('LazyList.__add__')
                if c is None:
                    raise OutsideSubset('LazyList + ... without a contract')
                return c(self, s2, [a, b], {})
        if isinstance(node, ast.ListComp):
            return self.ev_listcomp(node, s)
        if isinstance(node, ast.Call):
            return self.ev_call2(node, s)
        return Gen.ev(self, node, s)

    def truth(self, v):
        if isinstance(v, bool):
            return z3.BoolVal(v)
        return Gen.truth(self, v)

    # ------------------------------------------------------- list contracts
    def seq_index(self, s, a, i):
        """builtin: l[i] for int i (negative wraps once), IndexError outside;
        l[slice] = pyslice (fresh list object)."""
        if isinstance(i, SliceObj):
            return self._slice(s, a, i)
        if False:
            r = self.fresh_seq('sliced', a.kind)
            k = z3.Int('k!sl')
            s.pc.append(r.length == SliceLen(z3.IntVal(i.ident), a.length))
            s.pc.append(r.length >= 0)
            s.pc.append(z3.ForAll([k], z3.Implies(z3.And(k >= 0, k < r.length), r.at[k] == a.at[SliceIdx(z3.IntVal(i.ident), a.length, k)])))
            return [(s, r)]
        if isinstance(i, Param) and i.kind in ('int', 'index-like', 'slice'):
            i = i.payload
        if isinstance(i, SliceObj):
            return self.seq_index(s, a, i) if False else self._slice(s, a, i)
        if not isinstance(i, z3.ArithRef):
            raise OutsideSubset('list index of kind %r' % (i,))
        j = z3.If(i < 0, i + a.length, i)
        ok = self.fork_state(s)
        ok.pc.append(z3.And(j >= 0, j < a.length))
        bad = self.fork_state(s)
        bad.pc.append(z3.Not(z3.And(j >= 0, j < a.length)))
        return [(ok, ('ELEM', a.at[j], a.kind)), (bad, ExcV('IndexError'))]

    def _slice(self, s, a, i):
        r = self.fresh_seq('sliced', a.kind)
        k = z3.Int('k!sl')
        s.pc.append(r.length == SliceLen(z3.IntVal(i.ident), a.length))
        s.pc.append(r.length >= 0)
        s.pc.append(z3.ForAll([k], z3.Implies(z3.And(k >= 0, k < r.length), r.at[k] == a.at[SliceIdx(z3.IntVal(i.ident), a.length, k)])))
        return [(s, r)]

    def seq_concat(self, s, a, b):
        r = self.fresh_seq('concat', a.kind)
        k = z3.Int('k!cc')
        s.pc.append(r.length == a.length + b.length)
        s.pc.append(z3.ForAll([k], z3.Implies(z3.And(k >= 0, k < a.length), r.at[k] == a.at[k])))
        s.pc.append(z3.ForAll([k], z3.Implies(z3.And(k >= a.length, k < a.length + b.length), r.at[k] == b.at[k - a.length])))
        return r

    def ev_listcomp(self, node, s):
        if len(node.generators) != 1 or node.generators[0].ifs:
            raise OutsideSubset('comprehension shape')
        g = node.generators[0]
        it = g.iter
        k = z3.Int('k!lc%d' % self.counter)
        self.counter += 1
        # the iterated sequences
        if isinstance(it, ast.Call) and isinstance(it.func, ast.Name) and it.func.id == 'zip' and len(it.args) == 2 and isinstance(g.target, ast.Tuple):
            (s, a), = self.ev(it.args[0], s)
            (s, b), = self.ev(it.args[1], s)
            a = a.payload if isinstance(a, Param) else a
            if not (isinstance(a, SeqV) and isinstance(b, SeqV)):
                raise OutsideSubset('zip of non-sequences')
            length = z3.If(a.length < b.length, a.length, b.length)
            binds = {g.target.elts[0].id: self.elem_value(a, k), g.target.elts[1].id: self.elem_value(b, k)}
        else:
            (s, a), = self.ev(it, s)
            a = a.payload if isinstance(a, Param) and isinstance(a.payload, SeqV) else a
            if not isinstance(a, SeqV) or not isinstance(g.target, ast.Name):
                raise OutsideSubset('comprehension over %r' % (a,))
            length = a.length
            binds = {g.target.id: self.elem_value(a, k)}
        body_state = self.fork_state(s)
        body_state.env.update(binds)
        body_state.pc.append(z3.And(k >= 0, k < length))
        base_len = len(body_state.pc)
        outs = self.ev(node.elt, body_state)
        normal = [(st, v) for st, v in outs if not isinstance(v, ExcV)]
        exc = [(st, v) for st, v in outs if isinstance(v, ExcV)]
        if len(normal) != 1:
            raise OutsideSubset('comprehension element with several normal outcomes')
        st_n, v = normal[0]
        extra = st_n.pc[base_len:]           # condition under which element k is produced normally
        cond_k = z3.And(*extra) if extra else z3.BoolVal(True)
        if isinstance(v, tuple) and v[0] == 'ELEM':
            term, kind = v[1], v[2]
        elif isinstance(v, z3.ExprRef) and v.sort() == Thunk:
            term, kind = v, 'thunk'
        else:
            raise OutsideSubset('comprehension element %r' % (v,))
        r = self.fresh_seq('comp', kind)
        res = []
        allok = self.fork_state(s)
        allok.pc.append(r.length == length)
        allok.pc.append(z3.ForAll([k], z3.Implies(z3.And(k >= 0, k < length), z3.And(cond_k, r.at[k] == term))))
        res.append((allok, r))
        if exc:
            w = self.fresh_int('badidx')
            bad = self.fork_state(s)
            bad.pc.append(z3.And(w >= 0, w < length, z3.Not(z3.substitute(cond_k, (k, w)))))
            res.append((bad, exc[0][1]))
        return res

    def elem_value(self, a, k):
        if a.kind == 'int':
            return a.at[k]
        if a.kind == 'val':
            return ('VAL', a.at[k])
        if a.kind == 'fn':
            return FnV(a.at[k])
        return ('ELEM', a.at[k], a.kind)

    # --------------------------------------------------------------- calls
    def ev_call2(self, node, s):
        f = node.func
        # thunk invocation:  <expr>()   (a zero-argument *method* call is handled below)
        is_method = isinstance(f, ast.Attribute) and f.attr in ('copy', 'map', 'repeat', 'init_from_iterable')
        if not node.args and not node.keywords and not isinstance(f, ast.Name) and not is_method:
            outs = []
            for s1, t in self.ev(f, s):
                if isinstance(t, ExcV):
                    outs.append((s1, t))
                elif isinstance(t, tuple) and t[0] == 'ELEM':
                    inv = s1.env['$invoked']
                    s1.env['$invoked'] = z3.Store(inv, t[1], True)
                    s1.env['$n_invocations'] = s1.env['$n_invocations'] + 1
                    outs.append((s1, ('VAL', evalT(t[1]))))
                else:
                    raise OutsideSubset('call of %r' % (t,))
            return outs
        name = f.id if isinstance(f, ast.Name) else (f.attr if isinstance(f, ast.Attribute) else None)
        if name == 'isinstance':
            (s1, x), = self.ev(node.args[0], s)
            (s1, T), = self.ev(node.args[1], s1)
            kind = x.kind if isinstance(x, Param) else ('LazyList' if isinstance(x, ORef) else None)
            if kind is None:
                raise OutsideSubset('isinstance on %r' % (x,))
            facts = KIND_FACTS[kind]
            if T == 'T:Iterable' or (isinstance(T, str) and T.endswith('.Iterable')):
                return [(s1, facts[0])]
            if isinstance(T, Param) and T.payload == 'int':
                return [(s1, facts[1])]
            if isinstance(T, Param) and T.payload == 'LazyList':
                return [(s1, facts[4])]
            raise OutsideSubset('isinstance against %r' % (T,))
        if name == 'hasattr':
            (s1, x), = self.ev(node.args[0], s)
            (s1, a), = self.ev(node.args[1], s1)
            if isinstance(x, Param) and a == '__index__':
                return [(s1, KIND_FACTS[x.kind][2])]
            raise OutsideSubset('hasattr')
        if name == 'callable':
            (s1, x), = self.ev(node.args[0], s)
            return [(s1, KIND_FACTS[x.kind][3])]
        if name == 'len':
            (s1, x), = self.ev(node.args[0], s)
            if isinstance(x, Param) and isinstance(x.payload, SeqV):
                x = x.payload
            if isinstance(x, SeqV):
                return [(s1, x.length)]
            if isinstance(x, ORef):
                return [(s1, s1.heap[x.i].fields['_callables'].length)]     # contract of LazyList.__len__ (proved separately)
            raise OutsideSubset('len of %r' % (x,))
        if name == 'list' and len(node.args) == 1:
            inner = node.args[0]
            # list(chain(*zip(*[l] * n)))  -- builtin composite
            if isinstance(inner, ast.Call) and isinstance(inner.func, ast.Name) and inner.func.id == 'chain':
                try:
                    z = inner.args[0].value          # Starred -> zip(...)
                    mul = z.args[0].value            # Starred -> [l] * n
                    lst, n_node = mul.left.elts[0], mul.right
                except Exception:
                    raise OutsideSubset('list(chain(...)) shape')
                (s1, l), = self.ev(lst, s)
                (s1, n), = self.ev(n_node, s1)
                r = self.fresh_seq('repeated', l.kind)
                k = z3.Int('k!rp')
                s1.pc.append(r.length == l.length * n)
                s1.pc.append(z3.ForAll([k], z3.Implies(z3.And(k >= 0, k < l.length * n), r.at[k] == l.at[k / n])))
                return [(s1, r)]
            (s1, l), = self.ev(inner, s)
            if not isinstance(l, SeqV):
                raise OutsideSubset('list() of %r' % (l,))
            r = SeqV(l.length, l.at, self.new_ident(), l.kind)       # fresh list object, same content
            return [(s1, r)]
        if name == 'partial':
            (s1, g), = self.ev(node.args[0], s)
            args = []
            for a in node.args[1:]:
                (s1, v), = self.ev(a, s1)
                args.append(v)
            return [(s1, self.partial_term(s1, g, args))]
        if name == 'LazyList' or (name == 'cls'):
            (s1, seq), = [(st, v) for st, v in self.ev(node.args[0], s) if not isinstance(v, ExcV)][:1] or [(None, None)]
            outs = []
            for st, v in self.ev(node.args[0], s):
                if isinstance(v, ExcV):
                    outs.append((st, v))
                else:
                    outs.append((st, self.alloc(st, ObjV('LazyList', {'_callables': v}))))
            return outs
        if name == 'ValueError':
            return [(s, ExcV('ValueError'))]
        if isinstance(f, ast.Attribute):
            (s1, recv), = self.ev(f.value, s)
            key = None
            if isinstance(recv, ORef) or (isinstance(recv, Param) and recv.kind == 'LazyList'):
                key = 'LazyList.' + f.attr
            elif isinstance(recv, Param) and recv.kind == 'builtin':
                key = '%s.%s' % (recv.payload, f.attr)
            c = self.contracts.get(key)
            if c is None:
                raise OutsideSubset('method call %s has no contract' % key)
            args = [recv]
            for a in node.args:
                (s1, v), = self.ev(a, s1)
                args.append(v)
            return c(self, s1, args, {})
        raise OutsideSubset('call of %s' % (name,))

    def partial_term(self, s, g, args):
        """functools.partial(g, *args) as a thunk term.  For a local def g the
        defining equation evalT(partial(g, f, t)) = <body of g> is obtained by
        executing g's body symbolically."""
        if isinstance(g, LocalDef):
            fd = g.node
            params = [a.arg for a in fd.args.args]
            body = [b for b in fd.body if not (isinstance(b, ast.Expr) and isinstance(getattr(b, 'value', None), ast.Constant))]
            if len(body) != 1 or not isinstance(body[0], ast.Return):
                raise OutsideSubset('local def %s is not a single return' % fd.name)
            if len(params) == 2 and len(args) == 2:
                f_, t_ = args
                ft = f_.t if isinstance(f_, FnV) else (f_.payload if isinstance(f_, Param) else None)
                tt = t_[1] if isinstance(t_, tuple) else None
                if ft is None or tt is None:
                    raise OutsideSubset('partial(local def) argument kinds')
                # symbolic execution of the body with generic parameters
                F0, T0 = z3.Const('f!gen', Fn), z3.Const('t!gen', Thunk)
                st = State({params[0]: FnV(F0), params[1]: ('ELEM', T0, 'thunk'), '$invoked': self.invoked0, '$n_invocations': z3.IntVal(0)}, {}, [])
                (st2, res), = self.ev(body[0].value, st)
                if not (isinstance(res, tuple) and res[0] == 'VAL'):
                    raise OutsideSubset('local def result')
                self.axioms.append(z3.ForAll([F0, T0], evalT(Delayed(F0, T0)) == res[1]))
                return Delayed(ft, tt)
            if len(params) == 1 and len(args) == 1:
                (st2, res), = self.ev(body[0].value, State({params[0]: ('VAL', z3.Const('v!gen', Val))}, {}, []))
                if not (isinstance(res, tuple) and res[0] == 'VAL' and res[1].eq(z3.Const('v!gen', Val))):
                    raise OutsideSubset('local def is not the identity')
                v0 = z3.Const('v!gen', Val)
                self.axioms.append(z3.ForAll([v0], evalT(ConstT(v0)) == v0))
                a = args[0]
                return ConstT(a[1] if isinstance(a, tuple) else a)
        if isinstance(g, (FnV, Param)) and len(args) == 1:
            ft = g.t if isinstance(g, FnV) else g.payload
            a = args[0]
            v0, f0 = z3.Const('v!gen', Val), z3.Const('f!gen', Fn)
            self.axioms.append(z3.ForAll([f0, v0], evalT(PartV(f0, v0)) == appF(f0, v0)))
            return PartV(ft, a[1] if isinstance(a, tuple) else a)
        raise OutsideSubset('partial(%r, ...)' % (g,))

    def ev(self, node, s):
        if isinstance(node, ast.Call) and isinstance(node.func, ast.Name) and isinstance(s.env.get(node.func.id), (FnV,)) and len(node.args) == 1:
            fv = s.env[node.func.id]
            outs = []
            for s1, a in self.ev(node.args[0], s):
                if isinstance(a, ExcV):
                    outs.append((s1, a))
                elif isinstance(a, tuple) and a[0] == 'VAL':
                    outs.append((s1, ('VAL', appF(fv.t, a[1]))))
                else:
                    raise OutsideSubset('argument of a function value')
            return outs
        if isinstance(node, ast.Call) and isinstance(node.func, ast.Name) and isinstance(s.env.get(node.func.id), tuple) and not node.args:
            t = s.env[node.func.id]
            inv = s.env['$invoked']
            s.env['$invoked'] = z3.Store(inv, t[1], True)
            s.env['$n_invocations'] = s.env['$n_invocations'] + 1
            return [(s, ('VAL', evalT(t[1])))]
        return self._ev_main(node, s)
