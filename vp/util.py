import signal
from contextlib import contextmanager


class Timeout(Exception):
    pass


@contextmanager
def time_limit(seconds):
    """SIGALRM based limit (main thread of a worker process only)."""
    if not seconds:
        yield
        return

    def handler(signum, frame):
        raise Timeout('exceeded %ss' % seconds)
    old = signal.signal(signal.SIGALRM, handler)
    signal.setitimer(signal.ITIMER_REAL, seconds)
    try:
        yield
    finally:
        signal.setitimer(signal.ITIMER_REAL, 0)
        signal.signal(signal.SIGALRM, old)
