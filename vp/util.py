import signal
from contextlib import contextmanager


class Timeout(Exception):
    pass


@contextmanager
def time_limit(seconds):
    """SIGALRM based limit (main thread of a worker process only)."""
    if not seconds:
        yield
        return

    def handler(signum, frame):
        raise Timeout('exceeded %ss' % seconds)
    old = signal.signal(signal.SIGALRM, handler)
    signal.setitimer(signal.ITIMER_REAL, seconds)
    try:
        yield
    finally:
        signal.setitimer(signal.ITIMER_REAL, 0)
        signal.signal(signal.SIGALRM, old)


TIMEOUT = object()


def forked(fn, timeout):
    """Run fn() in a forked child with a hard wall-clock limit; returns its
    (picklable) result, or TIMEOUT.  The child is killed on expiry, which is
    the only reliable way to bound z3's nlsat."""
    import os, pickle, select, signal, time
    r, w = os.pipe()
    pid = os.fork()
    if pid == 0:
        code = 0
        try:
            os.close(r)
            data = pickle.dumps(fn())
            with os.fdopen(w, 'wb') as f:
                f.write(data)
        except BaseException:
            code = 1
        finally:
            os._exit(code)
    os.close(w)
    deadline = time.time() + timeout
    chunks = []
    timed_out = False
    while True:
        left = deadline - time.time()
        if left <= 0:
            timed_out = True
            break
        ready, _, _ = select.select([r], [], [], left)
        if not ready:
            timed_out = True
            break
        b = os.read(r, 1 << 16)
        if not b:
            break
        chunks.append(b)
    os.close(r)
    if timed_out:
        try:
            os.kill(pid, signal.SIGKILL)
        except OSError:
            pass
    os.waitpid(pid, 0)
    if timed_out or not chunks:
        return TIMEOUT
    try:
        return pickle.loads(b''.join(chunks))
    except Exception:
        return TIMEOUT
