"""Dependency contracts (assumed, listed in the evidence) for library routines
the engine cannot execute symbolically.  Results are uninterpreted but
*functional*: equal arguments (up to polynomial normal form) give the same
result symbols."""
import numpy as np
import z3

from . import poly
from .sreal import ENG, SReal, lift, mkbool, EngineGap

_MEMO_ATTR = '_stub_memo'


def _memo():
    m = getattr(ENG, _MEMO_ATTR, None)
    if m is None or getattr(ENG, '_stub_memo_owner', None) is not ENG.apps:
        m = {}
        setattr(ENG, _MEMO_ATTR, m)
        ENG._stub_memo_owner = ENG.apps
    return m


def _key(name, M, *extra):
    return (name, M.shape) + tuple(poly.canon_key(lift(e)) for e in M.flat) + extra


def _fresh_matrix(base, shape):
    n = ENG.counter.get(base, 0)
    ENG.counter[base] = n + 1
    A = np.empty(shape, dtype=object)
    for idx in np.ndindex(*shape):
        A[idx] = SReal(z3.Real('%s%d_%s' % (base, n, '_'.join(map(str, idx)))))
    return A


def _assume_eq(A, B, note):
    A, B = np.broadcast_arrays(np.asarray(A, dtype=object), np.asarray(B, dtype=object))
    for x, y in zip(A.flat, B.flat):
        ENG.assume(mkbool(lift(x) == lift(y)), note, bulk=True)


def _eye(n):
    I = np.zeros((n, n), dtype=object)
    I[...] = 0
    for i in range(n):
        I[i, i] = 1
    return I


def svd(M, full_matrices=True, compute_uv=True):
    """(U, s, Vt): UtU = UUt = I, VtVtt = VttVt = I, s descending >= 0,
    U diag(s) Vt = M; deterministic function of M."""
    if M.ndim != 2:
        raise EngineGap('svd of a %d-d array' % M.ndim)
    n, m = M.shape
    if n != m and not full_matrices:
        raise EngineGap('economy svd of a non-square symbolic matrix')
    k = min(n, m)
    key = _key('svd', M)
    memo = _memo()
    if key not in memo:
        U = _fresh_matrix('svdU', (n, n))
        s = _fresh_matrix('svdS', (k,))
        Vt = _fresh_matrix('svdVt', (m, m))
        _assume_eq(U.T.dot(U), _eye(n), 'svd: UtU=I')
        _assume_eq(U.dot(U.T), _eye(n), 'svd: UUt=I')
        _assume_eq(Vt.dot(Vt.T), _eye(m), 'svd: VtVtt=I')
        _assume_eq(Vt.T.dot(Vt), _eye(m), 'svd: VttVt=I')
        for i in range(k):
            ENG.assume(s[i] >= 0, 'svd: s>=0')
            if i + 1 < k:
                ENG.assume(s[i] >= s[i + 1], 'svd: s descending')
        S = np.zeros((n, m), dtype=object)
        S[...] = 0
        for i in range(k):
            S[i, i] = s[i]
        _assume_eq(U.dot(S).dot(Vt), M, 'svd: U diag(s) Vt = M')
        memo[key] = (U, s, Vt)
    ENG.used_stubs.add('np.linalg.svd: U,Vt orthogonal, s descending >= 0, U diag(s) Vt = M, functional in M')
    U, s, Vt = memo[key]
    if not compute_uv:
        return s.copy()
    return U.copy(), s.copy(), Vt.copy()


def eigh(K, UPLO='L'):
    """(w, V): VtV = I, K_sym V = V diag(w), w ascending; K_sym is the
    symmetric matrix defined by the UPLO triangle."""
    n = K.shape[0]
    Ks = K.copy()
    for i in range(n):
        for j in range(n):
            if (UPLO == 'L' and j > i) or (UPLO == 'U' and j < i):
                Ks[i, j] = K[j, i]
    key = _key('eigh', Ks)
    memo = _memo()
    if key not in memo:
        w = _fresh_matrix('eighW', (n,))
        V = _fresh_matrix('eighV', (n, n))
        _assume_eq(V.T.dot(V), _eye(n), 'eigh: VtV=I')
        _assume_eq(V.dot(V.T), _eye(n), 'eigh: VVt=I')
        D = np.zeros((n, n), dtype=object)
        D[...] = 0
        for i in range(n):
            D[i, i] = w[i]
            if i + 1 < n:
                ENG.assume(w[i] <= w[i + 1], 'eigh: w ascending')
        _assume_eq(Ks.dot(V), V.dot(D), 'eigh: K V = V diag(w)')
        memo[key] = (w, V)
    ENG.used_stubs.add('np.linalg.eigh: V orthogonal, K V = V diag(w), w ascending, functional in K')
    w, V = memo[key]
    return w.copy(), V.copy()


def pinv(A):
    """Moore-Penrose inverse: the four Penrose equations; functional in A."""
    n, m = A.shape
    key = _key('pinv', A)
    memo = _memo()
    if key not in memo:
        P = _fresh_matrix('pinv', (m, n))
        _assume_eq(A.dot(P).dot(A), A, 'pinv: A P A = A')
        _assume_eq(P.dot(A).dot(P), P, 'pinv: P A P = P')
        _assume_eq(A.dot(P).T, A.dot(P), 'pinv: (AP)t = AP')
        _assume_eq(P.dot(A).T, P.dot(A), 'pinv: (PA)t = PA')
        memo[key] = P
    ENG.used_stubs.add('np.linalg.pinv: Penrose equations, functional in A')
    return memo[key].copy()


OPAQUE = {'cov': False}


def opaque_symmetric(name, args, k):
    """k x k symmetric matrix of uninterpreted functions of args"""
    M = np.empty((k, k), dtype=object)
    for i in range(k):
        for j in range(i, k):
            M[i, j] = M[j, i] = ENG.app('%s_%d_%d' % (name, i, j), *args)
    return M


def cov(X, rowvar=True, bias=False):
    """closed form: (sum x x^T - n m m^T) / (n - 1 + bias)  (or, when a
    contract asks for modular reasoning, an uninterpreted symmetric function of
    the data block and the bias flag)."""
    if X.ndim != 2:
        raise EngineGap('cov of non-2d')
    if rowvar:
        X = X.T
    if OPAQUE['cov']:
        ENG.used_stubs.add('np.cov as an uninterpreted symmetric function of the data block (modular; closed form verified on the single-edge configuration)')
        return _squeeze_like_numpy(opaque_symmetric('Cov_b%d' % int(bool(bias)), list(X.flat), X.shape[1]))
    n = X.shape[0]
    m = np.sum(X, axis=0) / n
    D = X - m
    ENG.used_stubs.add('np.cov := closed form (X-m)^T (X-m) / (n-1+bias)')
    return _squeeze_like_numpy(D.T.dot(D) / (n - (0 if bias else 1)))


def _squeeze_like_numpy(C):
    """numpy.cov ends with ``c.squeeze()``: the covariance of a single variable
    is a 0-dimensional array, not a 1x1 matrix."""
    C = np.asarray(C, dtype=object)
    return C.squeeze() if C.shape == (1, 1) else C
