"""Exact rational-function normal form of z3 real terms.

A polynomial is a dict {monomial: Fraction}; a monomial is a sorted tuple of
(atom_id, exponent).  Atoms are z3 constants and every non-arithmetic subterm
(uninterpreted applications, If-terms, to_int ...), identified by their z3
ast id.  A rational function is a pair (num, den).  No gcd cancellation is
performed; equality is decided by cross multiplication, which is exact.
"""
from fractions import Fraction

import z3

ONE = {(): Fraction(1)}
ZERO = {}

_ATOMS = {}          # ast id -> z3 term
_MEMO = {}           # ast id -> (num, den)
_KEEP = []           # keep terms alive so ids are not reused


def reset():
    _ATOMS.clear()
    _MEMO.clear()
    _FACTOR_CACHE.clear()
    _FACTOR_VARS.clear()
    _CANCEL_CACHE.clear()
    SQRT_DEFS.clear()
    del _KEEP[:]


def p_const(c):
    c = Fraction(c)
    return {(): c} if c else {}


def p_add(a, b):
    if not a: return b
    if not b: return a
    r = dict(a)
    for m, c in b.items():
        v = r.get(m)
        if v is None:
            r[m] = c
        else:
            v = v + c
            if v:
                r[m] = v
            else:
                del r[m]
    return r


def p_neg(a):
    return {m: -c for m, c in a.items()}


def p_sub(a, b):
    return p_add(a, p_neg(b))


def m_mul(m1, m2):
    if not m1: return m2
    if not m2: return m1
    d = dict(m1)
    for v, e in m2:
        d[v] = d.get(v, 0) + e
    return tuple(sorted(d.items()))


def p_mul(a, b):
    if not a or not b:
        return {}
    if len(a) > len(b):
        a, b = b, a
    r = {}
    for m1, c1 in a.items():
        for m2, c2 in b.items():
            m = m_mul(m1, m2)
            v = r.get(m)
            c = c1 * c2
            if v is None:
                r[m] = c
            else:
                v = v + c
                if v:
                    r[m] = v
                else:
                    del r[m]
    return r


def p_is_const(a):
    return not a or (len(a) == 1 and () in a)


def p_eq(a, b):
    return a == b


def rf_add(x, y):
    (n1, d1), (n2, d2) = x, y
    if d1 == d2:
        return (p_add(n1, n2), d1)
    if p_is_const(d1) and p_is_const(d2):
        c1, c2 = d1[()], d2[()]
        return (p_add(p_scale(n1, 1 / c1), p_scale(n2, 1 / c2)), ONE)
    return (p_add(p_mul(n1, d2), p_mul(n2, d1)), p_mul(d1, d2))


def p_scale(a, c):
    if not c:
        return {}
    return {m: v * c for m, v in a.items()}


def rf_mul(x, y):
    (n1, d1), (n2, d2) = x, y
    n = p_mul(n1, n2)
    if not n:
        return (ZERO, ONE)
    if d1 == ONE: return (n, d2)
    if d2 == ONE: return (n, d1)
    return (n, p_mul(d1, d2))


def rf_div(x, y):
    (n1, d1), (n2, d2) = x, y
    if not n2:
        raise ZeroDivisionError('division by a term that is identically zero')
    return rf_mul((n1, d1), (d2, n2))


def rf_neg(x):
    return (p_neg(x[0]), x[1])


SQRT_DEFS = {}      # atom id of r = sqrt(x)  ->  (num, den) of x


def _has_sq(p):
    for m in p:
        for v, e in m:
            if e >= 2 and v in SQRT_DEFS:
                return True
    return False


def reduce_sqrt(x):
    """rewrite r^2 -> x for every atom r = sqrt(x) (normal form modulo the
    defining relation of sqrt)."""
    n, d = x
    guard = 0
    while SQRT_DEFS and (_has_sq(n) or _has_sq(d)) and guard < 8:
        guard += 1
        out = []
        for p in (n, d):
            acc = (ZERO, ONE)
            for m, c in p.items():
                term = ({(): c}, ONE)
                rest = []
                for v, e in m:
                    if e >= 2 and v in SQRT_DEFS:
                        xn, xd = SQRT_DEFS[v]
                        for _ in range(e // 2):
                            term = rf_mul(term, (xn, xd))
                        if e % 2:
                            rest.append((v, 1))
                    else:
                        rest.append((v, e))
                if rest:
                    term = rf_mul(term, ({tuple(rest): Fraction(1)}, ONE))
                acc = rf_add(acc, term)
            out.append(acc)
        (nn, nd), (dn, dd) = out
        n, d = p_mul(nn, dd), p_mul(dn, nd)
    return (n, d)


def rf_norm(x):
    """Light normalisation: constant denominators are folded; common monomial
    content is not touched."""
    if SQRT_DEFS:
        x = reduce_sqrt(x)
    n, d = x
    if not n:
        return (ZERO, ONE)
    if p_is_const(d):
        c = d[()]
        if c != 1:
            return (p_scale(n, 1 / c), ONE)
    return x


def atom(t):
    i = t.get_id()
    if i not in _ATOMS:
        _ATOMS[i] = t
        _KEEP.append(t)
    return ({((i, 1),): Fraction(1)}, ONE)


def ratfun(t):
    """(num, den) of a z3 arithmetic term (memoised on ast id)."""
    i = t.get_id()
    r = _MEMO.get(i)
    if r is not None:
        return r
    # iterative post-order to survive deep DAGs
    stack = [(t, False)]
    while stack:
        u, done = stack.pop()
        ui = u.get_id()
        if ui in _MEMO:
            continue
        k = u.decl().kind() if z3.is_app(u) else None
        arith_kinds = (z3.Z3_OP_ADD, z3.Z3_OP_SUB, z3.Z3_OP_MUL, z3.Z3_OP_DIV, z3.Z3_OP_UMINUS, z3.Z3_OP_POWER, z3.Z3_OP_TO_REAL)
        if not done:
            if z3.is_rational_value(u):
                _MEMO[ui] = (p_const(Fraction(u.numerator_as_long(), u.denominator_as_long())), ONE)
                _KEEP.append(u)
                continue
            if z3.is_int_value(u):
                _MEMO[ui] = (p_const(u.as_long()), ONE)
                _KEEP.append(u)
                continue
            if k in arith_kinds and not (k == z3.Z3_OP_TO_REAL and not _int_arith(u.arg(0))):
                stack.append((u, True))
                for c in u.children():
                    if c.get_id() not in _MEMO:
                        stack.append((c, False))
                continue
            if k == z3.Z3_OP_TO_REAL:
                _MEMO[ui] = atom(u)
                continue
            _MEMO[ui] = atom(u)
            continue
        ch = [_MEMO[c.get_id()] for c in u.children()]
        if k == z3.Z3_OP_ADD:
            r = ch[0]
            for c in ch[1:]:
                r = rf_add(r, c)
        elif k == z3.Z3_OP_SUB:
            r = ch[0]
            for c in ch[1:]:
                r = rf_add(r, rf_neg(c))
        elif k == z3.Z3_OP_MUL:
            r = ch[0]
            for c in ch[1:]:
                r = rf_mul(r, c)
        elif k == z3.Z3_OP_DIV:
            r = rf_div(ch[0], ch[1])
        elif k == z3.Z3_OP_UMINUS:
            r = rf_neg(ch[0])
        elif k == z3.Z3_OP_TO_REAL:
            r = ch[0]
        elif k == z3.Z3_OP_POWER:
            e = ch[1]
            if not (p_is_const(e[0]) and e[1] == ONE):
                r = None
            else:
                ev = e[0].get((), Fraction(0))
                if ev.denominator != 1:
                    r = None
                else:
                    n = int(ev)
                    base = ch[0] if n >= 0 else rf_div((ONE, ONE), ch[0])
                    r = (ONE, ONE)
                    for _ in range(abs(n)):
                        r = rf_mul(r, base)
            if r is None:
                r = atom(u)
        _MEMO[ui] = rf_norm(r)
        _KEEP.append(u)
    return _MEMO[i]


def _int_arith(u):
    """to_real(x) distributes over integer +,-,* of numerals only; anything
    else integer-valued (to_int, If over ints, mod) is an atom."""
    return False


def is_zero(t):
    n, _ = ratfun(t)
    return not n


def equal(a, b):
    (n1, d1), (n2, d2) = ratfun(a), ratfun(b)
    if d1 == d2:
        return n1 == n2
    return p_mul(n1, d2) == p_mul(n2, d1)


def canon_key(t):
    """Hashable canonical key of a term's normal form (no cancellation, so two
    equal rational functions with different denominators may get different
    keys: incompleteness only)."""
    n, d = ratfun(t)
    if d != ONE and n and not p_is_const(d) and len(n) < 300 and len(d) < 300:
        try:
            n, d = cancel(n, d)
        except Exception:
            pass
    if d != ONE and n:
        # normalise by the leading coefficient of the denominator
        lead = d[min(d)]
        if lead != 1:
            n, d = p_scale(n, 1 / lead), p_scale(d, 1 / lead)
    return (frozenset(n.items()), frozenset(d.items()))


def atoms_of(*polys):
    s = set()
    for p in polys:
        for m in p:
            for v, _ in m:
                s.add(v)
    return s


def atom_term(i):
    return _ATOMS[i]


def show(p, limit=6):
    out = []
    for m, c in list(p.items())[:limit]:
        out.append('%s*%s' % (c, '*'.join('%s^%d' % (_ATOMS[v], e) for v, e in m) or '1'))
    return ' + '.join(out) + (' + ...(%d terms)' % len(p) if len(p) > limit else '')


def const_value(t):
    """Fraction c if the term is identically the constant c as a rational
    function (num == c * den), else None."""
    try:
        n, d = ratfun(t)
    except ZeroDivisionError:
        return None
    if not n:
        return Fraction(0)
    if len(n) != len(d):
        return None
    m0 = next(iter(d))
    if m0 not in n:
        return None
    c = n[m0] / d[m0]
    for m, v in d.items():
        if n.get(m) != v * c:
            return None
    return c


def to_z3(p):
    """z3 term of a polynomial (atoms mapped back to their terms)."""
    tot = None
    for m, c in p.items():
        term = z3.RealVal(str(c))
        first = c == 1 and m
        t = None if first else term
        for v, e in m:
            a = _ATOMS[v]
            for _ in range(e):
                t = a if t is None else t * a
        tot = t if tot is None else tot + t
    return tot if tot is not None else z3.RealVal(0)


_FACTOR_CACHE = {}
_FACTOR_VARS = {}


def _pkey(p):
    return frozenset(p.items())


def factor_signature(p):
    """(sign, [(factor_poly, multiplicity)]) with p == sign * |c| * prod f^m,
    every factor normalised to leading coefficient +1 (so its own sign is a
    well-defined atom).  sympy.factor_list over QQ; cached."""
    k = _pkey(p)
    r = _FACTOR_CACHE.get(k)
    if r is not None:
        return r
    import sympy
    atoms = sorted(atoms_of(p))
    syms = {v: sympy.Symbol('a%d' % i) for i, v in enumerate(atoms)}
    back = {syms[v]: v for v in atoms}
    expr = sympy.Integer(0)
    for m, c in p.items():
        term = sympy.Rational(c.numerator, c.denominator)
        for v, e in m:
            term = term * syms[v] ** e
        expr += term
    c, facs = sympy.factor_list(expr)
    sign = 1 if c > 0 else -1
    out = []
    for f, mult in facs:
        P = sympy.Poly(f, *[syms[v] for v in atoms])
        q = {}
        for mon, coeff in P.terms():
            m = tuple(sorted((atoms[i], e) for i, e in enumerate(mon) if e))
            q[m] = Fraction(int(coeff.p), int(coeff.q))
        lead = q[min(q)]
        if lead < 0:
            q = p_neg(q)
            if mult % 2:
                sign = -sign
            lead = -lead
        if lead != 1:
            q = p_scale(q, 1 / lead)
        out.append((q, mult))
    r = (sign, out)
    _FACTOR_CACHE[k] = r
    return r


def factor_var(q):
    k = _pkey(q)
    v = _FACTOR_VARS.get(k)
    if v is None:
        v = z3.Real('fac!%d' % len(_FACTOR_VARS))
        _FACTOR_VARS[k] = v
    return v


def abstract_sign_term(p):
    """z3 term over factor variables with the same sign as polynomial p
    (even multiplicities collapse to squares)."""
    if not p:
        return z3.RealVal(0)
    if p_is_const(p):
        return z3.RealVal(1 if p[()] > 0 else -1)
    sign, facs = factor_signature(p)
    t = z3.RealVal(sign)
    for q, mult in facs:
        v = factor_var(q)
        t = t * v
        if mult % 2 == 0:
            t = t * v
    return t


_CANCEL_CACHE = {}


def cancel(n, d):
    """(n', d') with n/d == n'/d' in lowest terms (sympy.cancel; cached)."""
    if d == ONE or not n or p_is_const(d):
        return n, d
    k = (_pkey(n), _pkey(d))
    r = _CANCEL_CACHE.get(k)
    if r is not None:
        return r
    import sympy
    atoms = sorted(atoms_of(n, d))
    syms = [sympy.Symbol('a%d' % i) for i in range(len(atoms))]
    idx = {v: i for i, v in enumerate(atoms)}

    def to_sp(p):
        e = sympy.Integer(0)
        for m, c in p.items():
            t = sympy.Rational(c.numerator, c.denominator)
            for v, ex in m:
                t = t * syms[idx[v]] ** ex
            e += t
        return e

    def from_sp(e):
        P = sympy.Poly(e, *syms)
        q = {}
        for mon, coeff in P.terms():
            m = tuple(sorted((atoms[i], ex) for i, ex in enumerate(mon) if ex))
            q[m] = Fraction(int(coeff.p), int(coeff.q))
        return q
    nn, dd = sympy.cancel(to_sp(n) / to_sp(d)).as_numer_denom()
    r = (from_sp(sympy.expand(nn)), from_sp(sympy.expand(dd)))
    _CANCEL_CACHE[k] = r
    return r
