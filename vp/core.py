"""Contract context, path exploration, native (float) evaluation of the same
contract text, obligation records.

A *contract* is a python function ``f(ctx, **config)`` that builds inputs from
``ctx`` (symbolic reals in mode 'sym', floats in mode 'native'), calls the real
menpo code and states its ensures-clauses through ``ctx.check*``.  In mode
'sym' every clause on every path becomes a proof obligation for the back-end
portfolio; in mode 'native' the very same text is a run-time contract check
(used for counterexample replay, the CPython cross-check and bounded
stand-ins).
"""
import json
import math
import random
import time
import traceback

import numpy as np
import z3

from . import poly, discharge
from .sreal import (ENG, SReal, SBool, EngineGap, Infeasible, PathLimit, is_sym, lift, liftb,
                    mkbool, sand, to_fraction)


class Reject(Exception):
    """native sample does not satisfy the requires."""


class Obligation(object):
    __slots__ = ('name', 'kind', 'goal', 'a', 'b', 'note')

    def __init__(self, name, kind, goal=None, a=None, b=None, note=''):
        self.name, self.kind, self.goal, self.a, self.b, self.note = name, kind, goal, a, b, note


class Ctx(object):
    def __init__(self, mode, seed=0, model=None, tol=1e-7):
        self.mode = mode
        self.sym = mode == 'sym'
        self.rng = random.Random(seed)
        self.nprng = np.random.RandomState(seed % (2 ** 32))
        self.model = model or {}
        self.tol = tol
        self.obligations = []
        self.native_failures = []
        self.native_checked = 0
        self.concrete_checked = 0
        self.notes = []
        self.drawn = {}
        self.opaques = {}
        self.extra_results = []       # obligations discharged by another engine (E1 pyvc)

    # ------------------------------------------------------------- inputs
    def real(self, name, lo=None, hi=None, nonzero=False, scale=1.0):
        if self.sym:
            x = ENG.real(name)
            if lo is not None:
                ENG.assume(x > lo, '%s>%s' % (name, lo))
            if hi is not None:
                ENG.assume(x < hi, '%s<%s' % (name, hi))
            if nonzero:
                ENG.assume(x != 0, '%s!=0' % name)
            return x
        if name in self.model:
            v = float(self.model[name])
            if (lo is not None and not v > lo) or (hi is not None and not v < hi) or (nonzero and v == 0):
                raise Reject(name)
        else:
            if lo is not None and hi is not None:
                v = self.rng.uniform(lo, hi)
            elif lo is not None:
                v = lo + abs(self.rng.gauss(0, scale)) + 1e-3
            elif hi is not None:
                v = hi - abs(self.rng.gauss(0, scale)) - 1e-3
            else:
                v = self.rng.gauss(0, scale)
                if nonzero and abs(v) < 1e-2:
                    v = 0.5
        self.drawn[name] = v
        return v

    def reals(self, name, shape, **kw):
        shape = (shape,) if isinstance(shape, int) else tuple(shape)
        a = np.empty(shape, dtype=object if self.sym else float)
        for idx in np.ndindex(*shape):
            a[idx] = self.real('%s_%s' % (name, '_'.join(map(str, idx))), **kw)
        if self.sym:
            from .proxy import sa
            return sa(a)
        return a

    def const_array(self, values):
        """concrete numbers as an array of the mode's persona."""
        a = np.asarray(values, dtype=float)
        if self.sym:
            from .proxy import objarr
            return objarr(a)
        return a

    def unit2(self, name):
        """(c, s) with c^2 + s^2 = 1."""
        if self.sym:
            c, s = ENG.real(name + '_c'), ENG.real(name + '_s')
            ENG.assume(c * c + s * s == 1, 'unit2 %s' % name)
            return c, s
        if name + '_c' in self.model and name + '_s' in self.model:
            c, s = float(self.model[name + '_c']), float(self.model[name + '_s'])
            n = math.hypot(c, s)
            if abs(n - 1) > 1e-6:
                raise Reject(name)
            c, s = c / n, s / n
        else:
            th = self.rng.uniform(-math.pi, math.pi)
            c, s = math.cos(th), math.sin(th)
        self.drawn[name + '_c'], self.drawn[name + '_s'] = c, s
        return c, s

    def opaque(self, name, n_in, n_out):
        """An arbitrary pure row-wise map R^n_in -> R^n_out (uninterpreted in
        'sym', a fixed generic smooth map in 'native')."""
        if name in self.opaques:
            return self.opaques[name]
        if self.sym:
            def F(x):
                x = np.asarray(x)
                out = np.empty((x.shape[0], n_out), dtype=object)
                for i in range(x.shape[0]):
                    for j in range(n_out):
                        out[i, j] = ENG.app('%s_%d' % (name, j), *list(x[i]))
                return out
        else:
            rs = np.random.RandomState(abs(hash(name)) % (2 ** 31))
            A = rs.randn(n_in, n_out)
            B = rs.randn(n_in, n_out)
            c = rs.randn(n_out)

            def F(x):
                x = np.asarray(x, dtype=float)
                return x.dot(A) + np.sin(x).dot(B) + c
        self.opaques[name] = F
        return F

    # ------------------------------------------- transcendental reference
    def cos(self, x):
        return ENG.fn_trig('cos', x if isinstance(x, SReal) else SReal(lift(x))) if self.sym else math.cos(x)

    def sin(self, x):
        return ENG.fn_trig('sin', x if isinstance(x, SReal) else SReal(lift(x))) if self.sym else math.sin(x)

    def pi(self):
        return ENG.pi() if self.sym else math.pi

    def sqrt(self, x):
        return ENG.fn_sqrt(x) if self.sym else math.sqrt(x)

    def raises(self, exc, fn, *a, **k):
        """True iff fn(*a, **k) raises exc (other exceptions propagate)."""
        try:
            fn(*a, **k)
        except exc:
            return True
        return False

    # ------------------------------------------------------------ requires
    def assume(self, cond, note=''):
        if self.sym:
            if isinstance(cond, np.ndarray):
                cond = sand(*list(cond.flat))
            ENG.assume(cond, note)
        else:
            if isinstance(cond, np.ndarray):
                cond = bool(np.all(cond))
            if not cond:
                raise Reject(note)

    def assume_eq(self, a, b, note='', bulk=False):
        a, b = np.asarray(a), np.asarray(b)
        a, b = np.broadcast_arrays(a, b)
        if self.sym:
            for x, y in zip(a.flat, b.flat):
                ENG.assume(mkbool(lift(x) == lift(y)), note, bulk=bulk)
        else:
            if not np.allclose(a.astype(float), b.astype(float), atol=1e-9):
                raise Reject(note)

    # ------------------------------------------------------------- ensures
    def check(self, name, cond, note=''):
        """cond: bool / SBool / array of them."""
        if isinstance(cond, np.ndarray):
            items = list(cond.flat)
        else:
            items = [cond]
        for k, c in enumerate(items):
            nm = name if len(items) == 1 else '%s#%d' % (name, k)
            if self.sym:
                if isinstance(c, (bool, np.bool_)):
                    self.concrete_checked += 1
                    if not c:
                        self.obligations.append(Obligation(nm, 'concrete-false', note=note))
                    else:
                        self.obligations.append(Obligation(nm, 'concrete-true', note=note))
                else:
                    self.obligations.append(Obligation(nm, 'bool', goal=liftb(c), note=note))
            else:
                self.native_checked += 1
                if not bool(c):
                    self.native_failures.append(dict(clause=nm, note=note))

    def check_eq(self, name, a, b, note='', tol=None):
        a_, b_ = np.asarray(a, dtype=object), np.asarray(b, dtype=object)
        if a_.shape != b_.shape:
            try:
                a_, b_ = np.broadcast_arrays(a_, b_)
            except ValueError:
                self.check(name + '/shape', False, note='shape %s vs %s' % (a_.shape, b_.shape))
                return
        idxs = list(np.ndindex(*a_.shape)) if a_.shape else [()]
        for idx in idxs:
            x, y = a_[idx], b_[idx]
            nm = name if not a_.shape else '%s%s' % (name, list(idx))
            if self.sym:
                if not isinstance(x, (SReal, SBool)) and not isinstance(y, (SReal, SBool)):
                    ok = _num_eq(x, y, 0)
                    self.concrete_checked += 1
                    self.obligations.append(Obligation(nm, 'concrete-true' if ok else 'concrete-false', note='%r == %r' % (x, y)))
                else:
                    self.obligations.append(Obligation(nm, 'eq', a=lift(x), b=lift(y), note=note))
            else:
                self.native_checked += 1
                if not _num_eq(x, y, tol or self.tol):
                    self.native_failures.append(dict(clause=nm, lhs=_j(x), rhs=_j(y), note=note))

    def check_true(self, name, cond, note=''):
        """value-independent (structural) clause, evaluated concretely."""
        self.check(name, bool(cond), note)

    def note(self, s):
        self.notes.append(s)

    def case(self, desc, nontrivial=True, count=1):
        """bounded contracts: count explored case(s) (a graph, a file, a
        value ...); count > 1 = an enumerated block of distinct cases.  The
        first few descriptions become evidence samples."""
        self.n_cases = getattr(self, 'n_cases', 0) + count
        if nontrivial:
            if count == 1:
                keys = self.__dict__.setdefault('case_keys', set())
                keys.add(desc if isinstance(desc, str) else json.dumps(desc, sort_keys=True, default=str))
            else:
                self.bulk_distinct = getattr(self, 'bulk_distinct', 0) + count
        sm = self.__dict__.setdefault('case_samples', [])
        if len(sm) < 3:
            sm.append(desc)


def _j(x):
    try:
        return float(x)
    except Exception:
        return repr(x)


def _num_eq(x, y, tol):
    try:
        if x is None or y is None:
            return x is y
        x, y = float(x), float(y)
    except (TypeError, ValueError):
        return x == y
    if x != x or y != y:
        return x != x and y != y
    if math.isinf(x) or math.isinf(y):
        return x == y
    return abs(x - y) <= tol * (1 + abs(x) + abs(y))


# ---------------------------------------------------------------- exploration
def run_symbolic(contract, config, max_paths=2000, budget_s=None, log=None):
    """Explore all paths of contract(ctx, **config); discharge every obligation.
    Returns a dict (picklable)."""
    t_start = time.time()
    discharge.BUDGET.reset()
    worklist = [[]]
    results = []          # per obligation
    paths = []
    gaps = []
    n_paths = 0
    stubs = set()
    denoms_unproved = []
    _nf = {}

    def native_failing():
        """clauses that fail when the same contract text is evaluated natively
        on seeded float inputs (cheap falsification before the solvers)."""
        if 'v' not in _nf:
            d = {}
            was = ENG.active
            ENG.active = False
            try:
                for k in range(3):
                    st, info = run_native(contract, config, seed=1000 + k, tries=5, all_failures=True)
                    if st == 'failed':
                        for f in info['failures']:
                            d.setdefault(f['clause'], info['inputs'])
            finally:
                ENG.active = was
            _nf['v'] = d
        return _nf['v']
    while worklist:
        if n_paths >= max_paths:
            gaps.append(dict(kind='path-limit', detail='more than %d paths' % max_paths))
            break
        if budget_s is not None and time.time() - t_start > budget_s:
            gaps.append(dict(kind='time-budget', detail='exploration exceeded %ss' % budget_s))
            break
        prefix = worklist.pop()
        ENG.reset_all()
        poly.reset()
        from . import imagestub
        imagestub.reset()
        ENG.prefix = prefix
        ENG.active = True
        ctx = Ctx('sym')
        status = 'ok'
        exc_info = None
        try:
            contract(ctx, **config)
        except Infeasible:
            status = 'infeasible'
        except (EngineGap, PathLimit) as e:
            status = 'gap'
            exc_info = '%s: %s' % (type(e).__name__, e)
        except Reject:
            status = 'infeasible'
        except Exception as e:
            status = 'crash'
            exc_info = ''.join(traceback.format_exception(type(e), e, e.__traceback__)[-6:])
        finally:
            ENG.active = False
        worklist.extend(ENG.pending)
        if status == 'infeasible':
            continue
        n_paths += 1
        hyps = ENG.context()
        stubs |= ENG.used_stubs
        pinfo = dict(index=n_paths - 1, decisions=[_dec(d) for d in ENG.decisions], status=status,
                     n_obligations=len(ctx.obligations))
        # vacuity: the path's hypotheses must be satisfiable
        s = z3.Solver()
        s.set('timeout', 5000)
        for h in hyps:
            s.add(h)
        from .util import forked, TIMEOUT

        def _job():
            r = s.check()
            return (str(r), discharge.model_to_dict(s.model()) if r == z3.sat else None)
        rr = forked(_job, 6.0)
        r_s, path_model = ('unknown', None) if rr is TIMEOUT else rr
        pinfo['hyps_sat'] = r_s
        if r_s == 'unsat':
            pinfo['status'] = 'vacuous'
            paths.append(pinfo)
            continue
        if status == 'crash':
            # an unexpected exception of the real code on a feasible path: a
            # violation iff the real code also raises natively on an input of
            # this path (otherwise an engine gap, never a verdict)
            was = ENG.active
            ENG.active = False
            try:
                st_, info_ = run_native(contract, config, model=path_model, tries=1 if path_model else 3)
            finally:
                ENG.active = was
            if st_ == 'crash':
                results.append(dict(name='returns-normally (no unexpected exception)', path=pinfo['index'], kind='crash',
                                    status='refuted', backend='native-crash', time_s=0.0, model=info_.get('inputs'),
                                    detail=(info_.get('error') or '')[-600:]))
                status = 'ok'
        if status in ('gap', 'crash'):
            gaps.append(dict(kind=status, detail=exc_info, path=pinfo['index'], model=path_model))
        for rec in ctx.extra_results:
            rec = dict(rec)
            rec.setdefault('path', pinfo['index'])
            rec.setdefault('kind', 'vc')
            results.append(rec)
        for ob in ctx.obligations:
            rec = dict(name=ob.name, path=pinfo['index'], kind=ob.kind)
            if ob.kind == 'concrete-true':
                rec.update(status='proved', backend='concrete', time_s=0.0)
            elif ob.kind == 'concrete-false':
                rec.update(status='refuted', backend='concrete', time_s=0.0, model=path_model, detail=ob.note)
            elif ob.kind == 'eq':
                r1 = discharge.prove_eq(ob.a, ob.b, hyps, cheap_only=True)
                if r1 is None and ob.name in native_failing():
                    r1 = dict(status='refuted', backend='native-counterexample', time_s=0.0, model=native_failing()[ob.name])
                rec.update(r1 if r1 is not None else discharge.prove_eq(ob.a, ob.b, hyps))
                if rec['status'] != 'proved':
                    rec['detail'] = _short(ob.a) + '  ==  ' + _short(ob.b)
            else:
                if z3.is_true(z3.simplify(ob.goal)):
                    rec.update(status='proved', backend='normal-form', time_s=0.0)
                elif ob.name in native_failing():
                    rec.update(status='refuted', backend='native-counterexample', time_s=0.0, model=native_failing()[ob.name])
                elif discharge.BUDGET.left() > 0:
                    tq = time.time()
                    rec.update(discharge.prove(ob.goal, hyps, z3_timeout_ms=int(min(discharge.Z3_TIMEOUT_MS, discharge.BUDGET.left() * 1000))))
                    discharge.BUDGET.spend(time.time() - tq)
                else:
                    rec.update(status='unknown', backend='budget-exhausted', time_s=0.0)
                if rec['status'] != 'proved':
                    rec['detail'] = _short(ob.goal)
            if rec['status'] == 'refuted' and rec.get('model') is None:
                rec['model'] = path_model
            results.append(rec)
        # side conditions: denominators
        # side conditions: every division the real code executed must have a
        # non-zero denominator under the requires (else the result is inf/nan)
        light = [h for h, bk in zip(ENG.hyps, ENG.hyp_bulk) if not bk] + [c for c, _ in ENG.path]
        try:
            nz = discharge.nonzero_factors(light)
        except Exception:
            nz = set()
        seen_den = set()
        for d in ENG.denominators.values():
            try:
                n_, d_ = poly.ratfun(d)
            except ZeroDivisionError:
                continue
            key = poly._pkey(n_)
            if key in seen_den or poly.p_is_const(n_):
                continue
            seen_den.add(key)
            rec = dict(name='defined/denominator-nonzero#%d' % len(seen_den), path=pinfo['index'], kind='den')
            r = discharge.prove_nonzero(n_, light, nz)
            rec.update(r)
            if rec['status'] != 'proved':
                rec['detail'] = 'denominator may vanish: ' + _short(d)
                confirmed = False
                if rec['status'] == 'refuted' and rec.get('model'):
                    # a violation only if the real code, run natively on the
                    # solver's input (requires hold, denominator vanishes),
                    # breaks a clause of the contract
                    was = ENG.active
                    ENG.active = False
                    try:
                        st_, info_ = run_native(contract, config, model=rec['model'], tries=1)
                    finally:
                        ENG.active = was
                    if st_ in ('failed', 'crash'):
                        confirmed = True
                        rec['model'] = info_.get('inputs')
                        rec['detail'] += ' ; native run on the solver input: %s' % (info_.get('failures') or info_.get('error'))[:1]
                if not confirmed:
                    rec['status'] = 'assumed'
                    denoms_unproved.append(_short(d))
            if rec['status'] != 'assumed':
                results.append(rec)
        paths.append(pinfo)
    return dict(config=_cfg(config), paths=paths, n_paths=n_paths, results=results, gaps=gaps,
                stubs=sorted(stubs), denominators_assumed_nonzero=sorted(set(denoms_unproved))[:20],
                solver_time_s=sum(r['time_s'] for r in results), wall_s=time.time() - t_start)


def _dec(d):
    return d if isinstance(d, bool) else list(d)


def _cfg(config):
    return {k: (v if isinstance(v, (int, float, str, bool, type(None), list, tuple)) else getattr(v, '__name__', repr(v)))
            for k, v in config.items()}


def _short(t, n=300):
    s = str(t).replace('\n', ' ')
    while '  ' in s:
        s = s.replace('  ', ' ')
    return s if len(s) <= n else s[:n] + '...'


def run_native(contract, config, seed=0, model=None, tries=50, tol=1e-7, all_failures=False):
    """Evaluate the contract on concrete floats.  Returns (status, info):
    status in held / failed / rejected / crash."""
    last = None
    for k in range(tries):
        ctx = Ctx('native', seed=seed * 7919 + k, model=model if k == 0 else None, tol=tol)
        try:
            with np.errstate(all='ignore'):
                contract(ctx, **config)
        except Reject as e:
            last = ('rejected', dict(reason=str(e)))
            if model is not None and k == 0:
                continue
            continue
        except Exception as e:
            return 'crash', dict(error=''.join(traceback.format_exception(type(e), e, e.__traceback__)[-8:]),
                                 inputs=ctx.drawn, seed=seed * 7919 + k)
        if ctx.native_failures:
            return 'failed', dict(failures=ctx.native_failures if all_failures else ctx.native_failures[:200], inputs=ctx.drawn, checked=ctx.native_checked,
                                  seed=seed * 7919 + k, cases=getattr(ctx, 'n_cases', 0), distinct_cases=len(getattr(ctx, 'case_keys', ())) + getattr(ctx, 'bulk_distinct', 0),
                                  case_samples=getattr(ctx, 'case_samples', []))
        return 'held', dict(checked=ctx.native_checked, inputs=ctx.drawn, seed=seed * 7919 + k,
                            cases=getattr(ctx, 'n_cases', 0), distinct_cases=len(getattr(ctx, 'case_keys', ())) + getattr(ctx, 'bulk_distinct', 0),
                            case_samples=getattr(ctx, 'case_samples', []))
    return last or ('rejected', {})
