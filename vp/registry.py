"""Registry of contracts: (property, name) -> function + configurations."""
CONTRACTS = {}


class ContractDef(object):
    def __init__(self, prop, name, fn, configs, level, doc, functions, native_samples, max_paths, budget_s, tol):
        self.prop, self.name, self.fn = prop, name, fn
        self.configs, self.level, self.doc = configs, level, doc
        self.functions = functions
        self.native_samples = native_samples
        self.max_paths = max_paths
        self.budget_s = budget_s
        self.tol = tol

    @property
    def id(self):
        return '%s/%s' % (self.prop, self.name)

    def config_list(self, tier):
        c = self.configs
        return c(tier) if callable(c) else list(c)


def contract(prop, name, configs=({},), level='proof', functions=(), native_samples=3, max_paths=2000,
             budget_s=600, tol=1e-7):
    """level: 'proof' (symbolic, all values) or 'bounded' (native only)."""
    def deco(fn):
        cd = ContractDef(prop, name, fn, configs, level, (fn.__doc__ or '').strip(), list(functions), native_samples,
                         max_paths, budget_s, tol)
        CONTRACTS[cd.id] = cd
        return fn
    return deco


def for_property(prop):
    return [c for c in CONTRACTS.values() if c.prop == prop]
