"""Module proxy for ``np`` inside menpo modules (verifier process only).

Forwards to numpy except for a fixed table.  With the engine inactive and no
symbolic leaves in the arguments every entry behaves exactly like numpy.
"""
import itertools
import sys
import types

import numpy as np
import z3

from . import sreal
from .sreal import (ENG, SReal, SBool, EngineGap, is_sym, lift, liftb, mk, mkbool,
                    sabs, sfloor, sceil, srint, smax, smin, sand, sor, zconst)

_FLOATY = (None, float, np.float64, np.float32, 'float', 'float64', 'f8', np.double)


def _floaty(dtype):
    if dtype in _FLOATY:
        return True
    try:
        return np.issubdtype(np.dtype(dtype), np.floating)
    except Exception:
        return False


import operator


def _decide_mask(m):
    """concrete bool array of a symbolic mask (forks per undecided element)."""
    b = np.empty(m.shape, dtype=bool)
    for idx in np.ndindex(*m.shape):
        b[idx] = bool(m[idx])
    return b


def _has_sbool(a):
    for e in a.flat:
        if isinstance(e, SBool):
            return True
    return False


def _is_symmask(k):
    return isinstance(k, np.ndarray) and k.dtype == object and k.size > 0 and all(isinstance(e, (SBool, bool, np.bool_)) for e in k.flat)


class SymArray(np.ndarray):
    """ndarray subclass carried by every object array the engine creates.
    It only changes what numpy cannot do symbolically: rich comparisons return
    arrays of SBool instead of forcing truth values, masks made of SBool can
    be used for indexing / masked assignment, any()/all() build one formula."""
    __array_priority__ = 50.0

    def _cmp(self, other, op):
        if self.dtype != object and not (isinstance(other, np.ndarray) and other.dtype == object) and not isinstance(other, (SReal, SBool)):
            return getattr(np.ndarray, '__%s__' % op)(np.asarray(self), other)
        f = getattr(operator, op)
        r = np.frompyfunc(f, 2, 1)(np.asarray(self), np.asarray(other) if isinstance(other, np.ndarray) else other)
        if isinstance(r, np.ndarray):
            if not _has_sbool(r):
                return np.asarray(r).astype(bool)
            return r.view(SymArray)
        return r

    def __lt__(self, o): return self._cmp(o, 'lt')
    def __le__(self, o): return self._cmp(o, 'le')
    def __gt__(self, o): return self._cmp(o, 'gt')
    def __ge__(self, o): return self._cmp(o, 'ge')
    def __eq__(self, o): return self._cmp(o, 'eq')
    def __ne__(self, o): return self._cmp(o, 'ne')
    __hash__ = None

    def __array_wrap__(self, obj, context=None, return_scalar=False):
        # reductions of ndarray subclasses come back as 0-d arrays; numpy
        # proper returns scalars there, and so must we
        if isinstance(obj, np.ndarray) and obj.ndim == 0:
            return obj[()]
        if isinstance(obj, np.ndarray) and not isinstance(obj, SymArray):
            obj = obj.view(SymArray)
        return obj

    def __invert__(self):
        if self.dtype == object:
            def inv(e):
                if isinstance(e, (bool, np.bool_)):
                    return not e
                return ~e
            return sa(np.frompyfunc(inv, 1, 1)(np.asarray(self)))
        return np.ndarray.__invert__(self)

    def __bool__(self):
        if self.dtype == object and self.size == 1:
            return bool(self.reshape(-1)[0])
        return np.ndarray.__bool__(np.asarray(self))

    def _fix_key(self, key):
        if _is_symmask(key):
            return _decide_mask(key)
        if isinstance(key, tuple) and any(_is_symmask(k) for k in key):
            return tuple(_decide_mask(k) if _is_symmask(k) else k for k in key)
        return key

    def __getitem__(self, key):
        return np.ndarray.__getitem__(self, self._fix_key(key))

    def __setitem__(self, key, value):
        if _is_symmask(key) and key.shape == self.shape and self.dtype == object and _has_sbool(key):
            # masked assignment without forking: elementwise if-then-else
            v = np.broadcast_to(np.asarray(value, dtype=object), self.shape) if np.ndim(value) == 0 else None
            if v is not None:
                flat = np.asarray(self).reshape(-1) if self.flags.c_contiguous else None
                if flat is not None:
                    kf, vf = key.reshape(-1), v.reshape(-1)
                    for i in range(flat.size):
                        c = kf[i]
                        if isinstance(c, SBool):
                            flat[i] = mk(z3.If(c.b, lift(vf[i]), lift(flat[i])))
                        elif c:
                            flat[i] = vf[i]
                    return
        return np.ndarray.__setitem__(self, self._fix_key(key), value)

    def any(self, axis=None, out=None, keepdims=False, **k):
        if self.dtype == object:
            return PROXY.any(np.asarray(self), axis=axis)
        return np.ndarray.any(np.asarray(self), axis=axis, keepdims=keepdims)

    def all(self, axis=None, out=None, keepdims=False, **k):
        if self.dtype == object:
            return PROXY.all(np.asarray(self), axis=axis)
        return np.ndarray.all(np.asarray(self), axis=axis, keepdims=keepdims)

    def astype(self, dtype, *a, **k):
        if self.dtype == object and dtype in (bool, np.bool_) and _has_sbool(self):
            return _decide_mask(np.asarray(self))
        r = np.ndarray.astype(self, dtype, *a, **k)
        return r

    def max(self, axis=None, out=None, keepdims=False, **k):
        if self.dtype == object and is_sym(self):
            return PROXY.max(np.asarray(self), axis=axis, keepdims=keepdims)
        return np.ndarray.max(self, axis=axis, keepdims=keepdims)

    def min(self, axis=None, out=None, keepdims=False, **k):
        if self.dtype == object and is_sym(self):
            return PROXY.min(np.asarray(self), axis=axis, keepdims=keepdims)
        return np.ndarray.min(self, axis=axis, keepdims=keepdims)

    def mean(self, axis=None, **k):
        if self.dtype == object:
            return PROXY.mean(self, axis=axis)
        return np.ndarray.mean(self, axis=axis, **k)

    def __reduce__(self):
        return np.asarray(self).__reduce__()


def sa(x):
    """view object arrays as SymArray (recursively through tuples/lists)."""
    if isinstance(x, np.ndarray):
        if not isinstance(x, SymArray) and (x.dtype == object or (ENG.active and x.ndim > 0 and x.dtype != bool)):
            return x.view(SymArray)
        return x
    if isinstance(x, tuple):
        return tuple(sa(e) for e in x)
    return x


def objarr(a):
    """object array with the same shape/content."""
    if isinstance(a, np.ndarray) and a.dtype == object:
        return sa(a)
    return sa(_objarr(a))


def _objarr(a):
    a = np.asarray(a)
    o = np.empty(a.shape, dtype=object)
    if a.ndim == 0:
        o[()] = _py(a.item())
    else:
        o[...] = a
        if a.dtype != object:
            flat = o.reshape(-1)
            for i in range(flat.size):
                flat[i] = _py(flat[i])
    return o


def _py(x):
    from .sreal import Q
    if isinstance(x, (np.floating, float)):
        f = float(x)
        if f != f or f in (float('inf'), float('-inf')):
            return f
        if not ENG.active:
            return int(f) if (f == int(f) and abs(f) < 2 ** 53) else f
        return Q(f)
    if isinstance(x, np.integer):
        return int(x)
    if isinstance(x, np.bool_):
        return bool(x)
    return x


def emap(f, *xs):
    """elementwise map with broadcasting over scalars / arrays."""
    if all(not isinstance(x, (np.ndarray, list, tuple)) for x in xs):
        return f(*xs)
    uf = np.frompyfunc(f, len(xs), 1)
    return sa(uf(*[(np.asarray(x) if isinstance(x, np.ndarray) else x) if not isinstance(x, (list, tuple)) else _objarr(x) for x in xs]))


def _unary(npf, symf):
    def g(x, *a, **k):
        if not is_sym(x):
            if isinstance(x, np.ndarray) and x.dtype == object:
                x = x.astype(float)
            return npf(x, *a, **k)
        return emap(symf, x)
    g.__name__ = npf.__name__
    return g


def _sym_or_num(symf, numf):
    def h(x):
        if isinstance(x, np.ndarray) and x.ndim == 0:
            x = x[()]
        if isinstance(x, SReal):
            return symf(x)
        if isinstance(x, SBool):
            return symf(x.as_real())
        try:
            return _py(numf(float(x)))
        except (ValueError, ZeroDivisionError):
            # numpy semantics under errstate(ignore): log(0) = -inf, sqrt(-1) = nan
            with np.errstate(all='ignore'):
                return float(getattr(np, {'acos': 'arccos'}.get(numf.__name__, numf.__name__))(float(x)))
    return h


import math

_sqrt = _sym_or_num(lambda x: x.sqrt(), math.sqrt)
_cos = _sym_or_num(lambda x: x.cos(), math.cos)
_sin = _sym_or_num(lambda x: x.sin(), math.sin)
_tan = _sym_or_num(lambda x: x.tan(), math.tan)
_arccos = _sym_or_num(lambda x: x.arccos(), math.acos)
_log = _sym_or_num(lambda x: x.log(), math.log)
_exp = _sym_or_num(lambda x: x.exp(), math.exp)
_deg2rad = _sym_or_num(lambda x: x.deg2rad(), math.radians)
_rad2deg = _sym_or_num(lambda x: x.rad2deg(), math.degrees)


def _sign(x):
    if isinstance(x, SReal):
        return mk(z3.If(x.t > 0, zconst(1), z3.If(x.t < 0, zconst(-1), zconst(0))))
    return (x > 0) - (x < 0)


def _det(A):
    n = A.shape[0]
    if n == 1:
        return A[0, 0]
    if n == 2:
        return A[0, 0] * A[1, 1] - A[0, 1] * A[1, 0]
    tot = 0
    for j in range(n):
        if isinstance(A[0, j], (int, float)) and A[0, j] == 0:
            continue
        minor = np.delete(np.delete(A, 0, axis=0), j, axis=1)
        tot = tot + (-1) ** j * A[0, j] * _det(minor)
    return tot


def _inv(A):
    n = A.shape[0]
    if n > 4:
        raise EngineGap('symbolic inverse of a %dx%d matrix has no closed-form model' % (n, n))
    d = _det(A)
    cof = np.empty((n, n), dtype=object)
    for i in range(n):
        for j in range(n):
            minor = np.delete(np.delete(A, i, axis=0), j, axis=1)
            cof[i, j] = (-1) ** (i + j) * (_det(minor) if n > 1 else 1)
    ENG.used_stubs.add('np.linalg.inv := adj(A)/det(A)')
    return cof.T / d


class _Linalg(object):
    def __getattr__(self, name):
        return getattr(np.linalg, name)

    @staticmethod
    def det(A):
        if not is_sym(A):
            return np.linalg.det(_f(A))
        return _det(objarr(A))

    @staticmethod
    def inv(A):
        if not is_sym(A):
            r = np.linalg.inv(_f(A))
            return objarr(r) if ENG.active else r
        if np.ndim(A) < 2:
            raise np.linalg.LinAlgError('%d-dimensional array given. Array must be at least two-dimensional' % np.ndim(A))
        return _inv(objarr(A))

    @staticmethod
    def solve(A, B):
        if not is_sym(A) and not is_sym(B):
            r = np.linalg.solve(_f(A), _f(B))
            return objarr(r) if ENG.active else r
        ENG.used_stubs.add('np.linalg.solve := adj(A)/det(A) . B')
        return np.dot(_inv(objarr(A)), objarr(B))

    @staticmethod
    def norm(x, ord=None, axis=None, keepdims=False):
        if not is_sym(x):
            return np.linalg.norm(_f(x), ord=ord, axis=axis, keepdims=keepdims)
        if ord not in (None, 2, 'fro') or (ord == 2 and np.ndim(x) > 1 and axis is None):
            raise EngineGap('norm ord=%r' % (ord,))
        s = np.sum(x * x, axis=axis, keepdims=keepdims)
        return emap(_sqrt, s)

    @staticmethod
    def svd(M, full_matrices=True, compute_uv=True):
        if not is_sym(M):
            r = np.linalg.svd(_f(M), full_matrices=full_matrices, compute_uv=compute_uv)
            return tuple(objarr(x) for x in r) if (ENG.active and compute_uv) else r
        from . import stubs
        return stubs.svd(objarr(M), full_matrices=full_matrices, compute_uv=compute_uv)

    @staticmethod
    def eigh(K, UPLO='L'):
        if not is_sym(K):
            return np.linalg.eigh(_f(K), UPLO=UPLO)
        from . import stubs
        return stubs.eigh(objarr(K), UPLO)

    @staticmethod
    def eig(K):
        if not is_sym(K):
            return np.linalg.eig(_f(K))
        raise EngineGap('np.linalg.eig on symbolic data has no dependency contract')

    @staticmethod
    def pinv(A, *a, **k):
        if not is_sym(A):
            r = np.linalg.pinv(_f(A), *a, **k)
            return objarr(r) if ENG.active else r
        from . import stubs
        return stubs.pinv(objarr(A))


def _f(x):
    """object array of plain numbers -> float array (for real numpy)."""
    if isinstance(x, np.ndarray) and x.dtype == object:
        return x.astype(float)
    return x


_WRAP_CACHE = {}


def _wrapped(f):
    w = _WRAP_CACHE.get(f)
    if w is None:
        def w(*a, **k):
            return sa(f(*a, **k))
        w.__name__ = getattr(f, '__name__', 'np_fn')
        _WRAP_CACHE[f] = w
    return w


class NpProxy(object):
    linalg = _Linalg()

    def __getattr__(self, name):
        v = getattr(np, name)
        if callable(v) and not isinstance(v, (type, np.ufunc)):
            return _wrapped(v)
        return v

    # ----------------------------------------------------------- creation
    @staticmethod
    def _wrap_create(r, dtype):
        if ENG.active and _floaty(dtype) and isinstance(r, np.ndarray) and r.dtype != object and np.issubdtype(r.dtype, np.floating):
            return objarr(r)
        return r

    def eye(self, *a, **k):
        return self._wrap_create(np.eye(*a, **k), k.get('dtype'))

    def identity(self, n, dtype=None):
        return self._wrap_create(np.identity(n, dtype=dtype), dtype)

    def zeros(self, shape, dtype=float, order='C'):
        return self._wrap_create(np.zeros(shape, dtype=dtype, order=order), dtype)

    def ones(self, shape, dtype=None, order='C'):
        return self._wrap_create(np.ones(shape, dtype=dtype, order=order), dtype)

    def empty(self, shape, dtype=float, order='C'):
        return self._wrap_create(np.zeros(shape, dtype=dtype, order=order), dtype)

    def full(self, shape, fill_value, dtype=None, order='C'):
        if isinstance(fill_value, (SReal, SBool)) or is_sym(fill_value):
            o = np.empty(shape, dtype=object)
            o[...] = fill_value
            return o
        return self._wrap_create(np.full(shape, fill_value, dtype=dtype, order=order), dtype if dtype is not None else type(fill_value))

    def zeros_like(self, a, dtype=None, **k):
        if isinstance(a, np.ndarray) and a.dtype == object and dtype is None:
            o = np.empty(a.shape, dtype=object)
            o[...] = 0
            return o
        return np.zeros_like(a, dtype=dtype, **k)

    def ones_like(self, a, dtype=None, **k):
        if isinstance(a, np.ndarray) and a.dtype == object and dtype is None:
            o = np.empty(a.shape, dtype=object)
            o[...] = 1
            return o
        return np.ones_like(a, dtype=dtype, **k)

    def empty_like(self, a, dtype=None, **k):
        return self.zeros_like(a, dtype=dtype, **k)

    def array(self, obj, dtype=None, copy=True, **k):
        if is_sym(obj):
            if dtype is not None and not _floaty(dtype) and dtype is not object:
                # int / bool conversion of symbolic data: concretise
                return objarr(np.array(obj, dtype=object)).astype(dtype)
            return np.array(obj, dtype=object, copy=copy, **k)
        if isinstance(obj, np.ndarray) and obj.dtype == object and ENG.active and _floaty(dtype):
            return np.array(obj, dtype=object, copy=copy, **k)
        r = np.array(obj, dtype=dtype, copy=copy, **k)
        return self._wrap_create(r, dtype) if not isinstance(obj, np.ndarray) else (objarr(r) if (ENG.active and r.dtype != object and np.issubdtype(r.dtype, np.floating)) else r)

    def asarray(self, obj, dtype=None, **k):
        if isinstance(obj, np.ndarray) and obj.dtype == object and (_floaty(dtype) or dtype is object):
            if ENG.active or is_sym(obj):
                return obj
        if is_sym(obj):
            if dtype is not None and not _floaty(dtype) and dtype is not object:
                return objarr(np.array(obj, dtype=object)).astype(dtype)
            return np.array(obj, dtype=object)
        r = np.asarray(obj, dtype=dtype, **k)
        if ENG.active and r.dtype != object and np.issubdtype(r.dtype, np.floating):
            return objarr(r)
        return r

    def require(self, a, dtype=None, requirements=None, **k):
        if isinstance(a, np.ndarray) and a.dtype == object and (_floaty(dtype) or dtype is object):
            if ENG.active or is_sym(a):
                return np.require(a, dtype=object, requirements=requirements)
        r = np.require(a, dtype=dtype, requirements=requirements, **k)
        if ENG.active and r.dtype != object and np.issubdtype(r.dtype, np.floating):
            return objarr(r)
        return r

    def ascontiguousarray(self, a, dtype=None):
        if isinstance(a, np.ndarray) and a.dtype == object:
            return np.ascontiguousarray(a)
        return np.ascontiguousarray(a, dtype=dtype)

    def arange(self, *a, **k):
        if any(isinstance(x, SReal) for x in a):
            a = [int(x) if isinstance(x, SReal) else x for x in a]
        return np.arange(*a, **k)

    def linspace(self, start, stop, num=50, **k):
        if is_sym(start) or is_sym(stop):
            num = int(num)
            endpoint = k.get('endpoint', True)
            div = (num - 1) if endpoint else num
            o = np.empty(num, dtype=object)
            for i in range(num):
                o[i] = start + (stop - start) * i / div if div else start
            return o
        return np.linspace(start, stop, num, **k)

    # --------------------------------------------------- elementwise maths
    sqrt = staticmethod(_unary(np.sqrt, _sqrt))
    cos = staticmethod(_unary(np.cos, _cos))
    sin = staticmethod(_unary(np.sin, _sin))
    tan = staticmethod(_unary(np.tan, _tan))
    arccos = staticmethod(_unary(np.arccos, _arccos))
    log = staticmethod(_unary(np.log, _log))
    exp = staticmethod(_unary(np.exp, _exp))
    deg2rad = staticmethod(_unary(np.deg2rad, _deg2rad))
    rad2deg = staticmethod(_unary(np.rad2deg, _rad2deg))
    radians = deg2rad
    degrees = rad2deg
    abs = staticmethod(_unary(np.abs, sabs))
    absolute = abs
    floor = staticmethod(_unary(np.floor, sfloor))
    ceil = staticmethod(_unary(np.ceil, sceil))
    rint = staticmethod(_unary(np.rint, srint))
    sign = staticmethod(_unary(np.sign, _sign))

    def round(self, x, decimals=0, out=None):
        if not is_sym(x):
            return np.round(_f(x), decimals)
        if decimals:
            raise EngineGap('round to decimals')
        return emap(srint, x)
    around = round

    def arctan2(self, y, x):
        if not is_sym(y) and not is_sym(x):
            return np.arctan2(_f(y), _f(x))
        return emap(lambda a, b: ENG.fn_arctan2(a if isinstance(a, SReal) else mk(lift(a)) , b if isinstance(b, SReal) else mk(lift(b))), y, x)

    def maximum(self, a, b, **k):
        if not is_sym(a) and not is_sym(b):
            return np.maximum(_f(a), _f(b), **k)
        return emap(smax, a, b)

    def minimum(self, a, b, **k):
        if not is_sym(a) and not is_sym(b):
            return np.minimum(_f(a), _f(b), **k)
        return emap(smin, a, b)

    def clip(self, a, a_min, a_max, out=None):
        if not is_sym(a) and not is_sym(a_min) and not is_sym(a_max):
            return np.clip(_f(a), a_min, a_max, out=out)
        r = a
        if a_min is not None:
            r = emap(smax, r, a_min)
        if a_max is not None:
            r = emap(smin, r, a_max)
        if out is not None:
            out[...] = r
            return out
        return r

    def _reduce(self, f2, a, axis, keepdims=False):
        a = objarr(a)
        if axis is None:
            flat = list(a.flat)
            r = flat[0]
            for e in flat[1:]:
                r = f2(r, e)
            return r
        r = np.frompyfunc(f2, 2, 1).reduce(a, axis=axis, keepdims=keepdims)
        return r

    def max(self, a, axis=None, out=None, keepdims=False, **k):
        if not is_sym(a):
            return np.max(_f(a), axis=axis, keepdims=keepdims, **k)
        return self._reduce(smax, a, axis, keepdims)
    amax = max

    def min(self, a, axis=None, out=None, keepdims=False, **k):
        if not is_sym(a):
            return np.min(_f(a), axis=axis, keepdims=keepdims, **k)
        return self._reduce(smin, a, axis, keepdims)
    amin = min

    def isnan(self, x):
        if isinstance(x, np.ndarray) and x.dtype == object:
            return emap(lambda e: (e != e) if isinstance(e, float) else False, x).astype(bool)
        if isinstance(x, (SReal, SBool)):
            return False
        return np.isnan(x)

    def isfinite(self, x):
        if isinstance(x, np.ndarray) and x.dtype == object:
            return emap(lambda e: math.isfinite(e) if isinstance(e, float) else True, x).astype(bool)
        if isinstance(x, (SReal, SBool)):
            return True
        return np.isfinite(x)

    def nan_to_num(self, x, *a, **k):
        if is_sym(x):
            return x
        return np.nan_to_num(_f(x), *a, **k)

    def isreal(self, x):
        if is_sym(x):
            return np.ones(np.shape(x), dtype=bool)
        return np.isreal(x)

    # ---------------------------------------------------------- predicates
    def all(self, a, axis=None, **k):
        if not is_sym(a):
            return np.all(a, axis=axis, **k)
        if axis is not None:
            return np.frompyfunc(lambda x, y: sand(x, y), 2, 1).reduce(objarr(a), axis=axis)
        return sand(*list(objarr(a).flat))

    def any(self, a, axis=None, **k):
        if not is_sym(a):
            return np.any(a, axis=axis, **k)
        if axis is not None:
            return np.frompyfunc(lambda x, y: sor(x, y), 2, 1).reduce(objarr(a), axis=axis)
        return sor(*list(objarr(a).flat))

    def isclose(self, a, b, rtol=1e-05, atol=1e-08, equal_nan=False):
        if not is_sym(a) and not is_sym(b):
            return np.isclose(_f(a), _f(b), rtol=rtol, atol=atol, equal_nan=equal_nan)
        return emap(lambda x, y: sabs(x - y) <= atol + rtol * sabs(y), a, b)

    def allclose(self, a, b, rtol=1e-05, atol=1e-08, equal_nan=False):
        if not is_sym(a) and not is_sym(b):
            return np.allclose(_f(a), _f(b), rtol=rtol, atol=atol, equal_nan=equal_nan)
        r = self.isclose(a, b, rtol=rtol, atol=atol)
        return sand(*list(objarr(r).flat)) if isinstance(r, np.ndarray) else r

    def array_equal(self, a, b, **k):
        if not is_sym(a) and not is_sym(b):
            return np.array_equal(a, b, **k)
        a, b = objarr(a), objarr(b)
        if a.shape != b.shape:
            return False
        return sand(*[x == y for x, y in zip(a.flat, b.flat)])

    def logical_and(self, a, b, **k):
        if not is_sym(a) and not is_sym(b):
            return np.logical_and(a, b, **k)
        return emap(lambda x, y: sand(x, y), a, b)

    def logical_or(self, a, b, **k):
        if not is_sym(a) and not is_sym(b):
            return np.logical_or(a, b, **k)
        return emap(lambda x, y: sor(x, y), a, b)

    def logical_not(self, a, **k):
        if not is_sym(a):
            return np.logical_not(a, **k)
        return emap(lambda x: sreal.snot(x), a)

    def where(self, cond, *xy):
        if not is_sym(cond):
            return np.where(cond, *xy)
        if not xy:
            # indices of true elements: decide every element
            c = objarr(cond)
            b = np.empty(c.shape, dtype=bool)
            for idx in np.ndindex(*c.shape):
                b[idx] = bool(c[idx])
            return np.where(b)
        x, y = xy
        return emap(lambda c, u, v: mk(z3.If(liftb(c), lift(u), lift(v))), cond, x, y)

    # ------------------------------------------------------------ algebra
    def cross(self, a, b, **k):
        return np.cross(a, b, **k)

    def dot(self, a, b, out=None):
        if out is not None:
            out[...] = np.dot(a, b)
            return out
        return np.dot(a, b)

    def mean(self, a, axis=None, **k):
        if isinstance(a, np.ndarray) and a.dtype == object:
            n = a.size if axis is None else a.shape[axis]
            return np.sum(a, axis=axis, **k) / n
        return np.mean(a, axis=axis, **k)

    def var(self, a, axis=None, ddof=0, **k):
        if isinstance(a, np.ndarray) and a.dtype == object:
            n = a.size if axis is None else a.shape[axis]
            m = np.sum(a, axis=axis, keepdims=True) / n
            d = a - m
            return np.sum(d * d, axis=axis) / (n - ddof)
        return np.var(a, axis=axis, ddof=ddof, **k)

    def std(self, a, axis=None, ddof=0, **k):
        if isinstance(a, np.ndarray) and a.dtype == object:
            return self.sqrt(self.var(a, axis=axis, ddof=ddof))
        return np.std(a, axis=axis, ddof=ddof, **k)

    def cov(self, m, y=None, rowvar=True, bias=False, **k):
        if not is_sym(m):
            return np.cov(_f(m), y=y, rowvar=rowvar, bias=bias, **k)
        from . import stubs
        return stubs.cov(objarr(m), rowvar=rowvar, bias=bias)


def cdist(x, c, *a, **k):
    """scipy.spatial.distance.cdist, euclidean: sqrt of the squared distance."""
    from scipy.spatial.distance import cdist as real
    if not is_sym(x) and not is_sym(c):
        r = real(_f(np.asarray(x)), _f(np.asarray(c)), *a, **k)
        return objarr(r) if ENG.active else r
    if a or k:
        raise EngineGap('cdist with a non-default metric')
    x, c = objarr(x), objarr(c)
    out = np.empty((x.shape[0], c.shape[0]), dtype=object)
    ENG.used_stubs.add('scipy cdist := sqrt(sum (x-c)^2)')
    for i in range(x.shape[0]):
        for j in range(c.shape[0]):
            d = x[i] - c[j]
            out[i, j] = _sqrt(np.sum(d * d))
    return out


def _wrap_methods(cls):
    for name, v in list(vars(cls).items()):
        if name.startswith('__') or name == '_wrap_create':
            continue
        if isinstance(v, staticmethod):
            f = v.__func__
            setattr(cls, name, staticmethod((lambda _f: lambda *a, **k: sa(_f(*a, **k)))(f)))
        elif isinstance(v, types.FunctionType):
            setattr(cls, name, (lambda _f: lambda self, *a, **k: sa(_f(self, *a, **k)))(v))


def _np_nonzero(self, a):
    if _is_symmask(a) and _has_sbool(a):
        return np.nonzero(_decide_mask(np.asarray(a)))
    return np.nonzero(a)


NpProxy.nonzero = _np_nonzero
NpProxy.flatnonzero = lambda self, a: np.flatnonzero(_decide_mask(np.asarray(a)) if (_is_symmask(a) and _has_sbool(a)) else a)
_wrap_methods(NpProxy)
_wrap_methods(_Linalg)
PROXY = NpProxy()
_installed = {}
from scipy.spatial.distance import cdist as _real_cdist


def install(extra_modules=()):
    """Rebind ``np`` in every loaded menpo module to the proxy."""
    for name, mod in list(sys.modules.items()):
        if mod is None or not (name == 'menpo' or name.startswith('menpo.')):
            continue
        if getattr(mod, 'np', None) is np:
            _installed[name] = mod
            mod.np = PROXY
        if getattr(mod, 'cdist', None) is _real_cdist:
            mod.cdist = cdist
    return sorted(_installed)


def uninstall():
    for name, mod in _installed.items():
        mod.np = np
    _installed.clear()
