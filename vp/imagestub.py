"""Dependency contract for menpo.image.interpolation.scipy_interpolation
(scipy.ndimage.map_coordinates):

  result[c, k] = Sample_{order,mode,cval}(pixels[c], points[k])   pointwise,
  for an integer point inside the image it is exactly that pixel (every spline
  order interpolates its nodes), for an integer point outside the image it is
  cval (mode 'constant') or the clamped border pixel (mode 'nearest');
  for order 0 the point is first rounded to the nearest integer.
Everything else is an uninterpreted function of (channel identity, order,
mode, point coordinates) - memoised, hence functional.
"""
import numpy as np

from .sreal import ENG, SReal, SBool, EngineGap, is_sym, lift, srint, zval
from . import poly, proxy


class Recorder(object):
    """records the calls so that contracts can relate outputs to sample points"""

    def __init__(self):
        self.calls = []
        self.images = {}

    def image_id(self, pixels_c):
        k = id(pixels_c.base) if pixels_c.base is not None else id(pixels_c)
        return k


REC = Recorder()
_real = None


def _concrete(x):
    if isinstance(x, SReal):
        v = poly.const_value(x.t)
        if v is None:
            return None
        return v
    from .sreal import to_fraction
    return to_fraction(x)


def sample_stub(pixels, points_to_sample, mode='constant', order=1, cval=0.0):
    if not ENG.active or not (is_sym(pixels) or is_sym(points_to_sample)):
        px = proxy._f(pixels) if isinstance(pixels, np.ndarray) and pixels.dtype == object else pixels
        pts = proxy._f(points_to_sample) if isinstance(points_to_sample, np.ndarray) and points_to_sample.dtype == object else points_to_sample
        r = _real(px, pts, mode=mode, order=order, cval=cval)
        return proxy.objarr(r) if (ENG.active and r.dtype != bool) else r
    if mode not in ('constant', 'nearest'):
        raise EngineGap('sampling mode %r has no dependency contract' % mode)
    pts = np.asarray(points_to_sample)
    C, K = pixels.shape[0], pts.shape[0]
    shape = pixels.shape[1:]
    nd = len(shape)
    is_bool = pixels.dtype == bool
    out = np.empty((C, K), dtype=bool if is_bool else object)
    ENG.used_stubs.add('scipy_interpolation: pointwise Sample_{order,mode}(channel, point); exact at integer grid points; cval/clamp outside (DESIGN 2.3)')
    for k in range(K):
        coords = []
        for a in range(nd):
            x = pts[k, a]
            if order == 0 and isinstance(x, SReal):
                from .sreal import _int_valued
                if _int_valued(x.t):
                    x = int(x)                     # integer-valued index: concretise (forks over its values)
                # otherwise the nearest-neighbour sample stays an
                # uninterpreted function of the (unrounded) point
            cv = _concrete(x)
            coords.append((x, cv))
        if all(cv is not None for _, cv in coords) and (order == 0 or all(cv.denominator == 1 for _, cv in coords)):
            idx = [int(round(cv)) for _, cv in coords]
            inside = all(0 <= i < s for i, s in zip(idx, shape))
            if not inside and mode == 'nearest':
                idx = [min(max(i, 0), s - 1) for i, s in zip(idx, shape)]
                inside = True
            for c in range(C):
                out[c, k] = pixels[(c,) + tuple(idx)] if inside else (bool(cval) if is_bool else cval)
        else:
            if is_bool:
                raise EngineGap('sampling a boolean image at a non-grid symbolic point')
            for c in range(C):
                out[c, k] = ENG.app('Sample_o%d_%s_img%d_ch%d' % (order, mode, _img_tag(pixels), c), *[x for x, _ in coords])
    REC.calls.append(dict(points=pts, order=order, mode=mode, cval=cval, n_channels=C, shape=shape))
    return proxy.sa(out) if not is_bool else out


_TAGS = {}


def _img_tag(pixels):
    """identity of the sampled image = its content (so a copy of an image is
    the same image function)."""
    k = (pixels.shape,) + tuple(e.t.get_id() if isinstance(e, SReal) else e for e in np.asarray(pixels).flat)
    if k not in _TAGS:
        _TAGS[k] = len(_TAGS)
    return _TAGS[k]


def install():
    global _real
    import menpo.image.base as IB
    import menpo.image.patches as IP
    from menpo.image import interpolation as I
    if _real is None:
        _real = I.scipy_interpolation
    IB.scipy_interpolation = sample_stub
    IP.scipy_interpolation = sample_stub


def reset():
    del REC.calls[:]
    _TAGS.clear()
