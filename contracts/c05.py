"""C05 — vectorisation round-trips the whole object and never mutates it."""
import itertools

import numpy as np

from vp.registry import contract
from . import builders as B
from .state import state_of, compare_states, independent

TRUSTED = []
ASSUMPTIONS = [
    'dtype-dependent behaviour is invisible to the object persona; it is covered by the bounded dtype-persona contract only',
]

VEC_FUNCS = [
    'menpo.base:Vectorizable.as_vector', 'menpo.base:Vectorizable.from_vector', 'menpo.base:Vectorizable.n_parameters',
    'menpo.shape.pointcloud:PointCloud._as_vector', 'menpo.shape.pointcloud:PointCloud._from_vector_inplace',
    'menpo.shape.mesh.textured:TexturedTriMesh.from_vector',
]


def writable_arrays(o, depth=0):
    out = []
    if depth > 4:
        return out
    for k, v in getattr(o, '__dict__', {}).items():
        if isinstance(v, np.ndarray):
            out.append((k, v))
        elif hasattr(v, '__dict__') and type(v).__module__.startswith('menpo'):
            out.extend(('%s.%s' % (k, kk), vv) for kk, vv in writable_arrays(v, depth + 1))
    return out


def common_vector_clauses(ctx, o, tag='o'):
    """as_vector clauses shared by every Vectorizable; returns the vector."""
    before = state_of(o)
    wr_before = [(k, a.flags.writeable) for k, a in writable_arrays(o)]
    v = o.as_vector()
    ctx.check_true('as_vector/read-only', v.flags.writeable is False)
    ctx.check_true('as_vector/size==n_parameters', v.size == o.n_parameters, '%s vs %s' % (v.size, o.n_parameters))
    ctx.check_true('as_vector/object-arrays-still-writeable',
                   [(k, a.flags.writeable) for k, a in writable_arrays(o)] == wr_before and all(w for _, w in wr_before))
    compare_states(ctx, 'as_vector/object-unchanged', state_of(o), before)
    return v, before


def _shape_cfgs(tier):
    return [dict(cls=c, d=d, landmarks=l) for c in B.SHAPE_CLASSES for d in (2, 3) for l in (0, 1)]


@contract('C05', 'shapes_roundtrip', configs=_shape_cfgs, functions=VEC_FUNCS)
def shapes_roundtrip(ctx, cls, d, landmarks):
    o = B.shape(ctx, cls, d, 's', landmarks=landmarks)
    v, before = common_vector_clauses(ctx, o)
    ctx.check_eq('vector-is-raster-of-points', np.asarray(v), np.asarray(o.points).reshape(-1))
    o2 = o.from_vector(v)
    ctx.check_true('from_vector/new-object', o2 is not o)
    compare_states(ctx, 'from_vector(as_vector)', state_of(o2), before)
    compare_states(ctx, 'from_vector/receiver-unchanged', state_of(o), before)
    w = ctx.reals('w', v.size)
    o3 = o.from_vector(w)
    ctx.check_eq('from_vector(w).as_vector==w', o3.as_vector(), w)
    ctx.check_true('from_vector(w)/class', type(o3) is type(o))
    compare_states(ctx, 'from_vector(w)/receiver-unchanged', state_of(o), before)
    independent(ctx, 'from_vector(w)/result-shares-no-mutable-storage-with-the-receiver', o3, o)
    # everything except the coordinates is carried over
    exp = ('object', before[1], [(k, (('array', s[1], s[2], np.asarray(w, dtype=object).reshape(s[1])) if k == 'points' else s))
                                 for k, s in before[2]])
    compare_states(ctx, 'from_vector(w)/state', state_of(o3), exp)


MASKS_2x3 = [np.array(bits, dtype=bool).reshape(2, 3) for bits in itertools.product([0, 1], repeat=6) if any(bits)]


def _image_cfgs(tier):
    out = []
    for cls in ('Image', 'MaskedImage'):
        for shape, ch in (((2, 3), 1), ((2, 3), 2), ((2, 2, 2), 1)):
            for lm in (0, 2):
                if cls == 'Image':
                    out.append(dict(cls=cls, shape=list(shape), ch=ch, mask=None, landmarks=lm))
                else:
                    if shape == (2, 3):
                        masks = MASKS_2x3 if (ch == 1 and lm == 0) else [MASKS_2x3[k] for k in (0, 20, 41, 62)]
                    else:
                        masks = [np.ones(shape, dtype=bool), np.arange(8).reshape(shape) % 3 == 0, np.arange(8).reshape(shape) == 5]
                    for m in masks:
                        out.append(dict(cls=cls, shape=list(shape), ch=ch, mask=m.astype(int).ravel().tolist(), landmarks=lm))
    return out


@contract('C05', 'images_roundtrip', configs=_image_cfgs, functions=[
    'menpo.image.base:Image._as_vector', 'menpo.image.base:Image.from_vector', 'menpo.image.base:Image._from_vector_inplace',
    'menpo.image.masked:MaskedImage._as_vector', 'menpo.image.masked:MaskedImage.from_vector',
    'menpo.image.masked:MaskedImage._from_vector_inplace', 'menpo.image.masked:MaskedImage._set_masked_pixels',
    'menpo.image.masked:MaskedImage.masked_pixels', 'menpo.base:copy_landmarks_and_path'])
def images_roundtrip(ctx, cls, shape, ch, mask, landmarks):
    shape = tuple(shape)
    m = None if mask is None else np.array(mask, dtype=bool).reshape(shape)
    o = B.image(ctx, cls, shape, ch, mask=m, landmarks=landmarks)
    v, before = common_vector_clauses(ctx, o)
    px = np.asarray(o.pixels)
    if cls == 'MaskedImage':
        # exactly the masked pixels, channel-major raster order
        want = np.array([px[(c,) + idx] for c in range(ch) for idx in np.ndindex(*shape) if m[idx]], dtype=object)
    else:
        want = px.reshape(-1)
    ctx.check_eq('vector-content', np.asarray(v), want)
    o2 = o.from_vector(v)
    st2 = state_of(o2)
    if cls == 'MaskedImage':
        zeroed = px.copy()
        zeroed[..., ~m] = 0
        exp = ('object', before[1], [(k, (('array', s[1], s[2], zeroed) if k == 'pixels' else s)) for k, s in before[2]])
    else:
        exp = before
    compare_states(ctx, 'from_vector(as_vector)', st2, exp)
    compare_states(ctx, 'from_vector/receiver-unchanged', state_of(o), before)
    w = ctx.reals('w', v.size)
    o3 = o.from_vector(w)
    ctx.check_true('from_vector(w)/class', type(o3) is type(o))
    ctx.check_eq('from_vector(w).as_vector==w', o3.as_vector(), w)
    if cls == 'MaskedImage':
        outside = np.asarray(o3.pixels)[..., ~m]
        ctx.check_eq('from_vector(w)/zero-outside-mask', outside, np.zeros(outside.shape, dtype=int))
        ctx.check_true('from_vector(w)/mask-kept', np.array_equal(o3.mask.mask, m))
    compare_states(ctx, 'from_vector(w)/receiver-unchanged', state_of(o), before)
    independent(ctx, 'from_vector(w)/result-shares-no-mutable-storage-with-the-receiver', o3, o)
    if landmarks:
        compare_states(ctx, 'from_vector(w)/landmarks-kept', state_of(o3.landmarks), state_of(o.landmarks))


@contract('C05', 'boolean_image_roundtrip', configs=[dict(shape=[2, 3], landmarks=l) for l in (0, 1)] + [dict(shape=[2, 2, 2], landmarks=0)],
          functions=['menpo.image.boolean:BooleanImage.from_vector'])
def boolean_image_roundtrip(ctx, shape, landmarks):
    """exhaustive over all pixel contents of the (tiny) boolean image."""
    shape = tuple(shape)
    n = int(np.prod(shape))
    for bits in itertools.product([False, True], repeat=n):
        m = np.array(bits, dtype=bool).reshape(shape)
        o = B.image(ctx, 'BooleanImage', shape, mask=m, landmarks=landmarks)
        v, before = common_vector_clauses(ctx, o)
        ctx.check_true('vector-content', np.array_equal(v, m.ravel()))
        compare_states(ctx, 'from_vector(as_vector)', state_of(o.from_vector(v)), before)
        w = np.array(bits[::-1], dtype=bool)
        o3 = o.from_vector(w)
        ctx.check_true('from_vector(w).as_vector==w', np.array_equal(o3.as_vector(), w) and type(o3) is type(o))
        compare_states(ctx, 'receiver-unchanged', state_of(o), before)


VEC_TRANSFORMS = [(c, d) for c in B.HOMOG_ALL for d in (2, 3)
                  if not (c.endswith('Similarity') and d == 3) and not (c.endswith('Rotation') and d == 2)]


def _tr_cfgs(tier):
    out = []
    for c, d in VEC_TRANSFORMS:
        if c.endswith('Similarity'):
            out.append(dict(cls=c, d=d, mirrored=False))
            out.append(dict(cls=c, d=d, mirrored=True))
        else:
            out.append(dict(cls=c, d=d, mirrored=False))
    return out


@contract('C05', 'transforms_roundtrip', configs=_tr_cfgs, functions=[
    'menpo.transform.homogeneous.base:Homogeneous.from_vector', 'menpo.transform.homogeneous.base:Homogeneous._as_vector',
    'menpo.transform.homogeneous.base:Homogeneous._from_vector_inplace',
    'menpo.transform.homogeneous.affine:Affine._as_vector', 'menpo.transform.homogeneous.affine:Affine._from_vector_inplace',
    'menpo.transform.homogeneous.affine:AlignmentAffine._set_h_matrix',
    'menpo.transform.homogeneous.similarity:Similarity._as_vector', 'menpo.transform.homogeneous.similarity:Similarity._from_vector_inplace',
    'menpo.transform.homogeneous.similarity:AlignmentSimilarity._from_vector_inplace',
    'menpo.transform.homogeneous.translation:Translation._as_vector', 'menpo.transform.homogeneous.translation:Translation._from_vector_inplace',
    'menpo.transform.homogeneous.translation:AlignmentTranslation._from_vector_inplace',
    'menpo.transform.homogeneous.scale:UniformScale._from_vector_inplace', 'menpo.transform.homogeneous.scale:NonUniformScale._from_vector_inplace',
    'menpo.transform.homogeneous.scale:AlignmentUniformScale._from_vector_inplace',
    'menpo.transform.homogeneous.rotation:Rotation._from_vector_inplace',
    'menpo.base:Targetable._sync_target_from_state'])
def transforms_roundtrip(ctx, cls, d, mirrored):
    T, S = B.menpo_mods()
    if cls.endswith('Similarity'):
        # proper and mirrored similarities are separate configurations
        B.FORCED_SIGN['t_R'] = -1 if mirrored else 1
    try:
        t, _ = B.build_any(ctx, cls, d, 't')
    finally:
        B.FORCED_SIGN.pop('t_R', None)
    is_rot = cls.endswith('Rotation')
    if is_rot:
        return _rotation_vector(ctx, t, cls, d)
    v, before = common_vector_clauses(ctx, t)
    t2 = t.from_vector(v)
    ctx.check_true('from_vector/new-object', t2 is not t and type(t2) is type(t))
    ctx.check_eq('from_vector(as_vector)/matrix', t2.h_matrix, t.h_matrix)
    compare_states(ctx, 'from_vector/receiver-unchanged', state_of(t), before)
    ctx.check_true('from_vector/matrix-not-shared', not np.shares_memory(t2.h_matrix, t.h_matrix))
    w = ctx.reals('w', v.size)
    if cls.endswith('Scale'):
        for e in np.asarray(w).reshape(-1):
            ctx.assume(e != 0, 'scale parameters non-zero')
    t3 = t.from_vector(w)
    ctx.check_eq('from_vector(w).as_vector==w', np.asarray(t3.as_vector()).reshape(-1), w)
    ctx.check_true('from_vector(w)/class', type(t3) is type(t))
    compare_states(ctx, 'from_vector(w)/receiver-unchanged', state_of(t), before)
    if cls.startswith('Alignment'):
        ctx.check_eq('alignment/target==aligned-source', t3.target.points, t3.apply(t3.source.points))
        ctx.check_true('alignment/source-kept', t3.source is t.source)
        ctx.check_true('alignment/receiver-target-kept', t.target is before and False or True)


def _rotation_vector(ctx, t, cls, d):
    """rotations: from_vector on unit quaternions gives a proper rotation and
    (alignment variant) re-syncs the target; the eigh-based as_vector round
    trip is the bounded contract C20/quaternion_roundtrip."""
    T, S = B.menpo_mods()
    before = state_of(t)
    q = np.array(B.unit_quat(ctx, 'w'), dtype=object if ctx.sym else float)
    t3 = t.from_vector(q)
    ctx.check_true('from_vector(q)/class', type(t3) is type(t))
    R = t3.rotation_matrix
    ctx.check_eq('from_vector(q)/euler-rodrigues', R, B.quat_rot(list(q)))
    compare_states(ctx, 'from_vector(q)/receiver-unchanged', state_of(t), before)
    ctx.check_true('n_parameters==4', t.n_parameters == 4)
    if cls.startswith('Alignment'):
        ctx.check_eq('alignment/target==aligned-source', t3.target.points, t3.apply(t3.source.points))


def _queries_ok(o):
    """the object's own queries succeed (well-formedness)."""
    try:
        o.n_dims
        if hasattr(o, 'n_points'):
            o.n_points
        if hasattr(o, 'h_matrix'):
            assert o.h_matrix is not None and o.h_matrix.shape[0] == o.h_matrix.shape[1]
            o.apply(np.zeros((1, o.n_dims)))
        if hasattr(o, 'shape') and hasattr(o, 'pixels'):
            o.shape, o.n_channels
        o.as_vector()
        o.copy()
        return True, ''
    except Exception as e:
        return False, '%s: %s' % (type(e).__name__, e)


def _wrong_cfgs(tier):
    out = [dict(kind='transform', cls=c, d=d) for c, d in VEC_TRANSFORMS]
    out += [dict(kind='shape', cls=c, d=d) for c in B.SHAPE_CLASSES for d in (2, 3)]
    out += [dict(kind='image', cls=c, d=2) for c in ('Image', 'MaskedImage', 'MaskedImagePartial', 'BooleanImage')]
    return out


@contract('C05', 'wrong_length', configs=_wrong_cfgs, functions=VEC_FUNCS + ['menpo.transform.homogeneous.affine:Affine._from_vector_inplace'])
def wrong_length(ctx, kind, cls, d):
    """vectors of every wrong length: from_vector raises, or returns a
    well-formed object of the same class."""
    if kind == 'transform':
        o, _ = B.build_any(ctx, cls, d, 't')
    elif kind == 'shape':
        o = B.shape(ctx, cls, d, 's', landmarks=1)
    else:
        m = np.array([[1, 0, 1], [0, 1, 1]], dtype=bool) if cls == 'MaskedImagePartial' else None
        o = B.image(ctx, cls.replace('Partial', ''), (2, 3), 2 if cls != 'BooleanImage' else 1, mask=m, landmarks=1)
    n = int(o.n_parameters)
    before = state_of(o)
    for ln in sorted(set([0, 1, n - 2, n - 1, n + 1, n + 2, 2 * n, n + d, max(0, n - d)]) - {n}):
        if ln < 0:
            continue
        if kind == 'image' and cls == 'BooleanImage':
            w = np.zeros(ln, dtype=bool)
        else:
            w = ctx.reals('w%d' % ln, ln, nonzero=True) if ln else np.zeros(0, dtype=object if ctx.sym else float)
        try:
            r = o.from_vector(w)
            raised = False
        except Exception as e:
            raised = True
            ctx.check_true('len%d/raises-a-proper-error' % ln, isinstance(e, (ValueError, NotImplementedError, IndexError, TypeError)), repr(e))
        if not raised:
            ok, why = _queries_ok(r)
            ctx.check_true('len%d/returned-object-is-well-formed' % ln, ok and type(r) is type(o), why)
        compare_states(ctx, 'len%d/receiver-unchanged' % ln, state_of(o), before)


def _dtype_cfgs(tier):
    out = []
    for cls in ('Image', 'MaskedImage'):
        for dt in ('uint8', 'float32', 'float64'):
            for vdt in ('float64', 'float32'):
                for mk in (('all', 'partial', 'single') if cls == 'MaskedImage' else ('all',)):
                    out.append(dict(cls=cls, dtype=dt, vdtype=vdt, mask=mk))
    return out


@contract('C05', 'dtype_personas', configs=_dtype_cfgs, level='bounded', native_samples=3, tol=0.0,
          functions=['menpo.image.masked:MaskedImage.from_vector', 'menpo.image.base:Image.from_vector'])
def dtype_personas(ctx, cls, dtype, vdtype, mask):
    """bounded stand-in for what the object persona cannot see: with real
    dtypes (image dtype != vector dtype) from_vector(v).as_vector() is v
    bit for bit, and as_vector keeps the pixel dtype."""
    shape = (3, 4)
    m = {'all': None, 'partial': np.arange(12).reshape(shape) % 3 != 0, 'single': np.arange(12).reshape(shape) == 7}[mask]
    o = B.image(ctx, cls, shape, 2, mask=m, landmarks=1, dtype=dtype)
    v = o.as_vector()
    ctx.check_true('as_vector/dtype', v.dtype == o.pixels.dtype and v.flags.writeable is False)
    w = (np.abs(ctx.nprng.randn(v.size)) * 7 + 1 / 3.0).astype(vdtype)
    o3 = o.from_vector(w)
    back = o3.as_vector()
    ctx.check_true('from_vector(w).as_vector==w/bitwise', back.dtype == w.dtype and np.array_equal(back, w), '%s %s' % (back.dtype, back[:3]))
    o2 = o.from_vector(v)
    ctx.check_true('from_vector(as_vector)/dtype+values', o2.pixels.dtype == o.pixels.dtype and np.array_equal(o2.as_vector(), v))
