"""C18 — features agree on arrays and images and keep annotations attached."""
import numpy as np

from vp.registry import contract
from . import builders as B
from .state import state_of, compare_states, shared_storage

TRUSTED = []
ASSUMPTIONS = [
    'the opaque feature stands for every feature that is a pure function of its pixel array; the values computed by gradient/IGO/ES/DAISY/Gaussian (numpy/scipy/skimage numerics) are not claimed, only purity and attachment (bounded)',
]


def _opaque_feature(ctx, kind):
    """a pure function of the pixel array, wrapped by the REAL decorators"""
    from menpo.feature.base import ndfeature, winitfeature
    from vp.sreal import ENG

    def G(px, tag):
        px = np.asarray(px)
        if ctx.sym:
            out = np.empty(px.shape, dtype=object)
            for idx in np.ndindex(*px.shape):
                out[idx] = ENG.app('feat_%s' % tag, px[idx])
            return out
        return np.sin(px * 1.7) + 0.3 * px

    if kind == 'same-size':
        @ndfeature
        def f(pixels):
            return G(pixels, 'a')
    elif kind == 'new-size':
        @ndfeature
        def f(pixels):
            g = G(pixels, 'a')
            return np.concatenate([g[:, :-1, ::2], G(pixels, 'b')[:, :-1, ::2]], axis=0)
    else:
        @winitfeature
        def f(pixels):
            g = G(pixels, 'a')
            rows = np.arange(1, pixels.shape[1], 2)
            cols = np.arange(0, pixels.shape[2], 2)
            centres = np.stack(np.meshgrid(rows, cols, indexing='ij'), axis=2)
            return g[:, centres[..., 0], centres[..., 1]], centres
    return f, G


@contract('C18', 'feature_wrappers', configs=[dict(kind=k, cls=c, lms=l) for k in ('same-size', 'new-size', 'with-centres')
                                              for c in ('Image', 'MaskedImage') for l in (0, 2)], functions=[
    'menpo.feature.base:ndfeature', 'menpo.feature.base:imgfeature', 'menpo.feature.base:winitfeature',
    'menpo.feature.base:rebuild_feature_image', 'menpo.feature.base:rebuild_feature_image_with_centres',
    'menpo.feature.base:lm_centres_correction', 'menpo.feature.base:sample_mask_for_centres'])
def feature_wrappers(ctx, kind, cls, lms):
    """an arbitrary pure feature through the real decorators."""
    from menpo.image import Image, MaskedImage
    shape = (4, 5)
    m = (np.arange(20).reshape(shape) % 3 != 1) if cls == 'MaskedImage' else None
    img = B.image(ctx, cls, shape, 2, mask=m, landmarks=lms)
    before = state_of(img)
    f, G = _opaque_feature(ctx, kind)
    px = np.asarray(img.pixels)
    raw = f(np.array(px, dtype=object if ctx.sym else float, copy=True))
    out = f(img)
    ctx.check_eq('array-call==image-call', out.pixels, raw)
    ctx.check_true('masked-iff-input-masked', isinstance(out, MaskedImage) == (cls == 'MaskedImage') and isinstance(out, Image))
    compare_states(ctx, 'input-unchanged', state_of(img), before)
    if kind == 'same-size':
        ctx.check_eq('values', out.pixels, G(px, 'a'))
        ctx.check_true('same-shape', out.shape == img.shape)
        if lms:
            compare_states(ctx, 'landmarks-unchanged', state_of(out.landmarks), state_of(img.landmarks))
            ctx.check_true('landmarks-owned-copy', not shared_storage(out.landmarks, img.landmarks))
        if cls == 'MaskedImage':
            ctx.check_true('mask-unchanged', np.array_equal(out.mask.mask, img.mask.mask))
            ctx.check_true('mask-owned-copy', not np.shares_memory(out.mask.pixels, img.mask.pixels))
    elif kind == 'new-size':
        new_shape = (3, 3)
        ctx.check_true('new-shape', out.shape == new_shape and out.n_channels == 4)
        sf = np.array(new_shape) / np.array(shape)
        for g in img.landmarks:
            ctx.check_eq('landmarks-rescaled-to-new-size[%s]' % g, out.landmarks[g].points, np.asarray(img.landmarks[g].points) * sf)
        if cls == 'MaskedImage':
            ctx.check_true('mask-resized-to-new-size', np.array_equal(out.mask.mask, img.mask.resize(new_shape).mask))
    else:
        rows, cols = np.arange(1, 4, 2), np.arange(0, 5, 2)
        ctx.check_true('new-shape', out.shape == (len(rows), len(cols)))
        for g in img.landmarks:
            want = (np.asarray(img.landmarks[g].points) - np.array([rows[0], cols[0]])) / np.array([rows[1] - rows[0], cols[1] - cols[0]])
            ctx.check_eq('landmarks-follow-the-centres-grid[%s]' % g, out.landmarks[g].points, want)
        if cls == 'MaskedImage':
            ctx.check_true('mask-sampled-at-centres', np.array_equal(out.mask.mask, img.mask.mask[np.ix_(rows, cols)]))
    ctx.check_true('landmark-groups-kept', list(out.landmarks) == list(img.landmarks))


def _norm_cfgs(tier):
    out = []
    for fn in ('normalize_std', 'normalize_norm', 'normalize_var'):
        for mode in ('all', 'per_channel'):
            for cls in ('array', 'Image', 'MaskedImage'):
                for ch in (1, 2):
                    out.append(dict(fn=fn, mode=mode, cls=cls, ch=ch))
    return out


@contract('C18', 'normalisers', configs=_norm_cfgs, max_paths=64, functions=[
    'menpo.feature.features:normalize', 'menpo.feature.features:normalize_std', 'menpo.feature.features:normalize_norm',
    'menpo.feature.features:normalize_var'])
def normalisers(ctx, fn, mode, cls, ch):
    """zero-mean data divided by the requested scale statistic; unit std /
    norm; idempotent; a zero scale is refused or skipped, never non-finite."""
    import menpo.feature as F
    from vp.sreal import ENG
    f = getattr(F, fn)
    shape = (2, 2)
    m = np.array([[1, 1], [0, 1]], dtype=bool) if cls == 'MaskedImage' else None
    if cls == 'array':
        x = ctx.reals('x', (ch,) + shape)
        data = np.asarray(x)
    else:
        x = B.image(ctx, cls, shape, ch, mask=m, landmarks=1)
        # the normalisers are ndfeatures: they act on the whole pixel array
        data = np.asarray(x.pixels).reshape(ch, -1)
    before = state_of(x) if cls != 'array' else np.array(x, dtype=object, copy=True)
    flat = data.reshape(ch, -1)

    def stat(c):
        n = c.size if mode == 'all' else c.shape[1]
        ss = np.sum(c * c) if mode == 'all' else np.sum(c * c, axis=1)
        if fn == 'normalize_norm':
            return ss
        return ss / n                      # variance

    mean = np.sum(flat) / flat.size if mode == 'all' else (np.sum(flat, axis=1) / flat.shape[1]).reshape(-1, 1)
    centred = flat - mean
    s2 = stat(centred)                                        # squared scale (norm^2 or variance)
    zero = (s2 == 0) if mode == 'all' else None
    try:
        r = f(x, mode=mode)
        raised = False
    except ValueError as e:
        # only the documented refusal counts; any other ValueError (e.g. a numpy routine that cannot take the engine's
        # symbolic arrays) goes to the engine's crash triage: violation iff it also raises natively, otherwise an engine gap
        if 'scale factor' not in str(e):
            raise
        raised = True
    if mode == 'all':
        is_zero = bool(s2 == 0)
    else:
        is_zero = any(bool(e == 0) for e in np.asarray(s2).reshape(-1))
    if is_zero:
        ctx.check_true('zero-scale-refused', raised)
        r2 = f(x, mode=mode, error_on_divide_by_zero=False)
        v2 = np.asarray(r2 if cls == 'array' else r2.pixels).reshape(ch, -1)
        zs = np.array([bool(s2 == 0)] * ch) if mode == 'all' else np.array([bool(e == 0) for e in np.asarray(s2).reshape(-1)])
        for c in range(ch):
            if zs[c]:
                ctx.check_eq('zero-scale-skipped/channel%d-left-centred-and-finite' % c, v2[c], centred[c])
        return
    ctx.check_true('returns-normally', not raised)
    v = np.asarray(r if cls == 'array' else r.pixels).reshape(ch, -1)
    # result^2 * scale^2 == centred^2  and same sign: i.e. result == centred / scale with scale = +sqrt(s2) (std or norm) resp. s2 (var)
    if fn == 'normalize_var':
        ctx.check_eq('result==(x-mean)/variance', v * s2 if mode == 'all' else v * np.asarray(s2).reshape(-1, 1), centred)
    else:
        sc = ctx.sqrt(s2) if mode == 'all' else np.array([ctx.sqrt(e) for e in np.asarray(s2).reshape(-1)], dtype=object if ctx.sym else float).reshape(-1, 1)
        ctx.check_eq('result==(x-mean)/scale', v * sc, centred, tol=1e-6)
    vm = np.sum(v) / v.size if mode == 'all' else np.sum(v, axis=1) / v.shape[1]
    ctx.check_eq('zero-mean', vm, np.zeros(np.shape(vm), dtype=int) if np.ndim(vm) else 0, tol=1e-7)
    if fn != 'normalize_var':
        ctx.check_eq('unit-%s' % ('norm' if fn == 'normalize_norm' else 'std'), stat(v - (vm if mode == 'all' else np.asarray(vm).reshape(-1, 1))),
                     np.ones(ch, dtype=int) if mode != 'all' else 1, tol=1e-6)
        rr = f(r, mode=mode)
        vv = np.asarray(rr if cls == 'array' else rr.pixels).reshape(ch, -1)
        ctx.check_eq('second-application-changes-nothing', vv, v, tol=1e-6)
    if cls != 'array':
        ctx.check_true('kind-kept', type(r) is type(x))
        compare_states(ctx, 'landmarks-kept', state_of(r.landmarks), state_of(x.landmarks))
        if cls == 'MaskedImage':
            ctx.check_true('mask-kept', np.array_equal(r.mask.mask, x.mask.mask))
        compare_states(ctx, 'input-unchanged', state_of(x), before)
    else:
        ctx.check_eq('input-unchanged', x, before)


FEATS = ['gradient', 'gaussian_filter', 'igo', 'igo_double', 'es', 'daisy', 'daisy_small_step', 'no_op', 'normalize_std', 'normalize_norm',
         'igo_of_gradient']


@contract('C18', 'concrete_features_native', level='bounded', native_samples=2, tol=1e-9,
          configs=[dict(feat=ft, cls=c, dtype=dt) for ft in FEATS for c in ('Image', 'MaskedImage') for dt in ('float64', 'float32')],
          functions=['menpo.feature.features:gradient', 'menpo.feature.features:gaussian_filter', 'menpo.feature.features:igo',
                     'menpo.feature.features:es', 'menpo.feature.features:daisy', 'menpo.feature.features:no_op'])
def concrete_features_native(ctx, feat, cls, dtype):
    """bounded stand-in: each exported feature is pure (input bit-identical
    afterwards), gives the same values on a raw array and on an image, keeps
    the masked-or-not kind and carries landmarks and mask (unchanged when the
    size is kept, rescaled otherwise)."""
    import menpo.feature as F
    from menpo.image import Image, MaskedImage
    T, S = B.menpo_mods()
    rs = ctx.nprng
    shape = (rs.randint(24, 34), rs.randint(24, 34)) if feat.startswith('daisy') else (rs.randint(5, 12), rs.randint(5, 12))
    ch = rs.randint(1, 5)
    data = rs.rand(ch, *shape).astype(dtype)
    img = Image(data.copy()) if cls == 'Image' else MaskedImage(data.copy(), mask=rs.rand(*shape) > 0.2)
    img.landmarks['a'] = S.PointCloud(np.array([rs.uniform(1, s - 2, size=3) for s in shape]).T)
    fns = {'gradient': F.gradient, 'gaussian_filter': lambda x: F.gaussian_filter(x, 1.3), 'igo': F.igo,
           'igo_double': lambda x: F.igo(x, double_angles=True), 'es': F.es,
           'daisy': lambda x: F.daisy(x, step=4, radius=6, rings=2, histograms=2, orientations=4),
           'daisy_small_step': lambda x: F.daisy(x, step=2, radius=5, rings=1, histograms=3, orientations=2),
           'no_op': F.no_op, 'normalize_std': F.normalize_std, 'normalize_norm': lambda x: F.normalize_norm(x, mode='per_channel'),
           'igo_of_gradient': lambda x: F.igo(F.gradient(x))}
    f = fns[feat]
    px0 = img.pixels.copy()
    mk0 = img.mask.mask.copy() if cls == 'MaskedImage' else None
    lm0 = img.landmarks['a'].points.copy()
    out = f(img)
    raw = f(data.copy()) if not feat.startswith('normalize') or cls == 'Image' else None
    ctx.check_true('input-pixels-bit-identical', np.array_equal(img.pixels, px0))
    ctx.check_true('input-landmarks-untouched', np.array_equal(img.landmarks['a'].points, lm0))
    if mk0 is not None:
        ctx.check_true('input-mask-untouched', np.array_equal(img.mask.mask, mk0))
    ctx.check_true('kind-kept', type(out) is type(img))
    if raw is not None and (cls == 'Image' or not feat.startswith('normalize')):
        ctx.check_true('array-call==image-call', out.pixels.shape == raw.shape and np.array_equal(np.nan_to_num(out.pixels), np.nan_to_num(raw)))
    ctx.check_true('landmarks-attached', list(out.landmarks) == ['a'])
    if out.shape == img.shape:
        ctx.check_eq('same-size/landmarks-unchanged', out.landmarks['a'].points, lm0)
        if mk0 is not None:
            ctx.check_true('same-size/mask-unchanged', np.array_equal(out.mask.mask, mk0))
    else:
        ctx.check_true('new-size/landmarks-inside-new-frame', bool(np.all(out.landmarks['a'].points >= -1) and np.all(out.landmarks['a'].points <= np.array(out.shape))))
        if mk0 is not None:
            ctx.check_true('new-size/mask-has-new-shape', out.mask.shape == out.shape)
