"""Input builders shared by the contracts: instances of menpo classes whose
parameters are symbolic (mode 'sym') or drawn floats (mode 'native'),
constrained by the *class invariant* ("honest" predicate) of the class.
"""
import numpy as np

from vp.sreal import ENG


def menpo_mods():
    import menpo  # noqa
    import menpo.transform as T
    import menpo.shape as S
    return T, S


HOMOG_BASE = ['Homogeneous', 'Affine', 'Similarity', 'Rotation', 'Translation', 'UniformScale', 'NonUniformScale']
HOMOG_ALIGN = ['AlignmentAffine', 'AlignmentSimilarity', 'AlignmentRotation', 'AlignmentTranslation',
               'AlignmentUniformScale']
HOMOG_ALL = HOMOG_BASE + HOMOG_ALIGN


def det(A):
    from vp.proxy import _det, objarr
    if A.dtype == object:
        return _det(A)
    return float(np.linalg.det(A.astype(float)))


FORCED_SIGN = {}


def rot2(ctx, tag):
    """All of O(2): rotation by (c,s) times diag(1, sg), sg^2 = 1."""
    c, s = ctx.unit2(tag)
    sg = FORCED_SIGN.get(tag, None)
    if sg is None:
        sg = sign(ctx, tag + '_sg')
    R = np.empty((2, 2), dtype=object if ctx.sym else float)
    R[0, 0], R[0, 1], R[1, 0], R[1, 1] = c, -s * sg, s, c * sg
    return R


def sign(ctx, name):
    if ctx.sym:
        sg = ENG.real(name)
        ENG.assume(sg * sg == 1, 'sign %s' % name)
        return sg
    if name in ctx.model:
        v = 1.0 if float(ctx.model[name]) >= 0 else -1.0
    else:
        v = ctx.rng.choice([1.0, -1.0])
    ctx.drawn[name] = v
    return v


def quat_rot(q):
    """Euler-Rodrigues matrix of a *unit* quaternion (w,x,y,z)."""
    w, x, y, z = q
    R = np.empty((3, 3), dtype=object if any(hasattr(e, 't') for e in q) else float)
    R[0, 0] = 1 - 2 * (y * y + z * z); R[0, 1] = 2 * (x * y - z * w); R[0, 2] = 2 * (x * z + y * w)
    R[1, 0] = 2 * (x * y + z * w); R[1, 1] = 1 - 2 * (x * x + z * z); R[1, 2] = 2 * (y * z - x * w)
    R[2, 0] = 2 * (x * z - y * w); R[2, 1] = 2 * (y * z + x * w); R[2, 2] = 1 - 2 * (x * x + y * y)
    return R


def unit_quat(ctx, tag):
    if ctx.sym:
        q = [ENG.real('%s_q%d' % (tag, i)) for i in range(4)]
        ENG.assume(q[0] * q[0] + q[1] * q[1] + q[2] * q[2] + q[3] * q[3] == 1, 'unit quaternion %s' % tag)
        return q
    names = ['%s_q%d' % (tag, i) for i in range(4)]
    if all(n in ctx.model for n in names):
        q = np.array([float(ctx.model[n]) for n in names])
    else:
        q = np.array([ctx.rng.gauss(0, 1) for _ in range(4)])
    q = q / np.linalg.norm(q)
    for n, v in zip(names, q):
        ctx.drawn[n] = float(v)
    return list(q)


def rot3(ctx, tag):
    """All of O(3): sg * R(q), |q| = 1, sg^2 = 1."""
    q = unit_quat(ctx, tag)
    sg = sign(ctx, tag + '_sg')
    return quat_rot(q) * sg


def orth(ctx, d, tag):
    return rot2(ctx, tag) if d == 2 else rot3(ctx, tag)


def cloud(ctx, name, n, d, **kw):
    _, S = menpo_mods()
    return S.PointCloud(ctx.reals(name, (n, d), **kw), copy=False)


def h_from(L, t):
    d = L.shape[0]
    H = np.zeros((d + 1, d + 1), dtype=L.dtype if L.dtype == object else float)
    if H.dtype == object:
        H[...] = 0
    H[:d, :d] = L
    H[:d, d] = t
    H[d, d] = 1
    return H


def build(ctx, cls_name, d, tag, n_align_pts=None):
    """Instance of a homogeneous-family class with generic parameters.
    Returns (transform, info) where info['linear'] etc. are the generators.
    For alignment classes the instance is obtained by constructing a base
    instance and grafting it (``__dict__`` surgery is avoided: we construct the
    alignment through its own constructor on generic source/target)."""
    T, S = menpo_mods()
    info = {}
    if cls_name == 'Homogeneous':
        H = ctx.reals(tag + '_H', (d + 1, d + 1))
        dd = det(H)
        ctx.assume(dd != 0, 'det %s != 0' % tag)
        info['det'] = dd
        return T.Homogeneous(H), info
    if cls_name == 'Affine':
        L = ctx.reals(tag + '_L', (d, d))
        t = ctx.reals(tag + '_t', d)
        dd = det(L)
        ctx.assume(dd != 0, 'det %s != 0' % tag)
        info['det'] = dd
        return T.Affine(h_from(L, t)), info
    if cls_name == 'Similarity':
        k = ctx.real(tag + '_k', nonzero=True)
        R = orth(ctx, d, tag + '_R')
        t = ctx.reals(tag + '_t', d)
        info['det'] = det(R * k)
        return T.Similarity(h_from(R * k, t)), info
    if cls_name == 'Rotation':
        R = orth(ctx, d, tag + '_R')
        info['det'] = det(R)
        return T.Rotation(R), info
    if cls_name == 'Translation':
        t = ctx.reals(tag + '_t', d)
        info['det'] = 1
        return T.Translation(t), info
    if cls_name == 'UniformScale':
        k = ctx.real(tag + '_k', nonzero=True)
        info['det'] = k ** d
        return T.UniformScale(k, d), info
    if cls_name == 'NonUniformScale':
        ks = ctx.reals(tag + '_k', d, nonzero=True)
        dd = ks[0]
        for e in ks[1:]:
            dd = dd * e
        info['det'] = dd
        return T.NonUniformScale(ks), info
    raise KeyError(cls_name)


# ------------------------------------------------------------ class invariants
def honest_clauses(ctx, cls_name, H, d):
    """List of (clause name, kind, payload) describing Inv_cls(H).
    kind 'eq' -> payload (lhs, rhs) arrays;  'ne0' -> scalar that must be != 0;
    'pos' -> scalar > 0."""
    out = []
    L = H[:d, :d]
    t = H[:d, d]
    if cls_name in ('Homogeneous',):
        return out
    last = np.zeros(d + 1, dtype=object)
    last[...] = 0
    last[d] = 1
    out.append(('last-row', 'eq', (H[d, :], last)))
    base = cls_name.replace('Alignment', '')
    I = np.zeros((d, d), dtype=object)
    I[...] = 0
    for i in range(d):
        I[i, i] = 1
    if base == 'Affine':
        pass
    elif base == 'Similarity':
        G = L.T.dot(L)
        lam = G[0, 0]
        out.append(('LtL=lam*I', 'eq', (G, I * lam)))
    elif base == 'Rotation':
        out.append(('LtL=I', 'eq', (L.T.dot(L), I)))
        out.append(('t=0', 'eq', (t, np.zeros(d, dtype=int))))
    elif base == 'Translation':
        out.append(('L=I', 'eq', (L, I)))
    elif base == 'UniformScale':
        out.append(('L=kI', 'eq', (L, I * L[0, 0])))
        out.append(('t=0', 'eq', (t, np.zeros(d, dtype=int))))
    elif base == 'NonUniformScale':
        D = np.zeros((d, d), dtype=object)
        D[...] = 0
        for i in range(d):
            D[i, i] = L[i, i]
        out.append(('L-diagonal', 'eq', (L, D)))
        out.append(('t=0', 'eq', (t, np.zeros(d, dtype=int))))
    else:
        raise KeyError(cls_name)
    return out


def family_class_name(obj):
    """Most specific homogeneous-family class name of an instance."""
    return type(obj).__name__


def build_any(ctx, cls_name, d, tag):
    """build() extended to the alignment variants: the real constructor is run
    on concrete clouds (engine paused), then source/target are replaced by
    generic clouds and the matrix by a generic member of the base class.  This
    is a superset of the reachable alignment states (sound for properties that
    do not rely on matrix == fit(source, target))."""
    T, S = menpo_mods()
    if not cls_name.startswith('Alignment'):
        return build(ctx, cls_name, d, tag)
    base = cls_name.replace('Alignment', '')
    n = d + 1
    was = ENG.active
    ENG.active = False
    try:
        rs = np.random.RandomState(7)
        s0 = S.PointCloud(rs.randn(n, d))
        t0 = S.PointCloud(rs.randn(n, d))
        obj = getattr(T, cls_name)(s0, t0)
    finally:
        ENG.active = was
    proto, info = build(ctx, base, d, tag)
    obj._h_matrix = proto.h_matrix
    obj._source = cloud(ctx, tag + '_src', n, d)
    obj._target = cloud(ctx, tag + '_tgt', n, d)
    return obj, info


def assume_in_domain(ctx, t, pts):
    """requires: pts lie in the domain of the (possibly projective)
    homogeneous transform t, i.e. their homogeneous coordinate is non-zero.
    Returns the image computed by the defining formula (not by menpo)."""
    H = t.h_matrix
    d = H.shape[0] - 1
    pts = np.asarray(pts)
    hx = np.hstack([pts, np.ones((pts.shape[0], 1), dtype=pts.dtype)])
    hy = hx.dot(H.T)
    w = hy[:, d]
    for e in w:
        ctx.assume(e != 0, 'point in the domain of the projective map')
    return hy[:, :d] / w[:, None]


# ----------------------------------------------------------------- shapes
SHAPE_CLASSES = ['PointCloud', 'TriMesh', 'ColouredTriMesh', 'TexturedTriMesh', 'PointUndirectedGraph',
                 'PointDirectedGraph', 'PointTree', 'LabelledPointUndirectedGraph']


def shape(ctx, cls, d, tag, n=4, landmarks=0, lm_classes=None):
    """instance of a shape class with symbolic coordinates (and colours /
    tcoords / texture pixels), concrete connectivity; optionally `landmarks`
    groups whose classes cycle through lm_classes."""
    from collections import OrderedDict
    T, S = menpo_mods()
    from menpo.image import Image
    pts = ctx.reals(tag + '_p', (n, d))
    trilist = np.array([[0, 1, 2], [1, 3, 2]][: max(1, n - 2)])
    edges = np.array([[i, i + 1] for i in range(n - 1)])
    if cls == 'PointCloud':
        o = S.PointCloud(pts)
    elif cls == 'TriMesh':
        o = S.TriMesh(pts, trilist=trilist)
    elif cls == 'ColouredTriMesh':
        o = S.ColouredTriMesh(pts, trilist=trilist, colours=ctx.reals(tag + '_col', (n, 3)))
    elif cls == 'TexturedTriMesh':
        tex = Image(ctx.reals(tag + '_tex', (1, 2, 2)))
        o = S.TexturedTriMesh(pts, ctx.reals(tag + '_tc', (n, 2)), tex, trilist=trilist)
    elif cls == 'PointUndirectedGraph':
        o = S.PointUndirectedGraph.init_from_edges(pts, edges)
    elif cls == 'PointDirectedGraph':
        o = S.PointDirectedGraph.init_from_edges(pts, edges)
    elif cls == 'PointTree':
        o = S.PointTree.init_from_edges(pts, edges, root_vertex=0)
    elif cls == 'LabelledPointUndirectedGraph':
        g = S.PointUndirectedGraph.init_from_edges(pts, edges)
        m1 = np.zeros(n, dtype=bool); m1[: n - 1] = True
        m2 = np.zeros(n, dtype=bool); m2[1:] = True
        o = S.LabelledPointUndirectedGraph(pts, g.adjacency_matrix, OrderedDict([('zeta', m1), ('alpha', m2)]))
    else:
        raise KeyError(cls)
    lm_classes = lm_classes or SHAPE_CLASSES
    for k in range(landmarks):
        lc = lm_classes[k % len(lm_classes)]
        o.landmarks['g%d_%s' % (k, lc)] = shape(ctx, lc, d, '%s_lm%d' % (tag, k), n=3 if lc not in ('TriMesh', 'ColouredTriMesh', 'TexturedTriMesh') else 3)
    return o


# ----------------------------------------------------------------- images
def image(ctx, cls, shape, n_channels=1, mask=None, landmarks=0, tag='im', dtype=None):
    """Image / MaskedImage / BooleanImage with symbolic pixels (object persona)
    or, natively, pixels of the requested dtype.  mask: concrete bool array."""
    from menpo.image import Image, MaskedImage, BooleanImage
    T, S = menpo_mods()
    d = len(shape)
    if cls == 'BooleanImage':
        m = mask if mask is not None else np.ones(shape, dtype=bool)
        o = BooleanImage(np.array(m, dtype=bool))
    else:
        px = ctx.reals(tag + '_px', (n_channels,) + tuple(shape), scale=50.0 if dtype == 'uint8' else 1.0)
        if not ctx.sym and dtype is not None:
            if dtype == 'uint8':
                px = np.clip(np.abs(px), 0, 255).astype(np.uint8)
            else:
                px = px.astype(dtype)
        if cls == 'Image':
            o = Image(px)
        else:
            o = MaskedImage(px, mask=None if mask is None else np.array(mask, dtype=bool))
    for k in range(landmarks):
        pts = ctx.reals('%s_lm%d' % (tag, k), (3, d))
        o.landmarks['g%d' % k] = S.PointCloud(pts) if k % 2 == 0 else S.PointUndirectedGraph.init_from_edges(pts, np.array([[0, 1], [1, 2]]))
    return o


def rational_rotation(ctx, d, tag):
    """every proper rotation of R^d through a constraint-free rational
    parametrisation (so that orthogonality is a rational identity):
    d=2: (a,b) != 0 -> angle 2*atan2(b,a);  d=3: any non-zero quaternion q ->
    R(q)/|q|^2 (covers all of SO(3))."""
    if d == 2:
        a, b = ctx.real(tag + '_a'), ctx.real(tag + '_b')
        n2 = a * a + b * b
        ctx.assume(n2 != 0, 'rotation parameter non-zero')
        c, s = (a * a - b * b) / n2, 2 * a * b / n2
        R = np.empty((2, 2), dtype=object if ctx.sym else float)
        R[0, 0], R[0, 1], R[1, 0], R[1, 1] = c, -s, s, c
        return R
    q = [ctx.real('%s_q%d' % (tag, i)) for i in range(4)]
    n2 = q[0] * q[0] + q[1] * q[1] + q[2] * q[2] + q[3] * q[3]
    ctx.assume(n2 != 0, 'quaternion non-zero')
    w, x, y, z = q
    R = np.empty((3, 3), dtype=object if ctx.sym else float)
    R[0, 0] = (w * w + x * x - y * y - z * z) / n2; R[0, 1] = 2 * (x * y - z * w) / n2; R[0, 2] = 2 * (x * z + y * w) / n2
    R[1, 0] = 2 * (x * y + z * w) / n2; R[1, 1] = (w * w - x * x + y * y - z * z) / n2; R[1, 2] = 2 * (y * z - x * w) / n2
    R[2, 0] = 2 * (x * z - y * w) / n2; R[2, 1] = 2 * (y * z + x * w) / n2; R[2, 2] = (w * w - x * x - y * y + z * z) / n2
    return R
