"""C08 — retargeting an alignment equals rebuilding it, whatever happened before."""
import numpy as np

from vp.registry import contract
from . import builders as B
from .state import state_of, compare_states, shared_storage
from .c04 import pwa_setup, tps_coefficients_contract, distinct

TRUSTED = []
ASSUMPTIONS = [
    'dependency results (svd, solve, sqrt) are functions of their arguments, so a correct re-fit is term-for-term the rebuild',
    'G0: the post-state of set_target is independent of the pre-state (previous target symbolic), hence independent of the history of earlier set_target calls',
]

ALIGN_CFGS = []
for d in (2, 3):
    ALIGN_CFGS += [dict(cls='AlignmentTranslation', d=d, opts={}), dict(cls='AlignmentUniformScale', d=d, opts={}),
                   dict(cls='AlignmentAffine', d=d, opts={})]
    for am in (False, True):
        ALIGN_CFGS.append(dict(cls='AlignmentRotation', d=d, opts=dict(allow_mirror=am)))
        for rot in (True, False):
            ALIGN_CFGS.append(dict(cls='AlignmentSimilarity', d=d, opts=dict(rotation=rot, allow_mirror=am)))
for kern in ('default', 'R2LogRRBF'):
    ALIGN_CFGS.append(dict(cls='ThinPlateSplines', d=2, opts=dict(kernel=kern)))
ALIGN_CFGS.append(dict(cls='PiecewiseAffine', d=2, opts={}))


def construct(ctx, cls, src, tgt, opts):
    T, S = B.menpo_mods()
    if cls == 'ThinPlateSplines':
        kw = {}
        if opts.get('kernel', 'default') != 'default':
            kw['kernel'] = getattr(T, opts['kernel'])(src.points)
            kw['min_singular_val'] = 1e-6
        return T.ThinPlateSplines(src, tgt, **kw)
    return getattr(T, cls)(src, tgt, **opts)


def clouds(ctx, cls, d, names):
    T, S = B.menpo_mods()
    n = d + 1
    out = []
    for nm in names:
        if cls == 'PiecewiseAffine' and nm == 'src':
            pts = ctx.reals(nm, (3, 2), scale=3.0)
            a, b, c = pts
            ctx.assume((b - a)[0] * (c - a)[1] - (b - a)[1] * (c - a)[0] > 0, 'source triangle non-degenerate')
            out.append(S.TriMesh(pts, trilist=np.array([[0, 1, 2]]), copy=False))
        else:
            out.append(B.cloud(ctx, nm, 3 if cls in ('PiecewiseAffine', 'ThinPlateSplines') else n, d, scale=3.0))
    return out


def non_degenerate(ctx, cls, src, targets):
    """requires: the documented non-degeneracy of the fitted point sets."""
    pts = [src] + list(targets)
    if cls in ('AlignmentUniformScale', 'AlignmentSimilarity'):
        for p in pts:
            c = np.asarray(p.points) - np.sum(np.asarray(p.points), axis=0) / p.n_points
            ctx.assume(np.sum(c * c) != 0, 'point set not collapsed onto its centroid')
    if cls == 'AlignmentAffine':
        h = np.vstack([np.asarray(src.points).T, np.ones((1, src.n_points), dtype=int)])
        ctx.assume(B.det(h.dot(h.T)) != 0, 'source points affinely independent')
    if cls == 'ThinPlateSplines':
        distinct(ctx, np.asarray(src.points))


@contract('C08', 'retarget_equals_rebuild', configs=ALIGN_CFGS, max_paths=64, functions=[
    'menpo.base:Targetable.set_target', 'menpo.base:Targetable._target_setter_with_verification', 'menpo.base:Targetable._verify_target',
    'menpo.transform.base.alignment:Alignment._target_setter', 'menpo.transform.base.alignment:Alignment.__init__',
    'menpo.transform.homogeneous.translation:AlignmentTranslation._sync_state_from_target',
    'menpo.transform.homogeneous.scale:AlignmentUniformScale._sync_state_from_target',
    'menpo.transform.homogeneous.rotation:AlignmentRotation._sync_state_from_target',
    'menpo.transform.homogeneous.rotation:optimal_rotation_matrix',
    'menpo.transform.homogeneous.similarity:AlignmentSimilarity._sync_state_from_target',
    'menpo.transform.homogeneous.similarity:procrustes_alignment',
    'menpo.transform.homogeneous.affine:AlignmentAffine._sync_state_from_target',
    'menpo.transform.homogeneous.affine:AlignmentAffine._build_alignment_h_matrix',
    'menpo.transform.thinplatesplines:ThinPlateSplines._sync_state_from_target',
    'menpo.transform.piecewiseaffine.base:AbstractPWA._sync_state_from_target'])
def retarget_equals_rebuild(ctx, cls, d, opts):
    """set_target(t1) on an alignment fitted to an arbitrary earlier target t0
    gives exactly the state of a fresh Class(source, t1, **options)."""
    T, S = B.menpo_mods()
    src, t0, t1 = clouds(ctx, cls, d, ['src', 't0', 't1'])
    non_degenerate(ctx, cls, src, [t0, t1])
    s_pts, t0_pts, t1_pts = (np.array(p.points, dtype=object, copy=True) for p in (src, t0, t1))
    with tps_coefficients_contract(ctx):
        a = construct(ctx, cls, src, t0, opts)
        early_copy = a.copy()
        early_state = state_of(early_copy)
        a.set_target(t1)
        b = construct(ctx, cls, src, t1, opts)
        ctx.check_true('fresh/target-is-the-given-one', b.target is t1)
        ctx.check_true('fresh/source-is-the-given-one', b.source is src)
        ctx.check_true('retargeted/target-is-the-new-one', a.target is t1)
        ctx.check_true('retargeted/source-kept', a.source is src)
        compare_states(ctx, 'retargeted==rebuilt', state_of(a), state_of(b))
        x = ctx.reals('x', (2, d), scale=2.0) if cls != 'PiecewiseAffine' else np.asarray(src.points)[:2]
        if cls == 'ThinPlateSplines':
            distinct(ctx, np.vstack([np.asarray(x), np.asarray(src.points)]))
        ctx.check_eq('same-map', a.apply(x), b.apply(x))
        ctx.check_eq('same-aligned-source', a.aligned_source().points, b.aligned_source().points)
        # copies taken before the retarget are not affected by it
        compare_states(ctx, 'copy-taken-before/unaffected', state_of(early_copy), early_state)
        # a copy taken after behaves like the original
        late = a.copy()
        compare_states(ctx, 'copy-taken-after==rebuilt', state_of(late), state_of(b))
        # frame
        ctx.check_eq('frame/source-points', src.points, s_pts)
        ctx.check_eq('frame/old-target-points', t0.points, t0_pts)
        ctx.check_eq('frame/new-target-points', t1.points, t1_pts)
        # rejection of incompatible targets
        st = state_of(a)
        bad_n = S.PointCloud(ctx.reals('bn', (src.n_points + 1, d)))
        bad_d = S.PointCloud(ctx.reals('bd', (src.n_points, d + 1)))
        ctx.check_true('reject/other-n_points', ctx.raises(ValueError, a.set_target, bad_n))
        ctx.check_true('reject/other-n_dims', ctx.raises(ValueError, a.set_target, bad_d))
        # both differ while the number of coordinates is the same (e.g. 3 points in 2-D vs 2 points in 3-D)
        total = src.n_points * d
        for d2 in (1, 2, 3, 4, 6):
            if d2 != d and total % d2 == 0:
                bad_nd = S.PointCloud(ctx.reals('bnd%d' % d2, (total // d2, d2)))
                ctx.check_true('reject/other-n_points-and-n_dims[%dx%d]' % (total // d2, d2), ctx.raises(ValueError, a.set_target, bad_nd))
        compare_states(ctx, 'reject/state-unchanged', state_of(a), st)
        ctx.check_true('reject/target-kept', a.target is t1)


@contract('C08', 'gpa_transforms_are_the_alignments', configs=[dict(d=2, k=k, n=n, am=am) for k in (2, 3, 4) for n in (3, 5) for am in (False, True)],
          level='bounded', native_samples=6, tol=1e-6,
          functions=['menpo.transform.groupalign.procrustes:GeneralizedProcrustesAnalysis.__init__',
                     'menpo.transform.groupalign.procrustes:GeneralizedProcrustesAnalysis._recursive_procrustes',
                     'menpo.transform.groupalign.base:MultipleAlignment.__init__'])
def gpa_transforms_are_the_alignments(ctx, d, k, n, am):
    """bounded stand-in (iterative, svd inside): after GPA without a fixed
    target, transforms[i] is the similarity alignment of sources[i] to the
    reported common target."""
    T, S = B.menpo_mods()
    base = ctx.nprng.randn(n, d) * 3
    sources = []
    for i in range(k):
        th = ctx.nprng.uniform(-3, 3)
        R = np.array([[np.cos(th), -np.sin(th)], [np.sin(th), np.cos(th)]])
        sources.append(S.PointCloud(base.dot(R.T) * ctx.nprng.uniform(0.5, 2) + ctx.nprng.randn(d) * 2 + 0.05 * ctx.nprng.randn(n, d)))
    src_pts = [s.points.copy() for s in sources]
    gpa = T.GeneralizedProcrustesAnalysis(sources, allow_mirror=am)
    ctx.check_true('converged', bool(gpa.converged))
    for i, tr in enumerate(gpa.transforms):
        ctx.check_true('transform[%d]/target-is-common-target' % i, tr.target is gpa.target)
        ctx.check_true('transform[%d]/source-is-input' % i, tr.source is sources[i])
        ref = T.AlignmentSimilarity(sources[i], gpa.target, allow_mirror=am)
        ctx.check_eq('transform[%d]/matrix==fresh-alignment' % i, tr.h_matrix, ref.h_matrix)
        ctx.check_eq('transform[%d]/aligned-source' % i, tr.aligned_source().points, ref.aligned_source().points)
        ctx.check_eq('sources-untouched[%d]' % i, sources[i].points, src_pts[i])
