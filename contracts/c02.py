"""C02 — transforming a shape moves points and landmarks as one, mutates nothing."""
import numpy as np

from vp.registry import contract
from . import builders as B
from .state import state_of, compare_states, shared_storage
from .c03 import _opaque_transform
from .c04 import pwa_setup, tps_coefficients_contract, distinct

TRUSTED = []
ASSUMPTIONS = [
    'G3: the opaque transform stands for every transform whose _apply is a pure row-wise function; that callee contract is verified per concrete class by C02/apply_is_rowwise_pure',
]


def transform_state(st, F):
    """expected state after applying the row-wise map F: the shape's own
    points and (recursively) the points of every landmark group move, every
    other attribute is carried over unchanged."""
    if st[0] != 'object':
        return st
    items = []
    for k, v in st[2]:
        if k == 'points' and v[0] == 'array':
            moved = np.array(F(v[3]), dtype=object)
            items.append((k, ('array', moved.shape, v[2], moved)))
        elif k == '_landmarks' and v[0] == 'object':
            sub = []
            for kk, vv in v[2]:
                if kk == '_landmark_groups':
                    sub.append((kk, ('dict', [(g, transform_state(gs, F)) for g, gs in vv[1]])))
                else:
                    sub.append((kk, vv))
            items.append((k, ('object', v[1], sub)))
        else:
            items.append((k, v))
    return ('object', st[1], items)


def _cfgs(tier):
    out = []
    for d in (2, 3):
        for cls in B.SHAPE_CLASSES:
            if cls == 'TexturedTriMesh' and d == 2 and False:
                continue
            for lms in (0, 1, 2):
                out.append(dict(cls=cls, d=d, landmarks=lms, nested=False))
        out.append(dict(cls='TriMesh', d=d, landmarks=1, nested=True))
        out.append(dict(cls='PointCloud', d=d, landmarks=2, nested=True))
    return out


@contract('C02', 'apply_to_shape', configs=_cfgs, functions=[
    'menpo.transform.base:Transform.apply',
    'menpo.transform.base:Transform._apply_batched',
    'menpo.transform.base:Transformable._transform',
    'menpo.shape.base:Shape._transform_inplace',
    'menpo.shape.pointcloud:PointCloud._transform_self_inplace',
    'menpo.landmark.base:LandmarkManager._transform_inplace',
    'menpo.landmark.base:LandmarkManager.copy',
    'menpo.base:Copyable.copy',
    'menpo.shape.labelled:LabelledPointUndirectedGraph.copy',
])
def apply_to_shape(ctx, cls, d, landmarks, nested):
    """an arbitrary pure row-wise transform applied to any shape class."""
    T, S = B.menpo_mods()
    # landmark group classes rotate so that every class appears as a group
    start = B.SHAPE_CLASSES.index(cls)
    lm_classes = B.SHAPE_CLASSES[start:] + B.SHAPE_CLASSES[:start]
    s = B.shape(ctx, cls, d, 's', landmarks=landmarks, lm_classes=lm_classes)
    if nested:
        # a landmark group that itself carries landmarks
        g = B.shape(ctx, 'PointUndirectedGraph', d, 'outer', n=3)
        g.landmarks['inner'] = B.shape(ctx, 'PointCloud', d, 'inner', n=2)
        s.landmarks['nested'] = g
    t = _opaque_transform(ctx, 'F', d)
    F = ctx.opaque('F', d, d)
    before = state_of(s)
    tdict = dict(t.__dict__)
    r = t.apply(s)
    ctx.check_true('new-object', r is not s)
    ctx.check_true('same-class', type(r) is type(s))
    compare_states(ctx, 'result', state_of(r), transform_state(before, F))
    compare_states(ctx, 'input-unchanged', state_of(s), before)
    ctx.check_true('transform-unchanged', t.__dict__ == tdict)
    ctx.check_eq('bare-array-agrees', t.apply(s.points), r.points)
    ctx.check_true('points-not-shared', not np.shares_memory(r.points, s.points))
    # 'a new object ... the input is not modified': nothing mutable (texture,
    # landmark groups, connectivity, colours ...) may be reachable from both,
    # or the next in-place edit of the result edits the input
    shared = shared_storage(r, s)
    ctx.check_true('result-shares-no-mutable-storage-with-input', not shared, 'shared: %s' % (shared[:3],))
    # batching does not change anything either
    r2 = t.apply(s, batch_size=2)
    compare_states(ctx, 'result-batched', state_of(r2), transform_state(before, F))


def _with_dims_cfgs(tier):
    out = []
    for cls in B.SHAPE_CLASSES:
        for d, dims in ((2, [1, 0]), (2, [0]), (3, [0, 1]), (3, [2, 0]), (3, [1])):
            for lms in (1, 2):
                if lms == 2 and dims in ([0], [1]):
                    continue
                out.append(dict(cls=cls, d=d, dims=dims, landmarks=lms))
    return out


@contract('C02', 'with_dims_wrapper', configs=_with_dims_cfgs, functions=[
    'menpo.shape.pointcloud:PointCloud.with_dims',
    'menpo.transform:WithDims._apply',
    'menpo.transform.base:Transform.apply',
    'menpo.transform.base:Transformable._transform',
    'menpo.shape.base:Shape._transform_inplace',
    'menpo.landmark.base:LandmarkManager._transform_inplace',
])
def with_dims_wrapper(ctx, cls, d, dims, landmarks):
    """the dimension-slicing transform through its convenience entry point
    ``shape.with_dims(dims)``: same contract as applying ``WithDims(dims)`` -
    points and every landmark group sliced alike, everything else carried
    over, the receiver untouched."""
    T, S = B.menpo_mods()
    start = B.SHAPE_CLASSES.index(cls)
    lm_classes = B.SHAPE_CLASSES[start + 1:] + B.SHAPE_CLASSES[:start + 1]
    s = B.shape(ctx, cls, d, 's', landmarks=landmarks, lm_classes=lm_classes)
    g = B.shape(ctx, 'PointCloud', d, 'outer', n=3)
    g.landmarks['inner'] = B.shape(ctx, 'PointCloud', d, 'inner', n=2)
    s.landmarks['nested'] = g
    F = lambda pts: np.asarray(pts)[:, dims]
    before = state_of(s)
    r = s.with_dims(dims)
    ctx.check_true('new-object', r is not s)
    ctx.check_true('same-class', type(r) is type(s))
    compare_states(ctx, 'result', state_of(r), transform_state(before, F))
    compare_states(ctx, 'input-unchanged', state_of(s), before)
    compare_states(ctx, 'same-as-transform', state_of(r), state_of(T.WithDims(dims).apply(s)))
    shared = shared_storage(r, s)
    ctx.check_true('result-shares-no-mutable-storage-with-input', not shared, 'shared: %s' % (shared[:3],))


# --------------------------------------------------- callee contract per class
def concrete_transform(ctx, kind, d):
    T, S = B.menpo_mods()
    if kind in B.HOMOG_ALL:
        return B.build_any(ctx, kind, d, 't')[0], None
    if kind == 'TransformChain':
        a, _ = B.build(ctx, 'Affine', d, 'ta')
        b, _ = B.build(ctx, 'Translation', d, 'tb')
        return T.TransformChain([a, _opaque_transform(ctx, 'G', d), b]), None
    if kind == 'WithDims':
        return T.WithDims(list(range(d - 1)) if d > 2 else [1, 0]), None
    if kind == 'ThinPlateSplines':
        src = B.cloud(ctx, 'src', 3, 2, scale=3.0)
        tgt = B.cloud(ctx, 'tgt', 3, 2, scale=3.0)
        distinct(ctx, src.points)
        cm = tps_coefficients_contract(ctx)
        cm.__enter__()
        try:
            t = T.ThinPlateSplines(src, tgt)
        finally:
            cm.__exit__()
        return t, 'tps'
    if kind == 'PiecewiseAffine':
        src, tgt, trilist = pwa_setup(ctx, 1)
        return T.PiecewiseAffine(src, tgt), ('pwa', src)
    if kind in ('R2LogR2RBF', 'R2LogRRBF'):
        c = ctx.reals('c', (2, d), scale=3.0)
        return getattr(T, kind)(c), 'rbf'
    raise KeyError(kind)


def _rowwise_cfgs(tier):
    out = []
    for d in (2, 3):
        for k in B.HOMOG_ALL + ['TransformChain', 'WithDims']:
            out.append(dict(kind=k, d=d))
    for k in ('ThinPlateSplines', 'PiecewiseAffine', 'R2LogR2RBF', 'R2LogRRBF'):
        out.append(dict(kind=k, d=2))
    return out


@contract('C02', 'apply_is_rowwise_pure', configs=_rowwise_cfgs, max_paths=300, functions=[
    'menpo.transform.homogeneous.base:Homogeneous._apply',
    'menpo.transform.homogeneous.affine:Affine._apply',
    'menpo.transform.base.composable:TransformChain._apply',
    'menpo.transform:WithDims._apply',
    'menpo.transform.thinplatesplines:ThinPlateSplines._apply',
    'menpo.transform.piecewiseaffine.base:AbstractPWA._apply',
    'menpo.transform.rbf:R2LogR2RBF._apply',
    'menpo.transform.rbf:R2LogRRBF._apply',
])
def apply_is_rowwise_pure(ctx, kind, d):
    """callee contract assumed by apply_to_shape, per concrete class: _apply
    is row-wise (each output row is a function of the same input row only),
    writes neither into its argument nor into the transform, and moving a
    landmarked point cloud moves points and landmarks by the same map."""
    T, S = B.menpo_mods()
    t, extra = concrete_transform(ctx, kind, d)
    if isinstance(extra, tuple) and extra[0] == 'pwa':
        # points inside the source triangle
        src = extra[1]
        a, b, c = src.points[0], src.points[1], src.points[2]
        rows = []
        for i in range(2):
            al = ctx.real('al%d' % i, lo=0.05, hi=0.9)
            be = ctx.real('be%d' % i, lo=0.05, hi=0.9)
            ctx.assume(al + be < 0.95, 'inside')
            rows.append(a + al * (b - a) + be * (c - a))
        x = np.array(rows, dtype=object if ctx.sym else float)
    else:
        x = ctx.reals('x', (2, d), scale=3.0)
        if extra in ('tps', 'rbf'):
            cpts = t.kernel.c if extra == 'tps' else t.c
            distinct(ctx, np.vstack([np.asarray(x), np.asarray(cpts)]))
    if kind == 'Homogeneous':
        B.assume_in_domain(ctx, t, x)
    x0 = np.array(x, dtype=object, copy=True)
    tstate = state_of(t)
    y = t.apply(x)
    ctx.check_eq('argument-unchanged', x, x0)
    compare_states(ctx, 'transform-unchanged', state_of(t), tstate)
    for i in range(x.shape[0]):
        ctx.check_eq('row-wise[%d]' % i, t.apply(x0[i:i + 1].copy())[0], y[i])
    ctx.check_eq('repeatable', t.apply(x), y)
    # a point cloud carrying the same points as landmarks
    s = S.PointCloud(x0.copy())
    s.landmarks['lm'] = S.PointCloud(x0.copy())
    r = t.apply(s)
    ctx.check_eq('shape/points', r.points, y)
    ctx.check_eq('shape/landmarks', r.landmarks['lm'].points, y)
    ctx.check_eq('shape/input-unchanged', s.points, x0)
    ctx.check_eq('shape/input-landmarks-unchanged', s.landmarks['lm'].points, x0)
    compare_states(ctx, 'transform-unchanged-after-shape', state_of(t), tstate)
