"""Generic observable-state abstraction of menpo objects.

state_of(obj)   -> nested, order-preserving description of everything
                   reachable from obj.__dict__ (arrays, sparse matrices, dicts,
                   lists, nested menpo objects), used for equality clauses.
storage_of(obj) -> list of (path, mutable storage) used for separation clauses.
"""
from collections import OrderedDict

import numpy as np
import scipy.sparse as sp


def _is_menpo(o):
    return hasattr(o, '__dict__') and type(o).__module__.startswith(('menpo', 'contracts', 'vp')) and not isinstance(o, type)


def state_of(o, depth=0, skip=('path',)):
    if depth > 8:
        return ('deep', type(o).__name__)
    if isinstance(o, np.ndarray):
        return ('array', o.shape, str(o.dtype) if o.dtype != object else 'real', np.array(o, dtype=object, copy=True))
    if sp.issparse(o):
        return ('sparse', o.shape, np.array(o.toarray(), dtype=object))
    if isinstance(o, (dict, OrderedDict)):
        return ('dict', [(k, state_of(v, depth + 1)) for k, v in o.items()])
    if isinstance(o, (list, tuple)):
        return ('list', [state_of(v, depth + 1) for v in o])
    if _is_menpo(o):
        items = []
        for k, v in o.__dict__.items():
            if k in skip:
                continue
            if k == '_landmarks' and (v is None or getattr(v, 'n_groups', 1) == 0):
                continue        # lazily created empty manager == no landmarks
            if k in ('_applied_points', '_iab'):
                continue        # memo of CachedPWA: not observable state
            items.append((k, state_of(v, depth + 1)))
        return ('object', type(o).__name__, items)
    if callable(o):
        return ('callable', getattr(o, '__name__', type(o).__name__))
    return ('value', o)


def compare_states(ctx, name, a, b):
    """clauses: a and b describe equal observable state."""
    if a[0] != b[0]:
        ctx.check_true(name + '/kind', False, '%s vs %s' % (a[0], b[0]))
        return
    k = a[0]
    if k == 'array':
        ctx.check_true(name + '/shape+dtype', a[1] == b[1] and a[2] == b[2], '%s %s vs %s %s' % (a[1], a[2], b[1], b[2]))
        if a[1] == b[1]:
            ctx.check_eq(name, a[3], b[3])
    elif k == 'sparse':
        ctx.check_true(name + '/shape', a[1] == b[1])
        if a[1] == b[1]:
            ctx.check_eq(name, a[2], b[2])
    elif k == 'dict':
        ka, kb = [x[0] for x in a[1]], [x[0] for x in b[1]]
        ctx.check_true(name + '/keys-in-order', ka == kb, '%s vs %s' % (ka, kb))
        for (k1, v1), (k2, v2) in zip(a[1], b[1]):
            if k1 == k2:
                compare_states(ctx, '%s[%r]' % (name, k1), v1, v2)
    elif k == 'list':
        ctx.check_true(name + '/len', len(a[1]) == len(b[1]))
        for i, (v1, v2) in enumerate(zip(a[1], b[1])):
            compare_states(ctx, '%s[%d]' % (name, i), v1, v2)
    elif k == 'object':
        ctx.check_true(name + '/class', a[1] == b[1], '%s vs %s' % (a[1], b[1]))
        da, db = dict(a[2]), dict(b[2])
        ctx.check_true(name + '/attributes', sorted(da) == sorted(db), '%s vs %s' % (sorted(da), sorted(db)))
        for kk in da:
            if kk in db:
                compare_states(ctx, '%s.%s' % (name, kk), da[kk], db[kk])
    elif k == 'value':
        x, y = a[1], b[1]
        if isinstance(x, (int, float, bool, str, type(None), np.generic)) and isinstance(y, (int, float, bool, str, type(None), np.generic)):
            ctx.check_true(name, (x == y) or (x != x and y != y), '%r vs %r' % (x, y))
        else:
            try:
                ctx.check_eq(name, x, y)
            except Exception:
                ctx.check_true(name, x is y or x == y)
    else:
        ctx.check_true(name, a[1:] == b[1:])


def storage_of(o, path='', depth=0, out=None, shared_ok=()):
    """(path, object) for every mutable storage reachable from o."""
    if out is None:
        out = []
    if depth > 8:
        return out
    if isinstance(o, np.ndarray):
        out.append((path, o))
    elif sp.issparse(o):
        for part in ('data', 'indices', 'indptr'):
            if hasattr(o, part):
                out.append(('%s.%s' % (path, part), getattr(o, part)))
        out.append((path + '<sparse-object>', o))
    elif isinstance(o, (dict, OrderedDict)):
        out.append((path + '<dict-object>', o))
        for k, v in o.items():
            storage_of(v, '%s[%r]' % (path, k), depth + 1, out, shared_ok)
    elif isinstance(o, list):
        out.append((path + '<list-object>', o))
        for i, v in enumerate(o):
            storage_of(v, '%s[%d]' % (path, i), depth + 1, out, shared_ok)
    elif _is_menpo(o):
        out.append((path + '<object>', o))
        for k, v in o.__dict__.items():
            if k in shared_ok or k == 'path':
                continue
            storage_of(v, '%s.%s' % (path, k), depth + 1, out, shared_ok)
    return out


def shared_storage(a, b, shared_ok=()):
    """paths of storage reachable from both a and b."""
    sa, sb = storage_of(a, shared_ok=shared_ok), storage_of(b, shared_ok=shared_ok)
    bad = []
    for pa, xa in sa:
        for pb, xb in sb:
            if isinstance(xa, np.ndarray) and isinstance(xb, np.ndarray):
                if xa.size and xb.size and np.shares_memory(xa, xb):
                    bad.append((pa, pb))
            elif xa is xb:
                bad.append((pa, pb))
    return bad


def independent(ctx, name, new, old, shared_ok=()):
    """clause: an object returned as NEW shares no mutable storage with the
    object it was derived from (otherwise the next in-place edit of one shows
    in the other)."""
    bad = shared_storage(new, old, shared_ok=shared_ok)
    ctx.check_true(name, not bad, 'shared: %s' % (bad[:3],))
