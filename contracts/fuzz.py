"""State-reconstruction oracle over random operation histories (bounded).

A transform that has lived through an arbitrary history of public calls -
queries, copies, inverses, re-targeting, re-parametrisation, in-place and
copying composition - must answer every query exactly like an object built
FRESH from its current defining state (its matrix).  Anything a history can
leave behind (a memo, a cached inverse, a cached decomposition, a view onto
another object's matrix, a stale key) shows up as a difference.

One driver, registered under every property whose statement contains one of
the compared clauses (C02 apply, C03 compose / decompose, C04 pseudoinverse,
C05 vectorisation, C08 re-targeting, C20 reported axis and angle).
"""
import numpy as np

from vp.registry import contract
from . import builders as B
from .personas import close

BASE_OF = {'AlignmentAffine': 'Affine', 'AlignmentSimilarity': 'Similarity', 'AlignmentRotation': 'Rotation', 'AlignmentTranslation': 'Translation',
           'AlignmentUniformScale': 'UniformScale'}
CLASSES = ['Affine', 'Similarity', 'Rotation', 'Translation', 'UniformScale', 'NonUniformScale', 'Homogeneous',
           'AlignmentAffine', 'AlignmentSimilarity', 'AlignmentRotation', 'AlignmentTranslation', 'AlignmentUniformScale']


def _rot(rs, d):
    Q, _ = np.linalg.qr(rs.randn(d, d))
    if np.linalg.det(Q) < 0:
        Q[:, 0] *= -1
    return Q


def _make(T, S, rs, cls, d):
    n = d + 3
    src = rs.randn(n, d) * 2
    L = np.eye(d) + 0.3 * rs.randn(d, d)
    tgt = src.dot(L.T) + rs.randn(d) + 0.1 * rs.randn(n, d)
    if cls in BASE_OF:
        return getattr(T, cls)(S.PointCloud(src), S.PointCloud(tgt))
    H = np.eye(d + 1)
    if cls == 'Affine':
        H[:d, :d] = L; H[:d, d] = rs.randn(d)
        return T.Affine(H)
    if cls == 'Homogeneous':
        H[:d, :d] = L; H[:d, d] = rs.randn(d); H[d, :d] = 0.03 * rs.randn(d)
        return T.Homogeneous(H)
    if cls == 'Similarity':
        H[:d, :d] = (0.6 + rs.rand()) * _rot(rs, d); H[:d, d] = rs.randn(d)
        return T.Similarity(H)
    if cls == 'Rotation':
        return T.Rotation(_rot(rs, d))
    if cls == 'Translation':
        return T.Translation(rs.randn(d))
    if cls == 'UniformScale':
        return T.UniformScale(0.5 + rs.rand(), d)
    return T.NonUniformScale(0.5 + rs.rand(d))


def _fresh(T, a):
    """an object of a's (base) class built from nothing but a's current matrix"""
    H = np.array(a.h_matrix, dtype=float, copy=True)
    name = type(a).__name__
    base = BASE_OF.get(name, name)
    d = H.shape[0] - 1
    if base == 'Rotation':
        return T.Rotation(H[:d, :d])
    if base == 'Translation':
        return T.Translation(H[:d, d])
    if base == 'UniformScale':
        return T.UniformScale(H[0, 0], d)
    if base == 'NonUniformScale':
        return T.NonUniformScale(np.diag(H)[:d].copy())
    return getattr(T, base)(H)


def _compare(ctx, T, S, tag, a, x, synced=False):
    """every observable of a == the same observable of a fresh object with a's matrix"""
    f = _fresh(T, a)
    d = a.n_dims
    close(ctx, tag + '/apply', a.apply(x), f.apply(x), 1e-9)
    close(ctx, tag + '/apply-to-a-shape', a.apply(S.PointCloud(x.copy())).points, f.apply(x), 1e-9)
    if type(a).__name__ != 'Homogeneous' or True:
        ia, jf = a.pseudoinverse(), f.pseudoinverse()
        close(ctx, tag + '/pseudoinverse/map', ia.apply(x), jf.apply(x), 1e-7)
        close(ctx, tag + '/pseudoinverse/undoes-the-current-map', ia.apply(a.apply(x)), x, 1e-6)
        close(ctx, tag + '/pseudoinverse/matrix', ia.h_matrix / ia.h_matrix[-1, -1], np.linalg.inv(np.asarray(a.h_matrix, dtype=float)) / np.linalg.inv(np.asarray(a.h_matrix, dtype=float))[-1, -1], 1e-7)
        if hasattr(a, 'source') and hasattr(ia, 'source'):
            close(ctx, tag + '/pseudoinverse/source-is-the-current-target', ia.source.points, a.target.points, 1e-12)
            close(ctx, tag + '/pseudoinverse/target-is-the-source', ia.target.points, a.source.points, 1e-12)
    try:
        va = np.asarray(a.as_vector(), dtype=float).ravel()
    except NotImplementedError:
        va = None
    if va is not None:
        close(ctx, tag + '/as_vector', va, np.asarray(f.as_vector(), dtype=float).ravel(), 1e-7)
        close(ctx, tag + '/from_vector(as_vector())-reproduces-the-matrix', a.from_vector(a.as_vector()).h_matrix, a.h_matrix, 1e-7)
    if hasattr(a, 'decompose'):
        parts = a.decompose()
        M = np.eye(d + 1)
        for p in parts:
            M = np.asarray(p.h_matrix, dtype=float).dot(M)
        close(ctx, tag + '/decompose-recomposes-to-the-current-matrix', M, a.h_matrix, 1e-7)
    if isinstance(a, T.Rotation):
        R = np.asarray(a.rotation_matrix, dtype=float)
        ax, ang = a.axis_and_angle_of_rotation()
        tr = np.trace(R)
        if d == 3 and ax is not None and abs(tr - 3) > 1e-3 and abs(tr + 1) > 1e-3:
            K = np.array([[0, -ax[2], ax[1]], [ax[2], 0, -ax[0]], [-ax[1], ax[0], 0]])
            close(ctx, tag + '/axis-and-angle-reconstruct-the-current-rotation', np.eye(3) + np.sin(ang) * K + (1 - np.cos(ang)) * K.dot(K), R, 1e-6)
        elif d == 2:
            close(ctx, tag + '/reported-angle-has-the-current-cosine', np.cos(ang), R[0, 0], 1e-7)
    close(ctx, tag + '/compose_before(other)', a.compose_before(T.Translation(np.full(d, 0.25))).apply(x), f.apply(x) + 0.25, 1e-9)
    close(ctx, tag + '/compose_after(other)', a.compose_after(T.Translation(np.full(d, 0.25))).apply(x), f.apply(x + 0.25), 1e-9)
    if hasattr(a, 'source'):
        if synced:      # the last step set the parameters: the target follows them
            close(ctx, tag + '/alignment/target==aligned-source', a.target.points, a.apply(a.source.points), 1e-7)
        close(ctx, tag + '/alignment/aligned_source()', a.aligned_source().points, a.apply(a.source.points), 1e-9)
    str(a)


def _history(ctx, cls, d, steps=7):
    T, S = B.menpo_mods()
    rs = ctx.nprng
    a = _make(T, S, rs, cls, d)
    x = rs.randn(5, d)
    trail = []
    _compare(ctx, T, S, 'fresh', a, x)
    for k in range(steps):
        ops = ['apply', 'query', 'copy', 'pseudoinverse', 'double-inverse', 'compose_before', 'compose_after']
        if hasattr(a, 'set_target'):
            ops += ['set_target', 'set_target']
        if hasattr(a, 'from_vector'):
            ops += ['from_vector', 'from_vector_inplace']
        ops += ['compose_before_inplace', 'compose_after_inplace']
        if isinstance(a, T.Rotation):
            ops += ['set_rotation_matrix']
        op = ops[rs.randint(len(ops))]
        name = type(a).__name__
        dd = a.n_dims
        same = _make(T, S, rs, BASE_OF.get(name, name), dd)       # a member of a's own base family
        try:
            if op == 'apply':
                a.apply(rs.randn(3, dd)); a.apply(S.PointCloud(rs.randn(4, dd)), batch_size=2)
            elif op == 'query':
                a.pseudoinverse(); str(a)
                a.decompose() if hasattr(a, 'decompose') else None
                a.axis_and_angle_of_rotation() if isinstance(a, T.Rotation) else None
                try:
                    a.as_vector()
                except NotImplementedError:
                    pass
            elif op == 'copy':
                a = a.copy()
            elif op == 'pseudoinverse':
                a = a.pseudoinverse()
            elif op == 'double-inverse':
                a = a.pseudoinverse().pseudoinverse()
            elif op == 'compose_before':
                a = a.compose_before(same)
            elif op == 'compose_after':
                a = a.compose_after(same)
            elif op == 'set_target':
                a.set_target(S.PointCloud(np.asarray(a.target.points) * (0.8 + 0.4 * rs.rand()) + 0.3 * rs.randn(*a.target.points.shape)))
            elif op in ('from_vector', 'from_vector_inplace'):
                try:
                    v = np.asarray(same.as_vector(), dtype=float)
                except NotImplementedError:
                    continue
                if op == 'from_vector':
                    a = a.from_vector(v)
                else:
                    a._from_vector_inplace(v)
            elif op in ('compose_before_inplace', 'compose_after_inplace'):
                if not isinstance(same, getattr(a, 'composes_inplace_with', ())):
                    continue
                getattr(a, op)(same)
            elif op == 'set_rotation_matrix':
                a.set_rotation_matrix(_rot(rs, dd))
        except NotImplementedError:
            continue
        trail.append(op)
        if op == 'set_target' and type(a).__name__ in BASE_OF:
            # re-targeting (whatever came before) == fitting afresh from the same source to the same target
            refit = type(a)(S.PointCloud(np.array(a.source.points, copy=True)), S.PointCloud(np.array(a.target.points, copy=True)))
            close(ctx, 'after[%s]/retargeted==freshly-fitted/matrix' % '>'.join(trail), a.h_matrix, refit.h_matrix, 1e-8)
            close(ctx, 'after[%s]/retargeted==freshly-fitted/map' % '>'.join(trail), a.apply(x), refit.apply(x), 1e-8)
        synced = op in ('from_vector', 'from_vector_inplace') and hasattr(a, 'source')      # (C05: 'after a parameter update'; in-place composition is not one)
        _compare(ctx, T, S, 'after[%s]' % '>'.join(trail), a, x, synced)
    ctx.case(dict(cls=cls, d=d, history=trail))


_CFGS = [dict(cls=c, d=d) for c in CLASSES for d in (2, 3)]
_FUNCS = ['menpo.transform.homogeneous.base:Homogeneous._h_matrix_pseudoinverse', 'menpo.transform.homogeneous.base:HomogFamilyAlignment.pseudoinverse',
          'menpo.transform.homogeneous.base:HomogFamilyAlignment.copy', 'menpo.transform.homogeneous.affine:Affine._apply',
          'menpo.transform.homogeneous.affine:Affine.decompose', 'menpo.transform.homogeneous.affine:Affine._set_h_matrix',
          'menpo.transform.homogeneous.rotation:Rotation._as_vector', 'menpo.transform.homogeneous.rotation:Rotation.axis_and_angle_of_rotation',
          'menpo.base:Targetable.set_target']


def _register(prop, name, doc):
    def f(ctx, cls, d):
        _history(ctx, cls, d)
    f.__doc__ = doc
    f.__name__ = 'fuzz_%s' % prop
    return contract(prop, name, level='bounded', native_samples=4, configs=_CFGS, functions=_FUNCS)(f)


_register('C02', 'used_transform_applies_like_a_fresh_one',
          """(C02) after any history of public calls a homogeneous-family transform moves points and shapes exactly as a fresh transform with its matrix does.""")
_register('C03', 'history_of_compositions_and_decompositions',
          """(C03) after any history (copying and in-place composition, inverses, queries) composition obeys its law against a fresh object and the decomposition recomposes to the CURRENT matrix.""")
_register('C04', 'pseudoinverse_after_any_history',
          """(C04) after any history the pseudoinverse is the inverse of the CURRENT map, with source and target exchanged for alignments.""")
_register('C05', 'vectorisation_after_any_history',
          """(C05) after any history as_vector() describes the CURRENT matrix and from_vector(as_vector()) reproduces it; alignments keep target == aligned source.""")
_register('C08', 'retargeting_after_any_history',
          """(C08) an alignment that was inverted, copied, composed or re-parametrised before set_target ends, like a fresh one, with a map consistent with its matrix and target == aligned source.""")
_register('C20', 'reported_axis_and_angle_after_any_history',
          """(C20) the reported axis and angle reconstruct the CURRENT rotation after any history of queries, compositions and re-parametrisations.""")


# ===================================================================== meshes
def _mesh(T, S, rs, cls, d, grid):
    base = S.TriMesh.init_2d_grid(grid)
    pts = base.points + 0.2 * rs.rand(*base.points.shape)
    if d == 3:
        pts = np.hstack([pts, rs.rand(len(pts), 1)])
    tl = np.asarray(base.trilist).astype(np.int64)
    if cls == 'TriMesh':
        return S.TriMesh(pts, trilist=tl)
    if cls == 'ColouredTriMesh':
        return S.ColouredTriMesh(pts, trilist=tl, colours=rs.rand(len(pts), 3))
    from menpo.image import Image
    return S.TexturedTriMesh(pts, rs.rand(len(pts), 2), Image(rs.rand(3, 6, 7)), trilist=tl)


def _mesh_fresh(S, m):
    kw = dict(trilist=np.array(m.trilist, copy=True))
    P = np.array(m.points, copy=True)
    if type(m).__name__ == 'ColouredTriMesh':
        return S.ColouredTriMesh(P, colours=np.array(m.colours, copy=True), **kw)
    if type(m).__name__ == 'TexturedTriMesh':
        return S.TexturedTriMesh(P, np.array(m.tcoords.points, copy=True), m.texture.copy(), **kw)
    return S.TriMesh(P, **kw)


MESH_QUERIES = ['unique_edge_indices', 'unique_edge_lengths', 'unique_edge_vectors', 'edge_indices', 'edge_lengths', 'boundary_tri_index', 'tri_areas',
                'mean_tri_area', 'mean_edge_length', 'tri_normals', 'vertex_normals', 'n_tris', 'n_points', 'bounds', 'centre', 'as_vector']


def _mesh_compare(ctx, S, tag, m):
    f = _mesh_fresh(S, m)
    for q in MESH_QUERIES:
        if q in ('tri_normals', 'vertex_normals') and m.n_dims != 3:
            continue
        va, vf = getattr(m, q), getattr(f, q)
        try:
            va = va() if callable(va) else va
        except Exception as e:
            va = ('raises', type(e).__name__)
        try:
            vf = vf() if callable(vf) else vf
        except Exception as e:
            vf = ('raises', type(e).__name__)
        def raised(v):
            return isinstance(v, tuple) and len(v) == 2 and isinstance(v[0], str) and v[0] == 'raises'
        if raised(va) or raised(vf):
            ctx.check_true(tag + '/%s==fresh-mesh' % q, repr(va) == repr(vf), '%r vs %r' % (va, vf))
        else:
            va = np.vstack(va) if isinstance(va, tuple) else va
            vf = np.vstack(vf) if isinstance(vf, tuple) else vf
            close(ctx, tag + '/%s==fresh-mesh' % q, np.asarray(va, dtype=float), np.asarray(vf, dtype=float), 1e-12)


@contract('C17', 'used_mesh_answers_like_a_fresh_one', level='bounded', native_samples=3,
          configs=[dict(cls=c, d=d) for c in ('TriMesh', 'ColouredTriMesh', 'TexturedTriMesh') for d in (2, 3)],
          functions=['menpo.shape.mesh.base:TriMesh.unique_edge_indices', 'menpo.shape.mesh.base:TriMesh.from_mask', 'menpo.shape.mesh.base:TriMesh.from_tri_mask',
                     'menpo.shape.mesh.coloured:ColouredTriMesh.from_mask', 'menpo.shape.mesh.textured:TexturedTriMesh.from_mask', 'menpo.base:Copyable.copy'])
def c17_mesh_history(ctx, cls, d):
    """state-reconstruction oracle for meshes: after any history of queries,
    copies, vertex / triangle maskings, rigid motions and scalings, every
    geometric and structural query of the mesh equals that of a mesh built
    afresh from its current points, triangle list and attributes."""
    T, S = B.menpo_mods()
    rs = ctx.nprng
    m = _mesh(T, S, rs, cls, d, (4, 4))
    trail = []
    _mesh_compare(ctx, S, 'fresh', m)
    for k in range(6):
        op = ['query', 'copy', 'from_mask', 'from_tri_mask', 'transform', 'query'][rs.randint(6)]
        if op == 'query':
            for q in rs.permutation(MESH_QUERIES)[:6]:
                v = getattr(m, q)
                try:
                    v() if callable(v) else v
                except Exception:
                    pass
        elif op == 'copy':
            m = m.copy()
        elif op == 'from_mask':
            mask = rs.rand(m.n_points) > 0.2
            tl = np.asarray(m.trilist)
            if not any(mask[t].all() for t in tl):
                continue
            m = m.from_mask(mask)
        elif op == 'from_tri_mask':
            tm = rs.rand(m.n_tris) > 0.25
            if not tm.any():
                continue
            m = m.from_tri_mask(tm)
        else:
            t = T.UniformScale(0.5 + rs.rand(), d).compose_before(T.Translation(rs.randn(d)))
            m = t.apply(m)
        trail.append(op)
        _mesh_compare(ctx, S, 'after[%s]' % '>'.join(trail), m)
    ctx.case(dict(cls=cls, d=d, history=trail))
