"""Bounded contracts: the same object in two roles.

Every other contract builds the arguments of a call as distinct, freshly
made objects.  A change that reads an operand after it has started writing
its result into storage the operand shares (self-composition, an argument
that is a view of the receiver's own state, the same group attached twice,
the same list element twice, one options list reused by two calls) is
invisible to them.  The contracts here call the real functions with aliased
arguments and compare with the same call on independent copies.

All are level='bounded'.
"""
import numpy as np

from vp.registry import contract
from . import builders as B
from .personas import close, snapshot
from .fuzz import CLASSES, _make


# ------------------------------------------------------------------------ C03: a transform composed with itself / with a view of itself
@contract('C03', 'self_composition', level='bounded', native_samples=2, configs=[dict(cls=c, d=d) for c in CLASSES for d in (2, 3)],
          functions=['menpo.transform.homogeneous.base:Homogeneous._compose_before_inplace', 'menpo.transform.homogeneous.base:Homogeneous._compose_after_inplace',
                     'menpo.transform.base.composable:ComposableTransform.compose_before', 'menpo.transform.base.composable:ComposableTransform.compose_after'])
def c03_self_composition(ctx, cls, d):
    """a.compose_*(a), a.compose_*_inplace(a), and an operand that shares the
    receiver's matrix memory: the result maps x to a(a(x)), exactly as with
    an independent copy of the operand."""
    T, S = B.menpo_mods()
    rs = ctx.nprng
    a = _make(T, S, rs, cls, d)
    x = rs.randn(5, d)
    twice = a.apply(a.apply(x.copy()))
    h0 = a.h_matrix.copy()
    for side in ('before', 'after'):
        r = getattr(a, 'compose_' + side)(a)
        close(ctx, 'a.compose_%s(a)/law' % side, r.apply(x.copy()), twice, 1e-9)
        close(ctx, 'a.compose_%s(a)/a-unchanged' % side, a.h_matrix, h0, 0)
        if isinstance(a, a.composes_inplace_with):
            b = a.copy()
            getattr(b, 'compose_%s_inplace' % side)(b)
            close(ctx, 'a.compose_%s_inplace(a)/law' % side, b.apply(x.copy()), twice, 1e-9)
            # a non-alignment operand that shares the receiver's matrix (copy=False / skip_checks)
            b = a.copy()
            try:
                shared = T.Homogeneous(b._h_matrix, copy=False, skip_checks=True) if cls == 'Homogeneous' else T.Affine(b._h_matrix, copy=False, skip_checks=True)
            except Exception:
                shared = None
            if shared is not None and isinstance(shared, b.composes_inplace_with):
                getattr(b, 'compose_%s_inplace' % side)(shared)
                close(ctx, 'a.compose_%s_inplace(view-of-a)/law' % side, b.apply(x.copy()), twice, 1e-9)
    # chains containing the same transform twice
    tps_src = rs.randn(6, d) if d == 2 else None
    c = a.compose_before(a).compose_before(a)
    close(ctx, 'a.a.a/law', c.apply(x.copy()), a.apply(twice.copy()), 1e-8)
    if d == 2:
        tps = T.ThinPlateSplines(S.PointCloud(tps_src), S.PointCloud(tps_src + 0.2 * rs.randn(6, 2)))
        ch = tps.compose_before(a).compose_before(a).compose_after(a)
        close(ctx, 'chain-with-the-same-link-three-times/law', ch.apply(x.copy()), a.apply(a.apply(tps.apply(a.apply(x.copy())))), 1e-8)
        close(ctx, 'chain-with-the-same-link-three-times/link-unchanged', a.h_matrix, h0, 0)


# ------------------------------------------------------------------------ C06: one shape in several places of a manager
@contract('C06', 'same_shape_in_several_places', level='bounded', native_samples=1, configs=[dict(cls=c) for c in ('PointCloud', 'PointUndirectedGraph', 'TriMesh')],
          functions=['menpo.landmark.base:LandmarkManager.__setitem__', 'menpo.landmark.base:Landmarkable.landmarks', 'menpo.landmark.base:LandmarkManager.copy'])
def c06_same_shape_twice(ctx, cls):
    """the same shape object stored under two keys, a group re-assigned under
    another key of the same manager, a group assigned back onto itself, a
    shape carrying its own copy as landmark: every stored group is its own
    copy - writing into one changes no other."""
    from menpo.image import Image
    T, S = B.menpo_mods()
    rs = ctx.nprng
    P = rs.randn(4, 2) * 3 + 10
    mk = {'PointCloud': lambda: S.PointCloud(P.copy()), 'PointUndirectedGraph': lambda: S.PointUndirectedGraph.init_from_edges(P.copy(), np.array([[0, 1], [1, 2]])),
          'TriMesh': lambda: S.TriMesh(P.copy(), trilist=np.array([[0, 1, 2], [1, 2, 3]]))}[cls]
    img = Image(rs.randn(1, 20, 20))
    g = mk()
    img.landmarks['a'] = g
    img.landmarks['b'] = g                         # the same user object twice
    img.landmarks['c'] = img.landmarks['a']        # a stored group under another key
    img.landmarks['a'] = img.landmarks['a']        # assigned back onto itself
    keys = ['a', 'b', 'c']
    for k in keys:
        ctx.check_true('group[%s]/equal-to-what-was-stored' % k, np.array_equal(img.landmarks[k].points, P))
        ctx.check_true('group[%s]/is-not-the-user-object' % k, img.landmarks[k] is not g and not np.shares_memory(img.landmarks[k].points, g.points))
    for i, k in enumerate(keys):
        for k2 in keys[i + 1:]:
            ctx.check_true('groups[%s,%s]/distinct-objects-with-distinct-storage' % (k, k2),
                           img.landmarks[k] is not img.landmarks[k2] and not np.shares_memory(img.landmarks[k].points, img.landmarks[k2].points))
    img.landmarks['a'].points[0, 0] += 5.0
    ctx.check_true('writing-into-one-group-leaves-the-others', np.array_equal(img.landmarks['b'].points, P) and np.array_equal(img.landmarks['c'].points, P))
    ctx.check_true('writing-into-one-group-leaves-the-user-object', np.array_equal(g.points, P))
    # a manager assigned onto its own owner, and onto the owner of one of its groups
    n_before = img.landmarks.n_groups
    img.landmarks = img.landmarks
    ctx.check_true('manager-assigned-onto-its-own-owner/groups-kept', img.landmarks.n_groups == n_before and np.array_equal(img.landmarks['b'].points, P))
    s = mk()
    s.landmarks['self'] = s                         # a shape annotated with itself
    ctx.check_true('shape-annotated-with-itself/landmark-is-a-copy', s.landmarks['self'] is not s and not np.shares_memory(s.landmarks['self'].points, s.points))
    c = s.copy()
    c.points[1, 1] -= 3.0
    ctx.check_true('shape-annotated-with-itself/copy-is-independent', np.array_equal(s.points, P) and np.array_equal(s.landmarks['self'].points, P))
    moved = T.Translation([1.0, 2.0]).apply(s)
    close(ctx, 'shape-annotated-with-itself/transform-moves-both-once', moved.landmarks['self'].points, P + [1.0, 2.0], 1e-12)
    close(ctx, 'shape-annotated-with-itself/transform-moves-points-once', moved.points, P + [1.0, 2.0], 1e-12)


# ------------------------------------------------------------------------ C10 / C11: arrays shared between a model and its caller / two models
@contract('C10', 'caller_arrays_and_model_state', level='bounded', native_samples=2, configs=[dict(backed=b) for b in ('vector', 'pointcloud')],
          functions=['menpo.model.pca:PCAVectorModel.instance_vectors', 'menpo.model.pca:PCAVectorModel.instance', 'menpo.model.pca:PCAVectorModel.project',
                     'menpo.model.pca:PCAVectorModel.reconstruct', 'menpo.model.pca:PCAVectorModel.init_from_components'])
def c10_shared_arrays(ctx, backed):
    """weights / vectors handed to a model are never modified, whatever their
    dtype and length - including the model's own eigenvalues, mean and
    components passed back in as arguments; a model built from another
    model's arrays does not change when the other one is trimmed."""
    from menpo.model import PCAVectorModel, PCAModel
    T, S = B.menpo_mods()
    rs = ctx.nprng
    n, d = 14, 6
    X = rs.randn(n, d) * np.linspace(2.0, 0.5, d) + rs.randn(d)
    m = PCAVectorModel(X.copy()) if backed == 'vector' else PCAModel([S.PointCloud(x.reshape(-1, 2).copy()) for x in X])
    vec = (lambda o: np.asarray(o)) if backed == 'vector' else (lambda o: o.as_vector())
    k = m.n_active_components
    ev0, C0, mean0 = m.eigenvalues.copy(), m.components.copy(), m._mean.copy()
    for normalized in (False, True):
        for wname, w in (('full-float64', rs.randn(k)), ('short', rs.randn(k - 2)), ('int', np.arange(1, k + 1)), ('float32', rs.randn(k).astype(np.float32))):
            snap = snapshot(w)
            a = vec(m.instance(w, normalized_weights=normalized)).copy()
            ctx.check_true('instance(%s,normalized=%s)/weights-not-modified' % (wname, normalized), snapshot(w) == snap)
            b = vec(m.instance(w, normalized_weights=normalized))
            close(ctx, 'instance(%s,normalized=%s)/same-weights-same-instance' % (wname, normalized), b, a, 0)
        # the model's own arrays as arguments
        m.instance(m.eigenvalues, normalized_weights=normalized)
        close(ctx, 'instance(model.eigenvalues,normalized=%s)/eigenvalues-unchanged' % normalized, m.eigenvalues, ev0, 0)
    close(ctx, 'components-unchanged', m.components, C0, 0)
    v = m._mean if backed == 'vector' else m.mean()
    p = m.project(v)
    close(ctx, 'project(model-mean)/zero', p, np.zeros(k), 1e-9)
    close(ctx, 'project(model-mean)/mean-unchanged', m._mean, mean0, 0)
    r = m.reconstruct(v)
    close(ctx, 'reconstruct(model-mean)/mean-unchanged', m._mean, mean0, 0)
    row = m.components[0] if backed == 'vector' else None
    if row is not None:
        m.project(row + mean0)
        m.reconstruct(row)
        close(ctx, 'project/reconstruct(a-row-of-the-components)/components-unchanged', m.components, C0, 0)
    # a second model over the first model's arrays
    cls = type(m)
    twin = cls.init_from_components(m._components, m._eigenvalues, m.mean() if backed != 'vector' else m._mean, n, True)
    snap_twin = (twin._components.copy(), twin._eigenvalues.copy(), twin._mean.copy())
    m.trim_components(2)
    m.n_active_components = 1
    close(ctx, 'twin-over-the-same-arrays/unchanged-by-trimming-the-other/components', twin._components, snap_twin[0], 0)
    close(ctx, 'twin-over-the-same-arrays/unchanged-by-trimming-the-other/eigenvalues', twin._eigenvalues, snap_twin[1], 0)


@contract('C11', 'models_over_shared_arrays', level='bounded', native_samples=2, configs=[dict(model=m) for m in ('pca-forks', 'gmrf-pca', 'same-chunk-twice')],
          functions=['menpo.model.pca:PCAVectorModel.increment', 'menpo.model.pca:PCAVectorModel.init_from_components', 'menpo.model.gmrf:GMRFVectorModel.increment',
                     'menpo.model.gmrf:GMRFVectorModel.principal_components_analysis'])
def c11_shared_arrays(ctx, model):
    """two models built over the same arrays (forks of one base model; the PCA
    of a GMRF) and incremented separately each equal the batch model of
    their own data; the chunk arrays fed in are not modified and may be fed
    to two models."""
    from menpo.model import PCAVectorModel, GMRFVectorModel
    rs = ctx.nprng
    d = 4
    X = rs.randn(40, d) * np.linspace(2.0, 0.6, d) + rs.randn(d)
    if model == 'pca-forks':
        base = PCAVectorModel(X[:12].copy())
        fork = lambda: PCAVectorModel.init_from_components(base.components, base.eigenvalues, base.mean(), base.n_samples, True)
        f1, f2 = fork(), fork()
        base_mean = base.mean().copy()
        f1.increment(X[12:24].copy())
        close(ctx, 'incrementing-one-fork-leaves-the-base-model', base.mean(), base_mean, 0)
        close(ctx, 'incrementing-one-fork-leaves-the-other-fork', f2.mean(), base_mean, 0)
        f2.increment(X[12:18].copy())
        f2.increment(X[18:24].copy())
        batch = PCAVectorModel(X[:24].copy())
        for nm, f in (('fork1', f1), ('fork2', f2)):
            close(ctx, nm + '/mean==batch', f.mean(), batch.mean(), 1e-9)
            close(ctx, nm + '/eigenvalues==batch', f.eigenvalues, batch.eigenvalues, 1e-8)
            ctx.check_true(nm + '/n_samples', f.n_samples == 24)
    elif model == 'gmrf-pca':
        from .c11 import _graphs
        G = _graphs()['chain4']
        nf = G.n_vertices * 2
        Y = rs.randn(40, nf) + rs.randn(nf)
        Y = Y + 0.4 * np.roll(Y, 1, axis=1)
        g = GMRFVectorModel(Y[:20].copy(), G, mode='concatenation', sparse=False, dtype=np.float64, incremental=True)
        p = g.principal_components_analysis()
        mean0 = np.array(g.mean(), copy=True)
        p.increment(Y[20:30].copy())
        close(ctx, 'incrementing-the-derived-pca-leaves-the-gmrf-mean', g.mean(), mean0, 0)
        g.increment(Y[20:40].copy())
        batch = GMRFVectorModel(Y.copy(), G, mode='concatenation', sparse=False, dtype=np.float64, incremental=True)
        close(ctx, 'gmrf-after-increment/mean==batch', g.mean(), batch.mean(), 1e-9)
        close(ctx, 'gmrf-after-increment/precision==batch', g.precision, batch.precision, 1e-6)
    else:
        a = PCAVectorModel(X[:12].copy())
        b = PCAVectorModel(X[:12].copy())
        chunk = X[12:24].copy()
        snap = snapshot(chunk)
        a.increment(chunk)
        ctx.check_true('chunk-not-modified-by-increment', snapshot(chunk) == snap)
        b.increment(chunk)
        batch = PCAVectorModel(X[:24].copy())
        close(ctx, 'second-model-fed-the-same-chunk-array/mean==batch', b.mean(), batch.mean(), 1e-9)
        close(ctx, 'second-model-fed-the-same-chunk-array/eigenvalues==batch', b.eigenvalues, batch.eigenvalues, 1e-8)
        a.increment(chunk)          # the same samples twice are simply more samples
        both = PCAVectorModel(np.vstack([X[:24], X[12:24]]))
        close(ctx, 'same-chunk-fed-twice/mean==batch-of-repeated-data', a.mean(), both.mean(), 1e-9)
        close(ctx, 'same-chunk-fed-twice/eigenvalues', a.eigenvalues, both.eigenvalues, 1e-8)


# ------------------------------------------------------------------------ C13: bounds that are views of the image's own landmarks
@contract('C13', 'bounds_taken_from_the_image_itself', level='bounded', native_samples=2, configs=[dict(cls=c) for c in ('Image', 'MaskedImage')],
          functions=['menpo.image.base:Image.crop', 'menpo.image.base:Image.extract_patches', 'menpo.image.base:Image.crop_to_pointcloud'])
def c13_own_landmarks_as_bounds(ctx, cls):
    """crop bounds / patch centres that are views of the image's own landmark
    arrays (fractional coordinates): the arguments and the source image's
    landmarks are not modified, and the result equals the one obtained with
    independent copies of the same numbers."""
    from menpo.image import Image, MaskedImage
    T, S = B.menpo_mods()
    rs = ctx.nprng
    pix = rs.randint(0, 255, size=(2, 30, 34)).astype(np.float64)
    img = Image(pix.copy()) if cls == 'Image' else MaskedImage(pix.copy(), mask=rs.rand(30, 34) > 0.1)
    bb = np.array([[3.25, 4.75], [3.25, 20.5], [21.6, 20.5], [21.6, 4.75]])
    img.landmarks['bb'] = S.PointCloud(bb.copy())
    img.landmarks['pts'] = S.PointCloud(np.array([[10.0, 11.0], [15.0, 18.0], [12.5, 9.5]]))
    ref = img.copy().crop(bb[0].copy(), bb[2].copy())
    own = img.landmarks['bb']
    lo, hi = own.points[0], own.points[2]              # views of the image's own landmark array
    r = img.crop(lo, hi)
    ctx.check_true('crop/own-landmarks-as-bounds/source-landmarks-unchanged', np.array_equal(img.landmarks['bb'].points, bb))
    ctx.check_true('crop/own-landmarks-as-bounds/pixels==crop-with-independent-bounds', np.array_equal(r.pixels, ref.pixels))
    close(ctx, 'crop/own-landmarks-as-bounds/result-landmarks==crop-with-independent-bounds', r.landmarks['bb'].points, ref.landmarks['bb'].points, 0)
    for form, (a, b) in (('float64-arrays', (bb[0].copy(), bb[2].copy())), ('one-array-both-bounds', (bb[0].copy(), None))):
        if b is None:
            buf = np.array([3.25, 4.75, 21.6, 20.5])
            a, b = buf[:2], buf[2:]
        sa, sb = snapshot(a), snapshot(b)
        r2 = img.crop(a, b)
        ctx.check_true('crop/%s/arguments-not-modified' % form, snapshot(a) == sa and snapshot(b) == sb)
        ctx.check_true('crop/%s/same-result' % form, np.array_equal(r2.pixels, ref.pixels))
    pc = img.landmarks['pts']
    before = pc.points.copy()
    p1 = img.extract_patches(pc, patch_shape=(4, 4), as_single_array=True)
    p2 = img.extract_patches(S.PointCloud(before.copy()), patch_shape=(4, 4), as_single_array=True)
    ctx.check_true('patches/own-landmark-group-as-centres/same-as-independent-centres', np.array_equal(np.asarray(p1), np.asarray(p2)))
    ctx.check_true('patches/own-landmark-group-as-centres/landmarks-unchanged', np.array_equal(img.landmarks['pts'].points, before))
    c = img.crop_to_pointcloud(img.landmarks['bb'])
    ctx.check_true('crop_to_pointcloud(own-group)/source-landmarks-unchanged', np.array_equal(img.landmarks['bb'].points, bb))


# ------------------------------------------------------------------------ C15: the same label requested twice
@contract('C15', 'repeated_labels_in_a_request', level='bounded', native_samples=1, configs=[dict(overlap=o) for o in (False, True)],
          functions=['menpo.shape.labelled:LabelledPointUndirectedGraph._new_group_with_only_labels', 'menpo.shape.labelled:LabelledPointUndirectedGraph.with_labels',
                     'menpo.shape.labelled:LabelledPointUndirectedGraph.without_labels'])
def c15_repeated_labels(ctx, overlap):
    """request lists naming a label twice (in every position): the selection
    is the one for the list without repetitions - same points, same edges,
    each label with its own points - or the request is refused; the receiver
    is untouched."""
    from collections import OrderedDict
    T, S = B.menpo_mods()
    rs = ctx.nprng
    n = 9
    P = rs.randn(n, 2)
    edges = np.array([[i, i + 1] for i in range(n - 1)])
    if overlap:
        mapping = OrderedDict([('eye', np.arange(0, 4)), ('face', np.arange(0, 9)), ('nose', np.arange(3, 7))])
    else:
        mapping = OrderedDict([('eye', np.arange(0, 3)), ('face', np.arange(3, 6)), ('nose', np.arange(6, 9))])
    g = S.LabelledPointUndirectedGraph.init_from_indices_mapping(P, edges, mapping)
    requests = [['eye', 'eye', 'face'], ['eye', 'face', 'eye'], ['face', 'eye', 'eye'], ['eye', 'eye'], ['nose', 'eye', 'nose', 'face'], ['eye', 'nose', 'nose']]
    for req in requests:
        uniq = list(OrderedDict.fromkeys(req))
        want = g.with_labels(uniq)
        tag = 'with_labels(%s)' % ','.join(req)
        try:
            got = g.with_labels(list(req))
        except Exception as e:
            ctx.check_true(tag + '/refused-with-ValueError-or-selected', isinstance(e, ValueError), '%s: %s' % (type(e).__name__, e))
            continue
        ctx.check_true(tag + '/points==selection-without-repetitions', np.array_equal(got.points, want.points))
        ctx.check_true(tag + '/labels', list(got.labels) == list(want.labels), '%s vs %s' % (list(got.labels), list(want.labels)))
        ok = all(l in got.labels and np.array_equal(got.get_label(l).points, want.get_label(l).points) for l in want.labels)
        ctx.check_true(tag + '/each-label-keeps-its-own-points', ok)
        ctx.check_true(tag + '/edges', np.array_equal(np.asarray(got.edges), np.asarray(want.edges)))
    for req in (['eye', 'eye'], ['eye', 'nose', 'eye']):
        uniq = list(OrderedDict.fromkeys(req))
        want = g.without_labels(uniq)
        got = g.without_labels(list(req))
        ctx.check_true('without_labels(%s)/same-as-without-repetitions' % ','.join(req), np.array_equal(got.points, want.points) and list(got.labels) == list(want.labels))
    ctx.check_true('receiver-unchanged', np.array_equal(g.points, P) and list(g.labels) == list(mapping))


# ------------------------------------------------------------------------ C17: one mask array for several meshes
@contract('C17', 'one_mask_for_several_meshes', level='bounded', native_samples=2, configs=[dict(d=d) for d in (2, 3)],
          functions=['menpo.shape.mesh.base:TriMesh.from_mask', 'menpo.shape.mesh.base:TriMesh._isolated_mask', 'menpo.shape.mesh.base:TriMesh.from_tri_mask'])
def c17_shared_masks(ctx, d):
    """the same vertex-mask array (also a row of a table of masks) applied to
    several meshes over the same vertices: the mask is not modified and each
    mesh keeps exactly the triangles whose vertices survive."""
    T, S = B.menpo_mods()
    rs = ctx.nprng
    g = np.stack(np.meshgrid(np.arange(3.0), np.arange(3.0), indexing='ij'), -1).reshape(-1, 2)
    pts = g if d == 2 else np.hstack([g, rs.rand(9, 1)])
    tl1 = np.array([[0, 1, 3], [1, 4, 3], [1, 2, 4], [2, 5, 4], [3, 4, 6], [4, 7, 6], [4, 5, 7], [5, 8, 7]])
    tl2 = np.array([[0, 1, 4], [0, 4, 3], [1, 2, 5], [1, 5, 4], [3, 4, 7], [3, 7, 6], [4, 5, 8], [4, 8, 7]])
    meshes = [('TriMesh', S.TriMesh(pts.copy(), trilist=tl1.copy()), tl1), ('ColouredTriMesh', S.ColouredTriMesh(pts.copy(), trilist=tl2.copy(), colours=rs.rand(9, 3)), tl2),
              ('TriMesh-other-diagonals', S.TriMesh(pts.copy(), trilist=tl2.copy()), tl2)]
    table = np.zeros((3, 9), dtype=bool)
    table[0, [0, 1, 2, 3, 4]] = True
    table[1, [0, 1, 3, 4, 5, 8]] = True
    table[2, [2, 4, 5, 6, 7, 8]] = True
    original = table.copy()
    for row in range(3):
        mask = table[row]                        # a view into the table
        for name, m, tl in meshes:
            r = m.from_mask(mask)
            keep = original[row][tl].all(1)
            want = pts[tl[keep]]
            ctx.check_true('mask%d/%s/keeps-the-triangles-whose-vertices-survive' % (row, name), r.points[r.trilist].shape == want.shape and np.array_equal(r.points[r.trilist], want),
                           '%d vs %d triangles' % (r.n_tris, int(keep.sum())))
            ctx.check_true('mask%d/%s/mask-not-modified' % (row, name), np.array_equal(table, original))
    tm = np.array([1, 0, 1, 1, 0, 0, 1, 0], dtype=bool)
    tm0 = tm.copy()
    for name, m, tl in meshes:
        m.from_tri_mask(tm)
        ctx.check_true('tri-mask/%s/mask-not-modified' % name, np.array_equal(tm, tm0))


# ------------------------------------------------------------------------ C18: option objects reused by several calls
@contract('C18', 'option_objects_reused_across_calls', level='bounded', native_samples=1, configs=[dict(feature=f) for f in ('daisy', 'gaussian_filter', 'igo', 'normalize')],
          functions=['menpo.feature.features:daisy', 'menpo.feature.features:gaussian_filter', 'menpo.feature.features:igo', 'menpo.feature.features:normalize'])
def c18_reused_options(ctx, feature):
    """list / array valued options (sigmas, ring radii, a scale function's
    state) handed to several calls in a row - on the array, the Image and the
    MaskedImage - are not modified, and every call gives the result of a call
    with freshly built options."""
    import menpo.feature as F
    from menpo.image import Image, MaskedImage
    rs = ctx.nprng
    x = rs.rand(2, 40, 42)
    objs = [('array', x.copy()), ('Image', Image(x.copy())), ('MaskedImage', MaskedImage(x.copy(), mask=rs.rand(40, 42) > 0.2)), ('array-again', x.copy())]
    if feature == 'daisy':
        fresh = lambda: dict(step=4, radius=8, rings=2, histograms=2, orientations=4, sigmas=[1.0, 2.0, 3.0], ring_radii=[3, 8])
        shared = fresh()
    elif feature == 'gaussian_filter':
        fresh = lambda: dict(sigma=[1.5, 0.5])
        shared = fresh()
    elif feature == 'igo':
        fresh = lambda: dict(double_angles=True)
        shared = fresh()
    else:
        fresh = lambda: dict(scale_func=np.std, mode='per_channel')
        shared = fresh()
    f = getattr(F, feature)
    snap = repr(shared)
    for name, o in objs:
        want = f(o.copy() if hasattr(o, 'copy') else o, **fresh())
        try:
            got = f(o, **shared)
        except Exception as e:
            ctx.check_true('%s/call-with-reused-options-succeeds' % name, False, '%s: %s' % (type(e).__name__, e))
            continue
        ga, wa = (np.asarray(got), np.asarray(want)) if name.startswith('array') else (got.pixels, want.pixels)
        ctx.check_true('%s/same-as-with-fresh-options' % name, ga.shape == wa.shape and np.array_equal(ga, wa), 'shape %s vs %s' % (ga.shape, wa.shape))
        ctx.check_true('%s/options-not-modified' % name, repr(shared) == snap, repr(shared))


# ------------------------------------------------------------------------ C19: the same element / callable in several positions
@contract('C19', 'repeated_elements', level='bounded', native_samples=1, configs=[dict(how=h) for h in ('repeat', 'plus-self', 'repeated-index', 'same-callable-object')],
          functions=['menpo.base:LazyList.map', 'menpo.base:LazyList.repeat', 'menpo.base:LazyList.__add__', 'menpo.base:LazyList.__getitem__'])
def c19_repeated_elements(ctx, how):
    """lazy lists holding the same underlying callable at several positions
    (after repeat, ll + ll, an index list with repetitions, or built from one
    function object): per-element maps, slices and further operations give
    what the same operations give on an ordinary list."""
    from menpo.base import LazyList
    calls = []

    def mk(i):
        def f():
            calls.append(i)
            return i * 10
        return f
    base_fs = [mk(i) for i in range(3)]
    ll = LazyList(base_fs)
    ref = [0, 10, 20]
    if how == 'repeat':
        l2, r2 = ll.repeat(2), [0, 0, 10, 10, 20, 20]
    elif how == 'plus-self':
        l2, r2 = ll + ll, ref + ref
    elif how == 'repeated-index':
        l2, r2 = ll[[2, 0, 2, 2]], [20, 0, 20, 20]
    else:
        one = mk(7)
        l2, r2 = LazyList([one, one, one]), [70, 70, 70]
    n = len(r2)
    ctx.check_true('length', len(l2) == n)
    ctx.check_true('values', list(l2) == r2)
    adders = [(lambda v, k=k: v + k) for k in range(1, n + 1)]
    m = l2.map(adders)
    ctx.check_true('map(one-callable-per-position)', list(m) == [v + k for v, k in zip(r2, range(1, n + 1))], str(list(m)))
    m1 = l2.map(lambda v: -v)
    ctx.check_true('map(single-callable)', list(m1) == [-v for v in r2])
    mm = m.map([(lambda v, k=k: v * k) for k in range(n)])
    ctx.check_true('map-of-map(per-position)', list(mm) == [(v + k + 1) * k for k, v in enumerate(r2)], str(list(mm)))
    ctx.check_true('slice-of-mapped', list(m[1:3]) == [r2[1] + 2, r2[2] + 3][:max(0, min(3, n) - 1)])
    rr = m.repeat(2)
    ctx.check_true('repeat-of-mapped', list(rr) == [w for v, k in zip(r2, range(1, n + 1)) for w in (v + k, v + k)])
    ctx.check_true('source-list-unchanged', list(ll) == ref and len(ll) == 3)


# ------------------------------------------------------------------------ C20: one transform object used about several centres
@contract('C20', 'one_transform_about_several_centres', level='bounded', native_samples=2, configs=[dict(kind=k) for k in ('Affine', 'Similarity', 'Homogeneous', 'Rotation', 'NonUniformScale', 'UniformScale')],
          functions=['menpo.transform.compositions:transform_about_centre', 'menpo.image.base:Image.transform_about_centre'])
def c20_reused_transform(ctx, kind):
    """the same transform object passed to transform_about_centre for two
    different objects (and an image), the first result still in use: the
    transform is not modified, each result keeps its own centre fixed and
    acts as the plain transform on offsets from it."""
    from menpo.transform import transform_about_centre
    from menpo.image import Image
    T, S = B.menpo_mods()
    rs = ctx.nprng
    if kind == 'Affine':
        t = T.Affine(np.array([[1.0, 0.4, 0.0], [0.1, 0.9, 0.0], [0, 0, 1.0]]))
    elif kind == 'Similarity':
        c, s = np.cos(0.5), np.sin(0.5)
        t = T.Similarity(np.array([[1.3 * c, -1.3 * s, 0.0], [1.3 * s, 1.3 * c, 0.0], [0, 0, 1.0]]))
    elif kind == 'Homogeneous':
        t = T.Homogeneous(np.array([[1.1, 0.2, 0.0], [0.0, 0.8, 0.0], [0, 0, 1.0]]))
    elif kind == 'Rotation':
        t = T.Rotation.init_from_2d_ccw_angle(40)
    elif kind == 'NonUniformScale':
        t = T.NonUniformScale([1.5, 0.7])
    else:
        t = T.UniformScale(1.4, 2)
    h0 = t.h_matrix.copy()
    L = h0[:2, :2]
    objs = [S.PointCloud(rs.randn(5, 2) * 3 + [10, 20]), S.PointCloud(rs.randn(6, 2) * 2 + [-7, 4]), S.PointCloud(rs.randn(4, 2) + [100, -50])]
    results = [transform_about_centre(o, t) for o in objs]
    off = np.array([[1.0, 2.0], [-3.0, 0.5], [0.0, 0.0]])
    for i, (o, r) in enumerate(zip(objs, results)):
        c = o.centre()
        ctx.check_true('object%d/result-is-not-the-argument' % i, r is not t)
        close(ctx, 'object%d/centre-fixed' % i, r.apply(c.reshape(1, -1)), c.reshape(1, -1), 1e-9)
        close(ctx, 'object%d/plain-transform-on-offsets' % i, r.apply(c + off) - c, off.dot(L.T), 1e-9)
    close(ctx, 'transform-not-modified', t.h_matrix, h0, 0)
    img = Image(rs.rand(1, 20, 24))
    img.transform_about_centre(t, retain_shape=True)
    img.transform_about_centre(t, retain_shape=False)
    close(ctx, 'transform-not-modified-by-image-calls', t.h_matrix, h0, 0)


# ------------------------------------------------------------------------ C05: one parameter buffer for several instances
def _vectorizables(T, S, rs):
    from menpo.image import Image, MaskedImage, BooleanImage
    P = rs.randn(5, 2) * 3
    m_part = rs.rand(6, 7) > 0.3
    m_part[0, 0] = False
    out = [('PointCloud', S.PointCloud(P.copy())), ('TriMesh', S.TriMesh(P.copy(), trilist=np.array([[0, 1, 2], [2, 3, 4]]))),
           ('PointUndirectedGraph', S.PointUndirectedGraph.init_from_edges(P.copy(), np.array([[0, 1], [3, 4]]))),
           ('Image', Image(rs.randn(2, 6, 7))), ('MaskedImage-all-true', MaskedImage(rs.randn(2, 6, 7))), ('MaskedImage-partial', MaskedImage(rs.randn(2, 6, 7), mask=m_part)),
           ('BooleanImage', BooleanImage(rs.rand(6, 7) > 0.5)),
           ('Affine', T.Affine(np.array([[1.1, 0.2, 0.5], [-0.3, 0.9, 1.5], [0, 0, 1.0]]))), ('Translation', T.Translation([1.0, -2.0])),
           ('Similarity', T.Similarity(np.array([[0.8, -0.6, 1.0], [0.6, 0.8, 2.0], [0, 0, 1.0]]))), ('NonUniformScale', T.NonUniformScale([1.5, 0.5])),
           ('AlignmentAffine', T.AlignmentAffine(S.PointCloud(P.copy()), S.PointCloud(P.dot(np.array([[1.1, 0.2], [-0.1, 0.9]])) + 1.0)))]
    return out


@contract('C05', 'rebuilt_from_its_own_vector', level='bounded', native_samples=2, configs=[dict(k=0)],
          functions=['menpo.base:Vectorizable.from_vector', 'menpo.base:Vectorizable.as_vector', 'menpo.image.base:Image.from_vector',
                     'menpo.image.masked:MaskedImage.from_vector', 'menpo.image.boolean:BooleanImage.from_vector'])
def c05_own_vector(ctx, k):
    """an object rebuilt from its own as_vector() (the argument is a view of
    the receiver's state), and one buffer handed to two from_vector calls:
    the receiver stays unchanged and writable, the vector stays read-only and
    unchanged, each result reproduces the vector it was given at the time of
    the call.  (Whether a result *owns* its storage is not part of C05 as
    stated, and the unchanged tree does not provide it for shapes -
    PointCloud.from_vector keeps a view of its argument - so it is not
    demanded here.)"""
    T, S = B.menpo_mods()
    rs = ctx.nprng
    for name, o in _vectorizables(T, S, rs):
        v = o.as_vector()
        v0 = np.array(v, copy=True)
        twin = o.from_vector(v)
        ctx.check_true(name + '/from_vector(as_vector())/same-vector', np.array_equal(twin.as_vector(), v0))
        ctx.check_true(name + '/from_vector(as_vector())/receiver-unchanged', np.array_equal(o.as_vector(), v0))
        ctx.check_true(name + '/from_vector(as_vector())/vector-still-read-only', not v.flags.writeable)
        own = getattr(o, 'pixels', getattr(o, 'points', getattr(o, '_h_matrix', None)))
        ctx.check_true(name + '/receiver-still-writable', own is None or own.flags.writeable)
        ctx.check_true(name + '/same-class', type(twin) is type(o))
        buf = v0.copy()
        a = o.from_vector(buf)
        ctx.check_true(name + '/from_vector(buffer)/reproduces-the-buffer', np.array_equal(a.as_vector(), v0))
        ctx.check_true(name + '/from_vector(buffer)/buffer-not-modified', np.array_equal(buf, v0))
        ctx.check_true(name + '/from_vector(buffer)/receiver-unchanged', np.array_equal(o.as_vector(), v0))


# ------------------------------------------------------------------------ C08: retargeting one of two related alignments
@contract('C08', 'retargeting_one_of_a_related_pair', level='bounded', native_samples=2,
          configs=[dict(cls=c, d=d) for c in ('AlignmentAffine', 'AlignmentSimilarity', 'AlignmentRotation', 'AlignmentTranslation', 'AlignmentUniformScale', 'ThinPlateSplines', 'PiecewiseAffine')
                   for d in (2, 3) if not (d == 3 and c in ('ThinPlateSplines', 'PiecewiseAffine'))],
          functions=['menpo.transform.base.alignment:Alignment.set_target', 'menpo.transform.homogeneous.base:HomogFamilyAlignment.pseudoinverse',
                     'menpo.transform.homogeneous.base:HomogFamilyAlignment.copy'])
def c08_related_pair(ctx, cls, d):
    """an alignment and an object derived from it (its copy, its
    pseudoinverse, the pseudoinverse of that) are both kept; retargeting
    either one leaves the other exactly the alignment between its own,
    unchanged source and target - and the retargeted one equals a fresh fit."""
    T, S = B.menpo_mods()
    rs = ctx.nprng
    n = 6
    src = rs.randn(n, d) * 3
    if cls == 'PiecewiseAffine':
        src = np.array([[0., 0.], [4., 0.], [4., 4.], [0., 4.], [2., 1.5], [1.0, 3.0]])
    A = np.eye(d) + 0.2 * rs.randn(d, d)
    tgt = src.dot(A.T) + rs.randn(d) + 0.05 * rs.randn(n, d)
    new1 = src.dot((np.eye(d) + 0.2 * rs.randn(d, d)).T) + rs.randn(d) + 0.05 * rs.randn(n, d)
    new2 = src.dot((np.eye(d) + 0.2 * rs.randn(d, d)).T) - rs.randn(d) + 0.05 * rs.randn(n, d)
    mk = lambda s, t: getattr(T, cls)(S.PointCloud(np.array(s, copy=True)), S.PointCloud(np.array(t, copy=True)))
    x = src[:4] * 0.5 + src.mean(0) * 0.5 if cls == 'PiecewiseAffine' else rs.randn(4, d)

    def same_map(tag, got, s, t, tol=1e-8):
        fresh = mk(s, t)
        xs = (np.asarray(s)[:4] * 0.5 + np.asarray(s).mean(0) * 0.5) if cls == 'PiecewiseAffine' else x
        close(ctx, tag + '/==fresh-alignment-of-its-own-source-and-target', got.apply(xs.copy()), fresh.apply(xs.copy()), tol)
        close(ctx, tag + '/source-kept', got.source.points, s, 0)
        close(ctx, tag + '/target-kept', got.target.points, t, 0)
    for derive in ('copy', 'pseudoinverse', 'pseudoinverse.pseudoinverse'):
        a = mk(src, tgt)
        b = a
        for step in derive.split('.'):
            b = getattr(b, step)()
        bs, bt = np.array(b.source.points, copy=True), np.array(b.target.points, copy=True)
        # retarget the derived object; the original must not notice
        b.set_target(S.PointCloud(new1.copy()))
        same_map('%s/retarget-derived/original' % derive, a, src, tgt)
        same_map('%s/retarget-derived/derived' % derive, b, bs, new1)
        # retarget the original; the derived object must not notice
        a.set_target(S.PointCloud(new2.copy()))
        same_map('%s/retarget-original/derived' % derive, b, bs, new1)
        same_map('%s/retarget-original/original' % derive, a, src, new2)
