"""C17 — mesh masking keeps whole triangles and attributes; mesh geometry is sound."""
import itertools

import numpy as np

from vp.registry import contract
from . import builders as B
from .state import state_of, compare_states, independent

TRUSTED = []
ASSUMPTIONS = ['sqrt/norm by their defining contract (r >= 0, r^2 = x); rotations parametrised by (c,s) resp. unit quaternions']

TRILISTS = {
    'one': (3, [[0, 1, 2]]),
    'two-shared-edge': (4, [[0, 1, 2], [1, 3, 2]]),
    'two-isolated': (6, [[0, 1, 2], [3, 4, 5]]),
    'fan-nonmanifold': (5, [[0, 1, 2], [0, 1, 3], [0, 1, 4]]),
    'with-unused-vertex': (5, [[0, 1, 2], [2, 3, 0]]),
    'strip': (5, [[0, 1, 2], [1, 3, 2], [2, 3, 4]]),
}


def mesh(ctx, cls, d, tl_name):
    T, S = B.menpo_mods()
    from menpo.image import Image
    n, tl = TRILISTS[tl_name]
    pts = ctx.reals('p', (n, d))
    trilist = np.array(tl)
    if cls == 'TriMesh':
        m = S.TriMesh(pts, trilist=trilist)
    elif cls == 'ColouredTriMesh':
        m = S.ColouredTriMesh(pts, trilist=trilist, colours=ctx.reals('col', (n, 3)))
    else:
        m = S.TexturedTriMesh(pts, ctx.reals('tc', (n, 2)), Image(ctx.reals('tex', (1, 2, 2))), trilist=trilist)
    m.landmarks['lm'] = S.PointCloud(ctx.reals('lm', (2, d)))
    return m


def _mask_cfgs(tier):
    out = []
    for cls in ('TriMesh', 'ColouredTriMesh', 'TexturedTriMesh'):
        for tl in TRILISTS:
            for d in ((2, 3) if cls == 'TriMesh' else (3,)):
                out.append(dict(cls=cls, d=d, tl=tl))
    return out


@contract('C17', 'masking', configs=_mask_cfgs, functions=[
    'menpo.shape.adjacency:mask_adjacency_array', 'menpo.shape.adjacency:reindex_adjacency_array',
    'menpo.shape.mesh.base:TriMesh.from_mask', 'menpo.shape.mesh.base:TriMesh.from_tri_mask', 'menpo.shape.mesh.base:TriMesh._isolated_mask',
    'menpo.shape.mesh.coloured:ColouredTriMesh.from_mask', 'menpo.shape.mesh.textured:TexturedTriMesh.from_mask'])
def masking(ctx, cls, d, tl):
    """every vertex mask and every triangle mask that keeps at least one whole
    triangle; coordinates / colours / tcoords symbolic."""
    m = mesh(ctx, cls, d, tl)
    n, tris = TRILISTS[tl]
    before = state_of(m)
    P = np.asarray(m.points)

    def check(tag, res, vmask):
        if vmask.all():
            # the all-true mask is the identity (vertices that never had a
            # triangle are not "left without one" by the masking)
            compare_states(ctx, tag + '/all-true-mask-is-identity', state_of(res), before)
            ctx.check_true(tag + '/all-true-mask-returns-a-copy', res is not m)
            independent(ctx, tag + '/result-shares-no-mutable-storage-with-the-receiver', res, m)
            return
        kept = [t for t in tris if all(vmask[v] for v in t)]
        used = sorted({v for t in kept for v in t})
        ctx.check_true(tag + '/class', type(res) is type(m))
        ctx.check_true(tag + '/n-triangles==those-with-all-vertices-surviving', res.n_tris == len(kept), '%d vs %d' % (res.n_tris, len(kept)))
        ctx.check_true(tag + '/orphan-vertices-dropped', res.n_points == len(used), '%d vs %d' % (res.n_points, len(used)))
        if res.n_tris != len(kept) or res.n_points != len(used):
            return
        # every kept triangle still joins the same three coordinates (as multiset of triangles)
        got = [tuple(tuple(np.asarray(res.points)[v]) for v in t) for t in np.asarray(res.trilist)]
        want = [tuple(tuple(P[v]) for v in t) for t in kept]
        for k, (g, w) in enumerate(zip(got, want)):
            ctx.check_eq(tag + '/triangle%d-same-coordinates' % k, np.array(g, dtype=object), np.array(w, dtype=object))
        ctx.check_eq(tag + '/points-are-the-surviving-ones-in-order', res.points, P[used])
        if cls == 'ColouredTriMesh':
            ctx.check_eq(tag + '/colours-ride-with-vertices', res.colours, np.asarray(m.colours)[used])
        if cls == 'TexturedTriMesh':
            ctx.check_eq(tag + '/tcoords-ride-with-vertices', res.tcoords.points, np.asarray(m.tcoords.points)[used])
            ctx.check_eq(tag + '/texture-carried', res.texture.pixels, m.texture.pixels)
        independent(ctx, tag + '/result-shares-no-mutable-storage-with-the-receiver', res, m)
        ctx.check_true(tag + '/landmarks-carried', list(res.landmarks) == ['lm'])
        ctx.check_eq(tag + '/landmarks-unchanged', res.landmarks['lm'].points, m.landmarks['lm'].points)

    for bits in itertools.product([False, True], repeat=n):
        vmask = np.array(bits)
        if not any(all(vmask[v] for v in t) for t in tris):
            continue
        check('vertex-mask%s' % ''.join('1' if b else '0' for b in bits), m.from_mask(vmask), vmask)
    for bits in itertools.product([False, True], repeat=len(tris)):
        if not any(bits):
            continue
        tmask = np.array(bits)
        vmask = np.zeros(n, dtype=bool)
        for t, keep in zip(tris, bits):
            if keep:
                vmask[list(t)] = True
        check('tri-mask%s' % ''.join('1' if b else '0' for b in bits), m.from_tri_mask(tmask), vmask)
    compare_states(ctx, 'input-unchanged', state_of(m), before)


@contract('C17', 'geometry', configs=[dict(d=d, tl=tl) for d in (2, 3) for tl in ('one', 'two-shared-edge')], functions=[
    'menpo.shape.mesh.base:TriMesh.tri_areas', 'menpo.shape.mesh.base:TriMesh.edge_vectors', 'menpo.shape.mesh.base:TriMesh.edge_lengths',
    'menpo.shape.mesh.normals:compute_face_normals', 'menpo.shape.mesh.normals:_normalize'])
def geometry(ctx, d, tl):
    """areas / edge lengths: non-negative, rigid-motion invariant, scale by
    s^2 / |s|; triangle normals: unit, perpendicular, follow rotations."""
    T, S = B.menpo_mods()
    n, tris = TRILISTS[tl]
    pts = ctx.reals('p', (n, d))
    trilist = np.array(tris)
    m = S.TriMesh(pts, trilist=trilist)
    P = np.asarray(pts)
    R = B.rational_rotation(ctx, d, 'R')
    t = ctx.reals('t', d)
    k = ctx.real('k', nonzero=True)
    moved = S.TriMesh(P.dot(np.asarray(R).T) + np.asarray(t), trilist=trilist)
    scaled = S.TriMesh(P * k, trilist=trilist)
    A, Am, As = m.tri_areas(), moved.tri_areas(), scaled.tri_areas()
    for i in range(len(tris)):
        ctx.check('area>=0[%d]' % i, A[i] >= 0)
        if d == 2:
            ctx.check_eq('area^2-rigid-invariant[%d]' % i, Am[i] * Am[i], A[i] * A[i])
            ctx.check_eq('area^2-scales-by-s^4[%d]' % i, As[i] * As[i], A[i] * A[i] * k ** 4)
        else:
            ctx.check_eq('area^2-rigid-invariant[%d]' % i, Am[i] * Am[i], A[i] * A[i], tol=1e-6)
            ctx.check_eq('area^2-scales-by-s^4[%d]' % i, As[i] * As[i], A[i] * A[i] * k ** 4, tol=1e-6)
    E, Em, Es = m.edge_lengths(), moved.edge_lengths(), scaled.edge_lengths()
    for i in range(len(E)):
        ctx.check('edge-length>=0[%d]' % i, E[i] >= 0)
        ctx.check_eq('edge-length^2-rigid-invariant[%d]' % i, Em[i] * Em[i], E[i] * E[i], tol=1e-6)
        ctx.check_eq('edge-length^2-scales-by-s^2[%d]' % i, Es[i] * Es[i], E[i] * E[i] * k * k, tol=1e-6)
    ev = m.edge_vectors()
    ctx.check_eq('edge-vectors', ev, np.vstack([np.vstack([P[t[1]] - P[t[0]], P[t[2]] - P[t[1]], P[t[2]] - P[t[0]]]) for t in tris]))
    if d == 3:
        for tr in tris:
            a, b, c = P[tr[0]], P[tr[1]], P[tr[2]]
            cr = np.cross(b - a, c - a)
            ctx.assume(np.sum(cr * cr) != 0, 'triangle non-degenerate')
        N = m.tri_normals()
        Nm = moved.tri_normals()
        for i, tr in enumerate(tris):
            a, b, c = P[tr[0]], P[tr[1]], P[tr[2]]
            ctx.check_eq('normal-unit[%d]' % i, np.sum(N[i] * N[i]), 1, tol=1e-7)
            ctx.check_eq('normal-perpendicular-ab[%d]' % i, np.sum(N[i] * (b - a)), 0, tol=1e-7)
            ctx.check_eq('normal-perpendicular-ac[%d]' % i, np.sum(N[i] * (c - a)), 0, tol=1e-7)
            if not ctx.sym:
                # (symbolically the two normalising square roots are different
                # atoms whose arguments are too large to unify: bounded only)
                ctx.check_eq('normal-follows-rotation[%d]' % i, Nm[i], np.asarray(R).dot(N[i]), tol=1e-6)


@contract('C17', 'structure_and_vertex_normals', level='bounded', native_samples=4, tol=1e-7,
          configs=[dict(kind=k) for k in ('grid', 'random-trilist', 'tiny-units', 'small-enumerated')],
          functions=['menpo.shape.mesh.base:TriMesh.boundary_tri_index', 'menpo.shape.mesh.base:TriMesh.unique_edge_indices',
                     'menpo.shape.mesh.normals:compute_vertex_normals', 'menpo.shape.mesh.base:TriMesh.edge_indices'])
def structure_and_vertex_normals(ctx, kind):
    """bounded stand-in: boundary detection == triangles owning an edge that
    occurs once; unique edges list each undirected edge once; vertex normals
    are unit vectors; normals stay unit for meshes in very small units."""
    T, S = B.menpo_mods()
    rs = ctx.nprng
    if kind == 'grid':
        m = S.TriMesh.init_2d_grid((rs.randint(2, 6), rs.randint(2, 6)))
        m = S.TriMesh(np.hstack([m.points, rs.randn(m.n_points, 1)]), trilist=m.trilist)
    elif kind in ('random-trilist', 'tiny-units'):
        n = rs.randint(4, 9)
        tl = np.array([rs.choice(n, 3, replace=False) for _ in range(rs.randint(1, 8))])
        scale = 1e-7 if kind == 'tiny-units' else 1.0
        m = S.TriMesh(rs.randn(n, 3) * scale, trilist=tl)
    else:
        name = list(TRILISTS)[rs.randint(len(TRILISTS))]
        n, tl = TRILISTS[name]
        m = S.TriMesh(rs.randn(n, 3), trilist=np.array(tl))
    tl = np.asarray(m.trilist)
    edges = {}
    for ti, t in enumerate(tl):
        for a, b in ((t[0], t[1]), (t[1], t[2]), (t[2], t[0])):
            edges.setdefault((min(a, b), max(a, b)), []).append(ti)
    bnd = np.zeros(len(tl), dtype=bool)
    for e, owners in edges.items():
        if len(owners) == 1:
            bnd[owners[0]] = True
    if all(len(o) <= 2 for o in edges.values()):
        ctx.check_true('boundary==triangles-owning-an-unshared-edge', np.array_equal(m.boundary_tri_index(), bnd))
    ue = m.unique_edge_indices()
    ctx.check_true('unique-edges-each-undirected-edge-once', sorted(map(tuple, np.sort(ue, axis=1).tolist())) == sorted(edges))
    N = m.tri_normals()
    nondeg = np.linalg.norm(np.cross(m.points[tl[:, 1]] - m.points[tl[:, 0]], m.points[tl[:, 2]] - m.points[tl[:, 0]]), axis=1) > 0
    ctx.check_eq('triangle-normals-unit', np.linalg.norm(N[nondeg], axis=1), np.ones(int(nondeg.sum())))
    V = m.vertex_normals()
    used = np.unique(tl)
    vn = np.linalg.norm(V[used], axis=1)
    ok = vn > 1e-9
    ctx.check_eq('vertex-normals-unit', vn[ok], np.ones(int(ok.sum())))
    # triangle normals follow proper rotations
    q = rs.randn(4); q /= np.linalg.norm(q)
    R = B.quat_rot(list(q))
    m2 = S.TriMesh(m.points.dot(R.T), trilist=tl)
    ctx.check_eq('triangle-normals-follow-rotation', m2.tri_normals()[nondeg], N[nondeg].dot(R.T), tol=1e-6)
