"""C20 — convenience transform constructors follow their documented conventions."""
import numpy as np

from vp.registry import contract
from . import builders as B
from .c03 import check_honest, _opaque_transform

TRUSTED = []
ASSUMPTIONS = [
    'cos/sin are uninterpreted functions of their argument with cos^2+sin^2=1; arccos/arctan2 by their defining contracts (DESIGN 2.3)',
    'pi is a real constant within (3.14159, 3.14160); deg2rad(x) = x*pi/180',
]


def eye(n):
    I = np.zeros((n, n), dtype=object)
    I[...] = 0
    for i in range(n):
        I[i, i] = 1
    return I


ROT_CTORS = {
    '2d': ('init_from_2d_ccw_angle', 2, None),
    'x': ('init_from_3d_ccw_angle_around_x', 3, 0),
    'y': ('init_from_3d_ccw_angle_around_y', 3, 1),
    'z': ('init_from_3d_ccw_angle_around_z', 3, 2),
}


def expected_rotation(which, c, s):
    if which == '2d':
        return np.array([[c, -s], [s, c]], dtype=object)
    if which == 'x':
        return np.array([[1, 0, 0], [0, c, -s], [0, s, c]], dtype=object)
    if which == 'y':
        return np.array([[c, 0, s], [0, 1, 0], [-s, 0, c]], dtype=object)
    return np.array([[c, -s, 0], [s, c, 0], [0, 0, 1]], dtype=object)


@contract('C20', 'ccw_angle_constructors',
          configs=[dict(which=w, degrees=dg) for w in ROT_CTORS for dg in (True, False)],
          functions=['menpo.transform.homogeneous.rotation:Rotation.init_from_2d_ccw_angle',
                     'menpo.transform.homogeneous.rotation:Rotation.init_from_3d_ccw_angle_around_x',
                     'menpo.transform.homogeneous.rotation:Rotation.init_from_3d_ccw_angle_around_y',
                     'menpo.transform.homogeneous.rotation:Rotation.init_from_3d_ccw_angle_around_z'])
def ccw_angle_constructors(ctx, which, degrees):
    """the matrix is the documented CCW matrix about the stated axis as a
    function of the same angle (deg->rad conversion exactly once); hence
    orthogonal, det +1, fixes the axis, turns e_a towards e_b."""
    T, S = B.menpo_mods()
    name, d, axis = ROT_CTORS[which]
    theta = ctx.real('theta', scale=200.0 if degrees else 4.0)
    r = getattr(T.Rotation, name)(theta, degrees=degrees)
    arg = theta * ctx.pi() / 180 if degrees else theta
    c, s = ctx.cos(arg), ctx.sin(arg)
    R = expected_rotation(which, c, s)
    ctx.check_true('class', type(r) is T.Rotation and r.n_dims == d)
    ctx.check_eq('matrix', r.rotation_matrix, R)
    ctx.check_eq('orthogonal', r.rotation_matrix.T.dot(r.rotation_matrix), eye(d))
    ctx.check_eq('det=+1', B.det(r.rotation_matrix), 1)
    check_honest(ctx, 'honest', r, d)
    # sense: in the rotation plane e_a -> cos e_a + sin e_b (counter-clockwise)
    plane = {'2d': (0, 1), 'x': (1, 2), 'y': (2, 0), 'z': (0, 1)}[which]
    e = np.zeros((1, d), dtype=object if ctx.sym else float)
    e[...] = 0
    e[0, plane[0]] = 1
    img = r.apply(e)
    want = np.zeros((1, d), dtype=object)
    want[...] = 0
    want[0, plane[0]] = c
    want[0, plane[1]] = s
    ctx.check_eq('sense/e_a->cos*e_a+sin*e_b', img, want)
    if axis is not None:
        ax = np.zeros((1, d), dtype=object if ctx.sym else float)
        ax[...] = 0
        ax[0, axis] = 1
        ctx.check_eq('axis-fixed', r.apply(ax), ax)


@contract('C20', 'reported_angle_2d', configs=[dict(via=v, half=h) for v in ('angle', 'matrix') for h in ('ccw', 'cw')],
          functions=['menpo.transform.homogeneous.rotation:Rotation.axis_and_angle_of_rotation',
                     'menpo.transform.homogeneous.rotation:Rotation._axis_and_angle_of_rotation_2d'])
def reported_angle_2d(ctx, via, half):
    """the (axis, angle) reported for a 2-D rotation reconstructs it, sign
    included.  Split into counter-clockwise (sin >= 0) and clockwise (sin < 0)
    rotations so that the recorded finding on the clockwise half cannot mask
    anything on the other half."""
    T, S = B.menpo_mods()
    if via == 'angle':
        theta = ctx.real('theta', lo=-7.0, hi=7.0)
        r = T.Rotation.init_from_2d_ccw_angle(theta, degrees=False)
        c, s = ctx.cos(theta), ctx.sin(theta)
    else:
        c, s = ctx.unit2('r')
        M = np.empty((2, 2), dtype=object if ctx.sym else float)
        M[0, 0], M[0, 1], M[1, 0], M[1, 1] = c, -s, s, c
        r = T.Rotation(M)
    ctx.assume(s >= 0 if half == 'ccw' else s < 0, 'half %s' % half)
    axis, phi = r.axis_and_angle_of_rotation()
    ctx.check_true('axis-is-z', list(np.asarray(axis, dtype=float)) == [0.0, 0.0, 1.0])
    ctx.check_eq('cos(reported)=cos', ctx.cos(phi), c, tol=1e-7)
    ctx.check_eq('sin(reported)=sin', ctx.sin(phi), s, tol=1e-7)
    r2 = T.Rotation.init_from_2d_ccw_angle(phi, degrees=False)
    ctx.check_eq('reconstructs', r2.h_matrix, r.h_matrix, tol=1e-7)


@contract('C20', 'quaternion_to_rotation', configs=[{}],
          functions=['menpo.transform.homogeneous.rotation:Rotation._from_vector_inplace',
                     'menpo.transform.homogeneous.rotation:Rotation.init_3d_from_quaternion'])
def quaternion_to_rotation(ctx):
    """a unit quaternion gives a proper rotation, namely the Euler-Rodrigues matrix."""
    T, S = B.menpo_mods()
    q = B.unit_quat(ctx, 'q')
    qa = np.array(q, dtype=object if ctx.sym else float)
    r = T.Rotation.init_3d_from_quaternion(qa)
    R = r.rotation_matrix
    ctx.check_eq('euler-rodrigues', R, B.quat_rot(q))
    ctx.check_eq('orthogonal', R.T.dot(R), eye(3))
    ctx.check_eq('det=+1', B.det(R), 1)
    check_honest(ctx, 'honest', r, 3)
    # -q is the same rotation
    r2 = T.Rotation.init_3d_from_quaternion(-qa)
    ctx.check_eq('q~-q', r2.rotation_matrix, R)


@contract('C20', 'quaternion_roundtrip', configs=[{}], level='bounded', native_samples=60, tol=1e-6,
          functions=['menpo.transform.homogeneous.rotation:Rotation._as_vector'])
def quaternion_roundtrip(ctx):
    """bounded stand-in: as_vector(from_vector(q)) == q for unit q with q0 > 0
    (needs the spectrum of K(R(q)); eigenvector uniqueness is not a polynomial goal)."""
    T, S = B.menpo_mods()
    q = np.array(B.unit_quat(ctx, 'q'), dtype=float)
    if q[0] < 0:
        q = -q
    ctx.assume(q[0] > 1e-3)
    r = T.Rotation.init_3d_from_quaternion(q)
    ctx.check_eq('roundtrip', r.as_vector(), q)
    ctx.check_eq('roundtrip2', r.from_vector(r.as_vector()).h_matrix, r.h_matrix)


AXES = {'generic': None, 'x': (1, 0, 0), 'y': (0, 1, 0), 'z': (0, 0, 1), '-x': (-1, 0, 0), '-z': (0, 0, -1), 'xy-diagonal': (1, 1, 0), 'yz-diagonal': (0, 1, 1),
        'space-diagonal': (1, 1, 1)}


@contract('C20', 'axis_angle_3d', configs=[dict(axis=a) for a in AXES], level='bounded', native_samples=20, tol=1e-6,
          functions=['menpo.transform.homogeneous.rotation:Rotation._axis_and_angle_of_rotation_3d'])
def axis_angle_3d(ctx, axis='generic'):
    """bounded stand-in (np.linalg.eig + np.random inside the code): the
    reported axis and angle reconstruct the rotation (Rodrigues formula) -
    generic axes and rotations exactly about the coordinate axes / diagonals,
    built from a quaternion and through the ccw constructors."""
    T, S = B.menpo_mods()
    q = np.array(B.unit_quat(ctx, 'q'), dtype=float)
    if AXES[axis] is not None:
        a = np.array(AXES[axis], dtype=float)
        a /= np.linalg.norm(a)
        half = np.arctan2(np.linalg.norm(q[1:]), q[0])
        q = np.concatenate([[np.cos(half)], np.sin(half) * a])
        if axis in ('x', 'y', 'z'):
            deg = float(np.rad2deg(2 * half))
            if 12 < abs(deg) % 180 < 168:
                ctor = getattr(T.Rotation, 'init_from_3d_ccw_angle_around_' + axis)
                rr = ctor(deg)
                ax2, ph2 = rr.axis_and_angle_of_rotation()
                K2 = np.array([[0, -ax2[2], ax2[1]], [ax2[2], 0, -ax2[0]], [-ax2[1], ax2[0], 0]])
                ctx.check_eq('ccw-constructor-about-%s/rodrigues-reconstructs' % axis, np.eye(3) + np.sin(ph2) * K2 + (1 - np.cos(ph2)) * K2.dot(K2), rr.rotation_matrix)
    # away from the identity and from half turns
    ang = 2 * np.arccos(min(1.0, abs(q[0])))
    ctx.assume(0.2 < ang < np.pi - 0.2)
    r = T.Rotation.init_3d_from_quaternion(q)
    axis, phi = r.axis_and_angle_of_rotation()
    ctx.check_true('axis-unit', abs(np.linalg.norm(axis) - 1) < 1e-9)
    K = np.array([[0, -axis[2], axis[1]], [axis[2], 0, -axis[0]], [-axis[1], axis[0], 0]])
    Rr = np.eye(3) + np.sin(phi) * K + (1 - np.cos(phi)) * K.dot(K)
    ctx.check_eq('rodrigues-reconstructs', Rr, r.rotation_matrix)


def _obj(ctx, kind, d):
    T, S = B.menpo_mods()
    if kind == 'pointcloud':
        return B.cloud(ctx, 'p', 3, d)
    if kind == 'trimesh':
        return S.TriMesh(ctx.reals('p', (3, d)), trilist=np.array([[0, 1, 2]]), copy=False)
    from menpo.image import Image
    shape = (3, 4) if d == 2 else (2, 3, 2)
    return Image(np.zeros((1,) + shape))


def _about_cfgs(tier):
    out = []
    for kind in ('pointcloud', 'trimesh', 'image'):
        for d in (2, 3):
            for tr in ('Affine', 'Rotation', 'UniformScale', 'NonUniformScale', 'Similarity', 'Translation', 'Homogeneous', 'Opaque'):
                out.append(dict(kind=kind, d=d, tr=tr))
    return out


@contract('C20', 'transform_about_centre', configs=_about_cfgs,
          functions=['menpo.transform.compositions:transform_about_centre',
                     'menpo.shape.pointcloud:PointCloud.centre', 'menpo.image.base:Image.centre'])
def transform_about_centre(ctx, kind, d, tr):
    """T keeps the centre fixed... precisely: T(c + v) = c + A(v) for the plain transform A."""
    T, S = B.menpo_mods()
    obj = _obj(ctx, kind, d)
    if tr == 'Opaque':
        A = _opaque_transform(ctx, 'F', d)
    else:
        A, _ = B.build(ctx, tr, d, 'A')
    Tc = T.transform_about_centre(obj, A)
    c = np.asarray(obj.centre())
    v = ctx.reals('v', (2, d))
    ctx.check_eq('acts-on-offsets', Tc.apply(v + c), A.apply(v) + c)
    if tr in ('Rotation', 'UniformScale', 'NonUniformScale'):
        # linear maps: the centre itself is fixed
        ctx.check_eq('centre-fixed', Tc.apply(c.reshape(1, d)), c.reshape(1, d))
    if tr != 'Opaque':
        ctx.check_true('single-homogeneous', isinstance(Tc, T.Homogeneous))


@contract('C20', 'named_about_centre', configs=[dict(which=w, degrees=dg, kind=k) for w in ('scale', 'rotate', 'shear')
                                               for dg in (True, False) for k in ('pointcloud', 'image')
                                               if not (w == 'scale' and not dg)],
          functions=['menpo.transform.compositions:scale_about_centre', 'menpo.transform.compositions:rotate_ccw_about_centre',
                     'menpo.transform.compositions:shear_about_centre', 'menpo.transform.homogeneous.affine:Affine.init_from_2d_shear'])
def named_about_centre(ctx, which, degrees, kind):
    T, S = B.menpo_mods()
    obj = _obj(ctx, kind, 2)
    c = np.asarray(obj.centre()).reshape(1, 2)
    v = ctx.reals('v', (1, 2))
    conv = (lambda a: a * ctx.pi() / 180) if degrees else (lambda a: a)
    if which == 'scale':
        k = ctx.real('k', nonzero=True)
        Tc = T.scale_about_centre(obj, k)
        ctx.check_eq('scale/offsets', Tc.apply(v + c), v * k + c)
        ctx.check_eq('scale/centre-fixed', Tc.apply(c), c)
    elif which == 'rotate':
        th = ctx.real('theta', scale=100.0 if degrees else 3.0)
        Tc = T.rotate_ccw_about_centre(obj, th, degrees=degrees)
        cs, sn = ctx.cos(conv(th)), ctx.sin(conv(th))
        want = np.empty((1, 2), dtype=object)
        want[0, 0] = cs * v[0, 0] - sn * v[0, 1]
        want[0, 1] = sn * v[0, 0] + cs * v[0, 1]
        ctx.check_eq('rotate/offsets', Tc.apply(v + c), want + c)
        ctx.check_eq('rotate/centre-fixed', Tc.apply(c), c)
    else:
        phi = ctx.real('phi', lo=-1.2 * (57.3 if degrees else 1), hi=1.2 * (57.3 if degrees else 1))
        psi = ctx.real('psi', lo=-1.2 * (57.3 if degrees else 1), hi=1.2 * (57.3 if degrees else 1))
        Tc = T.shear_about_centre(obj, phi, psi, degrees=degrees)
        tphi = ctx.sin(conv(phi)) / ctx.cos(conv(phi))
        tpsi = ctx.sin(conv(psi)) / ctx.cos(conv(psi))
        want = np.empty((1, 2), dtype=object)
        want[0, 0] = v[0, 0] + tphi * v[0, 1]
        want[0, 1] = tpsi * v[0, 0] + v[0, 1]
        ctx.check_eq('shear/offsets', Tc.apply(v + c), want + c)
        ctx.check_eq('shear/centre-fixed', Tc.apply(c), c)


@contract('C20', 'scale_factory', configs=[dict(d=d, case=c) for d in (2, 3) for c in ('equal', 'different', 'zero', 'float+n_dims')],
          functions=['menpo.transform.homogeneous.scale:Scale'])
def scale_factory(ctx, d, case):
    """uniform exactly when all factors are equal; refuses zeros."""
    T, S = B.menpo_mods()
    if case == 'equal':
        k = ctx.real('k', nonzero=True)
        f = np.empty(d, dtype=object if ctx.sym else float)
        f[...] = k
        t = T.Scale(f)
        ctx.check_true('equal/UniformScale', type(t) is T.UniformScale and t.n_dims == d)
        ctx.check_eq('equal/factor', t.scale, k)
    elif case == 'different':
        f = ctx.reals('k', d, nonzero=True)
        # "clearly different": some factor differs from the first by more than 1e-3 relative
        diff = f[1] - f[0]
        ctx.assume(abs(diff) > 1e-3 * (1 + abs(f[0])), 'clearly different')
        t = T.Scale(f)
        ctx.check_true('different/NonUniformScale', type(t) is T.NonUniformScale and t.n_dims == d)
        ctx.check_eq('different/factors', t.scale, f)
    elif case == 'zero':
        f = ctx.reals('k', d)
        ctx.assume_eq(f[d - 1], 0, 'a zero factor')
        ctx.check_true('zero/refused', ctx.raises(ValueError, T.Scale, f))
        ctx.check_true('zero/refused-with-n_dims', ctx.raises(ValueError, T.Scale, 0.0, n_dims=d))
    else:
        k = ctx.real('k', nonzero=True)
        t = T.Scale(k, n_dims=d)
        ctx.check_true('float/UniformScale', type(t) is T.UniformScale and t.n_dims == d)
        ctx.check_eq('float/factor', t.scale, k)


@contract('C20', 'tcoords', configs=[dict(square=s) for s in (True, False)],
          functions=['menpo.transform.tcoords:tcoords_to_image_coords', 'menpo.transform.tcoords:image_coords_to_tcoords'])
def tcoords(ctx, square):
    """unit-square corners go to the image corner pixels with the vertical
    axis flipped; the two transforms are mutual inverses."""
    T, S = B.menpo_mods()
    h = ctx.real('h', lo=1.5, hi=50.0)
    w = h if square else ctx.real('w', lo=1.5, hi=50.0)
    if not square:
        ctx.assume((w - h > 0.01 * h) if ctx.sym else abs(w - h) > 0.01 * h, 'clearly non-square')
    shape = np.array([h, w], dtype=object if ctx.sym else float)
    t2i = T.tcoords_to_image_coords(shape)
    i2t = T.image_coords_to_tcoords(shape)
    corners = ctx.const_array([[0, 0], [1, 0], [0, 1], [1, 1]])
    want = np.array([[h - 1, 0], [h - 1, w - 1], [0, 0], [0, w - 1]], dtype=object)
    ctx.check_eq('corners', t2i.apply(corners), want)
    x = ctx.reals('x', (2, 2))
    ctx.check_eq('inverse/t2i-then-i2t', i2t.apply(t2i.apply(x)), x)
    ctx.check_eq('inverse/i2t-then-t2i', t2i.apply(i2t.apply(x)), x)
