"""Representation independence and query-history independence.

Bounded run-time contracts (never counted as proved) that close the gap the
deductive contracts leave by construction: those are universal over *values*
but the form in which a value is handed over - dtype, container class,
memory layout, an argument reused between calls - and the calls made earlier
on the same object are enumerated.  Two metamorphic oracles on the real code:

* representation independence: a result does not depend on how an input that
  denotes the same numbers is represented (float64 / int64 / int32 / float32
  array, nested list, tuple, read-only, Fortran-ordered, non-contiguous view),
  and no argument is modified;
* history independence of queries: a query answered on an object that has
  already answered other queries (in any order, with other options) equals the
  answer of a freshly built object.

Base inputs are integer-valued so that every persona denotes exactly the same
mathematical input (float32 included).
"""
import itertools
import os
import tempfile

import numpy as np

from vp.registry import contract
from . import builders as B


# ----------------------------------------------------------------- personas
def personas(a, kinds=None):
    """(name, representation) pairs of the integer-valued float64 array a."""
    a = np.asarray(a, dtype=np.float64)
    out = [
        ('int64', a.astype(np.int64)),
        ('int32', a.astype(np.int32)),
        ('float32', a.astype(np.float32)),
        ('list', a.tolist()),
        ('readonly', _ro(a.copy())),
        ('fortran', np.asfortranarray(a.copy())),
        ('strided-view', _strided(a)),
    ]
    if a.ndim == 1:
        out.append(('tuple', tuple(a.tolist())))
        out.append(('int-tuple', tuple(int(v) for v in a.tolist())))
    if kinds is not None:
        out = [(k, v) for k, v in out if k in kinds]
    return out


def _ro(a):
    a.setflags(write=False)
    return a


def _strided(a):
    big = np.zeros(tuple(2 * s for s in a.shape), dtype=a.dtype)
    sl = tuple(slice(None, None, 2) for _ in a.shape)
    big[sl] = a
    return big[sl]


def snapshot(v):
    if isinstance(v, np.ndarray):
        return ('nd', v.dtype.str, v.shape, v.tobytes())
    return ('py', repr(v))


ARRAY_PERSONAS = ('int64', 'int32', 'float32', 'readonly', 'fortran', 'strided-view')


def ints(rs, shape, lo=-6, hi=7, distinct_rows=False):
    for _ in range(200):
        a = rs.randint(lo, hi, size=shape).astype(np.float64)
        if not distinct_rows or len({tuple(r) for r in a}) == len(a):
            return a
    return a


def close(ctx, name, got, ref, tol=1e-9, note=''):
    got, ref = np.asarray(got, dtype=np.float64), np.asarray(ref, dtype=np.float64)
    ok = got.shape == ref.shape and bool(np.all(np.abs(got - ref) <= tol * (1 + np.abs(ref))))
    ctx.check_true(name, ok, note or ('max abs diff %s' % (np.abs(got - ref).max() if got.shape == ref.shape and got.size else 'shape %s vs %s' % (got.shape, ref.shape))))


def well_conditioned(rs, d, lo=-3, hi=4):
    for _ in range(500):
        L = rs.randint(lo, hi, size=(d, d)).astype(np.float64)
        if abs(np.linalg.det(L)) >= 1:
            return L
    return np.eye(d)


# ------------------------------------------------------------------ C02 / C09
@contract('C02', 'representation_independence', level='bounded', native_samples=2,
          configs=[dict(shape=s, d=d) for s in ('PointCloud', 'TriMesh', 'PointUndirectedGraph', 'array') for d in (2, 3) if not (s == 'TriMesh' and d == 3 and False)],
          functions=['menpo.transform.base:Transform.apply', 'menpo.transform.base:Transform._apply_batched', 'menpo.shape.pointcloud:PointCloud.__init__'])
def c02_representation(ctx, shape, d):
    """applying a transform to points given as int / float32 / read-only /
    Fortran / strided arrays (bare or inside a shape, with and without
    batching) gives the numbers it gives for the float64 array, and does not
    modify what it was given."""
    T, S = B.menpo_mods()
    rs = ctx.nprng
    n = 5
    pts = ints(rs, (n, d), distinct_rows=True)
    L = well_conditioned(rs, d) / 2.0
    t = rs.randint(-3, 4, size=d) + 0.25
    H = np.eye(d + 1); H[:d, :d] = L; H[:d, d] = t
    transforms = [('Affine', T.Affine(H)), ('Translation', T.Translation(t)), ('NonUniformScale', T.NonUniformScale(np.arange(1, d + 1) + 0.5)),
                  ('Chain', T.TransformChain([T.Translation(t), T.UniformScale(1.5, d)]))]
    if d == 2:
        src = np.array([[0., 0.], [4., 0.], [0., 4.], [5., 5.]])
        transforms.append(('ThinPlateSplines', T.ThinPlateSplines(S.PointCloud(src), S.PointCloud(src * 1.5 + np.array([[0.5, 0], [0, 0.25], [0, 0], [1, 1]])))))
    tl = np.array([[0, 1, 2], [2, 3, 4]])

    def wrap(p):
        if shape == 'array':
            return p
        if shape == 'PointCloud':
            return S.PointCloud(p, copy=False)
        if shape == 'TriMesh':
            return S.TriMesh(p, trilist=tl, copy=False)
        return S.PointUndirectedGraph.init_from_edges(p, np.array([[0, 1], [1, 2], [3, 4]]), copy=False)
    for tname, tr in transforms:
        ref = tr.apply(pts.copy())
        for pname, rep in personas(pts, ARRAY_PERSONAS):
            before = snapshot(rep)
            for bs in (None, 2, 7):
                arg = wrap(rep)
                out = tr.apply(arg, batch_size=bs)
                got = out if shape == 'array' else out.points
                tol = 1e-5 if pname == 'float32' else 1e-9
                close(ctx, '%s/%s/batch=%s/same-numbers-as-float64' % (tname, pname, bs), got, ref, tol)
            ctx.check_true('%s/%s/argument-not-modified' % (tname, pname), snapshot(rep) == before)


# ------------------------------------------------------------------------ C03
@contract('C03', 'representation_independence', level='bounded', native_samples=2, configs=[dict(d=d) for d in (2, 3)],
          functions=['menpo.transform.homogeneous.affine:Affine.__init__', 'menpo.transform.homogeneous.affine:Affine._set_h_matrix',
                     'menpo.transform.homogeneous.base:Homogeneous._set_h_matrix', 'menpo.transform.base.composable:ComposableTransform.compose_before',
                     'menpo.transform.base.composable:ComposableTransform.compose_after_inplace'])
def c03_representation(ctx, d):
    """composition law and closure for transforms whose parameters were given
    as integer / float32 / list / read-only / Fortran arrays: same map as the
    float64-built transform, in all four compose variants, on both sides."""
    T, S = B.menpo_mods()
    rs = ctx.nprng
    L = well_conditioned(rs, d)
    tv = rs.randint(-3, 4, size=d).astype(np.float64)
    H = np.eye(d + 1); H[:d, :d] = L; H[:d, d] = tv
    Hs = np.eye(d + 1); Hs[:d, :d] = 2 * np.eye(d)[::-1] if d == 2 else 2 * np.eye(d)[[1, 2, 0]]; Hs[:d, d] = tv   # scaled permutation: a similarity
    sc = np.arange(2, 2 + d).astype(np.float64)
    x = rs.randn(4, d)
    partners = [('Translation', T.Translation(np.full(d, 0.5))), ('UniformScale', T.UniformScale(1.5, d)),
                ('Affine', T.Affine(np.vstack([np.hstack([np.eye(d) + 0.25 * rs.randn(d, d), rs.randn(d, 1)]), [0] * d + [1]])))]
    if d == 2:
        partners.append(('Rotation', T.Rotation.init_from_2d_ccw_angle(30)))
    builders = [('Affine', H, lambda m: T.Affine(m)), ('Homogeneous', H, lambda m: T.Homogeneous(m)), ('Similarity', Hs, lambda m: T.Similarity(m)),
                ('NonUniformScale', sc, lambda m: T.NonUniformScale(m)), ('Translation', tv, lambda m: T.Translation(m)),
                ('Scale-factory', sc, lambda m: T.Scale(m))]
    for cname, base, make in builders:
        ref_t = make(base.copy())
        for pname, rep in personas(base, ('int64', 'int32', 'float32', 'list', 'readonly', 'fortran')):
            before = snapshot(rep) if isinstance(rep, np.ndarray) else None
            try:
                t = make(rep)
            except Exception as e:      # a representation the constructor refuses is fine (refusal is not silent corruption)
                ctx.note('%s(%s) refused: %s' % (cname, pname, type(e).__name__))
                continue
            try:
                y0 = t.apply(x)
            except (AttributeError, TypeError) as e:    # e.g. a nested list kept as the matrix: fails loudly at first use, not silently
                ctx.note('%s(%s) unusable: %s' % (cname, pname, type(e).__name__))
                continue
            close(ctx, '%s(%s)/same-map-as-float64-built' % (cname, pname), y0, ref_t.apply(x), 1e-6)
            for qname, q in partners:
                for variant in ('compose_before', 'compose_after'):
                    want = q.apply(ref_t.apply(x)) if variant == 'compose_before' else ref_t.apply(q.apply(x))
                    got = getattr(make(rep), variant)(q)
                    close(ctx, '%s(%s).%s(%s)/law' % (cname, pname, variant, qname), got.apply(x), want, 1e-5)
                    # the other operand position
                    want2 = make(base.copy()).apply(q.apply(x)) if variant == 'compose_before' else q.apply(ref_t.apply(x))
                    got2 = getattr(q.copy(), variant)(make(rep))
                    close(ctx, '%s.%s(%s(%s))/law' % (qname, variant, cname, pname), got2.apply(x), want2, 1e-5)
                    tt = make(rep)
                    if isinstance(q, getattr(tt, 'composes_inplace_with', ())):
                        getattr(tt, variant + '_inplace')(q)
                        close(ctx, '%s(%s).%s_inplace(%s)/law' % (cname, pname, variant, qname), tt.apply(x), want, 1e-5)
            if before is not None:
                ctx.check_true('%s(%s)/argument-not-modified' % (cname, pname), snapshot(rep) == before)


# ------------------------------------------------------------------------ C04
@contract('C04', 'inverse_after_history', level='bounded', native_samples=2,
          configs=[dict(cls=c, d=d) for c in ('AlignmentTranslation', 'AlignmentUniformScale', 'AlignmentRotation', 'AlignmentSimilarity', 'AlignmentAffine',
                                               'ThinPlateSplines', 'PiecewiseAffine', 'Affine', 'Similarity', 'Rotation', 'NonUniformScale')
                   for d in (2, 3) if not (c in ('ThinPlateSplines', 'PiecewiseAffine') and d == 3)],
          functions=['menpo.transform.homogeneous.base:Homogeneous.pseudoinverse', 'menpo.transform.homogeneous.base:HomogFamilyAlignment.pseudoinverse',
                     'menpo.transform.homogeneous.base:Homogeneous._h_matrix_pseudoinverse', 'menpo.base:Targetable.set_target'])
def c04_inverse_after_history(ctx, cls, d):
    """the pseudoinverse taken after the transform has been inspected, copied,
    inverted before, re-targeted or re-parametrised is the inverse of the
    transform as it is NOW (two-sided on points), and equals the pseudoinverse
    of a freshly built equal transform; integer-typed parameters included."""
    T, S = B.menpo_mods()
    rs = ctx.nprng
    n = 5 if d == 2 else 6
    src = rs.randn(n, d) * 2
    x = rs.randn(4, d)

    def target():
        L = np.eye(d) + 0.3 * rs.randn(d, d)
        return src.dot(L.T) + rs.randn(d)
    if cls == 'PiecewiseAffine':
        src = np.array([[0., 0.], [4., 0.], [0., 4.], [4., 4.], [2., 1.]])
        x = np.array([[1., 1.], [3., 2.], [2., 3.], [0.5, 3.]])

        def target():
            return src * (1 + 0.2 * rs.rand()) + 0.2 * rs.randn(*src.shape) + rs.randn(2)
    if cls.startswith('Alignment') or cls in ('ThinPlateSplines', 'PiecewiseAffine'):
        make = lambda tg: getattr(T, cls)(S.PointCloud(src.copy()), S.PointCloud(tg.copy()))
        t0, t1 = target(), target()
        a = make(t0)
        a.pseudoinverse(); a.copy(); a.pseudoinverse().pseudoinverse()
        a.set_target(S.PointCloud(t1.copy()))
        fresh = make(t1)
        y = fresh.apply(x)
        for label, tr in (('after-retarget', a), ('copy-after-retarget', a.copy())):
            inv, finv = tr.pseudoinverse(), fresh.pseudoinverse()
            close(ctx, '%s/pseudoinverse==pseudoinverse-of-rebuilt' % label, inv.apply(y), finv.apply(y), 1e-7)
            if cls != 'ThinPlateSplines':
                close(ctx, '%s/left-inverse' % label, inv.apply(tr.apply(x)), x, 1e-6)
            close(ctx, '%s/inverse-source-is-current-target' % label, inv.source.points, tr.target.points, 1e-12)
            close(ctx, '%s/inverse-target-is-the-source' % label, inv.target.points, tr.source.points, 1e-12)
            if cls in ('ThinPlateSplines', 'PiecewiseAffine'):
                close(ctx, '%s/inverse-maps-target-landmarks-onto-source' % label, inv.apply(tr.target.points), tr.source.points, 1e-6)
        if hasattr(a, 'from_vector') and cls not in ('ThinPlateSplines', 'PiecewiseAffine', 'AlignmentRotation') and not (cls == 'AlignmentSimilarity' and d == 3):
            v = fresh.as_vector() * 1.0
            b = make(t0)
            b.pseudoinverse()
            b._from_vector_inplace(v)
            close(ctx, 'after-from_vector/pseudoinverse-inverts-the-current-map', b.pseudoinverse().apply(b.apply(x)), x, 1e-6)
        return
    # plain homogeneous classes, integer-typed parameters, history of in-place updates
    L = well_conditioned(rs, d)
    H = np.eye(d + 1); H[:d, :d] = L; H[:d, d] = rs.randint(-3, 4, size=d)
    if cls == 'Similarity':
        P = np.eye(d)[::-1] if d == 2 else np.eye(d)[[1, 2, 0]]
        H[:d, :d] = 2 * P
    if cls == 'Rotation':
        P = np.array([[0., -1.], [1., 0.]]) if d == 2 else np.eye(3)[[1, 2, 0]]
        H = np.eye(d + 1); H[:d, :d] = P
    for pname, rep in personas(H, ('int64', 'float32', 'readonly')) + [('float64', H.copy())]:
        if cls == 'NonUniformScale':
            t = T.NonUniformScale(np.arange(2, 2 + d).astype(np.asarray(rep).dtype))
        elif cls == 'Rotation':
            t = T.Rotation(np.asarray(rep)[:d, :d])
        else:
            t = getattr(T, cls)(rep)
        t.pseudoinverse()
        other = T.Translation(np.full(d, 0.5)) if cls != 'Rotation' else (T.Rotation.init_from_2d_ccw_angle(40) if d == 2 else T.Rotation.init_from_3d_ccw_angle_around_z(40))
        if isinstance(other, getattr(t, 'composes_inplace_with', ())):
            t.compose_before_inplace(other)
        inv = t.pseudoinverse()
        close(ctx, '%s/after-inplace-update/left-inverse' % pname, inv.apply(t.apply(x)), x, 1e-5)
        close(ctx, '%s/after-inplace-update/right-inverse' % pname, t.apply(inv.apply(x)), x, 1e-5)


# ------------------------------------------------------------------------ C05
@contract('C05', 'representation_independence', level='bounded', native_samples=2, configs=[dict(d=d) for d in (2, 3)],
          functions=['menpo.transform.homogeneous.scale:NonUniformScale.__init__', 'menpo.transform.homogeneous.scale:UniformScale.__init__',
                     'menpo.transform.homogeneous.translation:Translation.__init__', 'menpo.transform.homogeneous.affine:Affine._from_vector_inplace',
                     'menpo.shape.pointcloud:PointCloud._from_vector_inplace'])
def c05_representation(ctx, d):
    """from_vector(v).as_vector() == v and the receiver stays unchanged when
    the object was built from integer / float32 / list / tuple parameters."""
    T, S = B.menpo_mods()
    rs = ctx.nprng
    sc = np.arange(2, 2 + d).astype(np.float64)
    tv = rs.randint(-3, 4, size=d).astype(np.float64)
    L = well_conditioned(rs, d)
    H = np.eye(d + 1); H[:d, :d] = L; H[:d, d] = tv
    Hs = np.eye(d + 1); Hs[:d, :d] = 2 * (np.eye(d)[::-1] if d == 2 else np.eye(d)[[1, 2, 0]]); Hs[:d, d] = tv
    pts = ints(rs, (4, d), distinct_rows=True)
    cases = [('NonUniformScale', sc, lambda m: T.NonUniformScale(m)), ('Scale-factory', sc, lambda m: T.Scale(m)),
             ('UniformScale', np.array([3.0]), lambda m: T.UniformScale(m[0] if not isinstance(m, tuple) else m[0], d)),
             ('Translation', tv, lambda m: T.Translation(m)), ('Affine', H, lambda m: T.Affine(m)), ('Similarity', Hs, lambda m: T.Similarity(m)),
             ('PointCloud', pts, lambda m: S.PointCloud(m)), ('TriMesh', pts, lambda m: S.TriMesh(m, trilist=np.array([[0, 1, 2], [1, 2, 3]]))),
             ('PointUndirectedGraph', pts, lambda m: S.PointUndirectedGraph.init_from_edges(m, np.array([[0, 1], [2, 3]])))]
    for cname, base, make in cases:
        for pname, rep in personas(base, ('int64', 'int32', 'float32', 'list', 'tuple', 'int-tuple', 'readonly')):
            if cname == 'Similarity' and d == 3:
                continue                  # 3-D similarities are documented as not vectorizable
            try:
                obj = make(rep)
                v0 = np.array(obj.as_vector(), dtype=np.float64)
            except (AttributeError, TypeError, ValueError) as e:
                ctx.note('%s(%s) refused / unusable: %s' % (cname, pname, type(e).__name__))
                continue
            ctx.check_true('%s(%s)/as_vector-has-n_parameters-entries' % (cname, pname), v0.size == obj.n_parameters)
            v = v0 + (0.5 + 0.125 * np.arange(v0.size)).reshape(v0.shape)
            new = obj.from_vector(v)
            close(ctx, '%s(%s)/from_vector(v).as_vector()==v' % (cname, pname), new.as_vector(), v, 1e-6)
            close(ctx, '%s(%s)/receiver-unchanged' % (cname, pname), obj.as_vector(), v0, 0)
            obj2 = make(rep)
            obj2._from_vector_inplace(v) if hasattr(obj2, '_from_vector_inplace') else None
            close(ctx, '%s(%s)/in-place-update-takes-the-vector' % (cname, pname), obj2.as_vector(), v, 1e-6)


# ------------------------------------------------------------------ C07 / C08
def _align_cases(T):
    out = []
    for cls, opts in (('AlignmentTranslation', {}), ('AlignmentUniformScale', {}), ('AlignmentAffine', {}), ('AlignmentRotation', {}),
                      ('AlignmentSimilarity', {}), ('AlignmentSimilarity', dict(rotation=False)), ('ThinPlateSplines', {}), ('PiecewiseAffine', {})):
        out.append((cls, opts))
    return out


@contract('C08', 'representation_and_history', level='bounded', native_samples=2, configs=[dict(d=2), dict(d=3)],
          functions=['menpo.base:Targetable.set_target', 'menpo.transform.thinplatesplines:ThinPlateSplines._build_coefficients',
                     'menpo.transform.base.alignment:Alignment.__init__'])
def c08_representation(ctx, d):
    """an alignment built on integer-typed / float32 / read-only point sets and
    then re-targeted (to float targets, twice, with queries in between) equals
    the alignment built afresh on float64 copies; the passed point sets are
    not modified."""
    T, S = B.menpo_mods()
    rs = ctx.nprng
    src = np.array([[0., 0.], [4., 0.], [0., 4.], [4., 4.], [2., 1.]]) if d == 2 else ints(rs, (6, 3), distinct_rows=True)
    if d == 3:
        src = src + np.arange(6)[:, None] * np.array([1., 0, 0])
    x = src[:3] * 0.5 + 0.25
    t_int = src * 2 + rs.randint(-2, 3, size=(1, d))
    t_int[1] += 1
    t_f1 = src * 1.5 + 0.3 * rs.randn(*src.shape) + 0.5
    t_f2 = src * 0.75 + 0.3 * rs.randn(*src.shape) - 0.25
    for cls, opts in _align_cases(T):
        if d == 3 and cls in ('ThinPlateSplines', 'PiecewiseAffine'):
            continue
        mk = lambda s, t: getattr(T, cls)(S.PointCloud(s, copy=False), S.PointCloud(t, copy=False), **opts)
        for pname in ('int64', 'int32', 'float32', 'readonly'):
            s_rep = dict(personas(src, (pname,)))[pname]
            t_rep = dict(personas(t_int, (pname,)))[pname]
            snap = (snapshot(s_rep), snapshot(t_rep))
            tag = '%s%s/%s' % (cls, opts or '', pname)
            try:
                a = mk(s_rep, t_rep)
            except Exception as e:
                ctx.check_true(tag + '/construction-on-this-representation', False, '%s: %s' % (type(e).__name__, e))
                continue
            ref0 = mk(src.copy(), t_int.copy())
            tol = 1e-4 if pname == 'float32' else 1e-7
            close(ctx, tag + '/built==built-on-float64', a.apply(x), ref0.apply(x), tol)
            a.aligned_source(); a.alignment_error(); a.copy()
            for k, tg in enumerate((t_f1, t_f2)):
                a.set_target(S.PointCloud(tg.copy()))
                fresh = mk(src.copy(), tg.copy())
                close(ctx, tag + '/retarget%d==rebuilt/map' % k, a.apply(x), fresh.apply(x), tol)
                close(ctx, tag + '/retarget%d==rebuilt/aligned-source' % k, a.aligned_source().points, fresh.aligned_source().points, tol)
                close(ctx, tag + '/retarget%d/target-is-the-new-target' % k, a.target.points, tg, 0)
            ctx.check_true(tag + '/passed-point-sets-not-modified', (snapshot(s_rep), snapshot(t_rep)) == snap)
            if pname == 'readonly':
                # the caller keeps ONE target object, overwrites its coordinates and hands the same object over again
                buf = S.PointCloud(t_f1.copy())
                a.set_target(buf)
                for k, tg in enumerate((t_f2, t_f1 * 1.25 + 0.5)):
                    buf.points[...] = tg
                    a.set_target(buf)
                    fresh = mk(src.copy(), tg.copy())
                    close(ctx, tag + '/same-target-object-with-new-coordinates%d==rebuilt/map' % k, a.apply(x), fresh.apply(x), 1e-7)
                    close(ctx, tag + '/same-target-object-with-new-coordinates%d==rebuilt/aligned-source' % k, a.aligned_source().points, fresh.aligned_source().points, 1e-7)
                if cls == 'AlignmentSimilarity' and not opts:
                    # in-place composition changes the map but not the target; re-fitting to its own target restores the fit
                    b = mk(src.copy(), t_f1.copy())
                    b.compose_after_inplace(T.Similarity.init_identity(d).compose_before(T.UniformScale(1.5, d)) if hasattr(T.Similarity, 'init_identity') else T.UniformScale(1.5, d))
                    b.set_target(b.target)
                    close(ctx, tag + '/refit-to-own-target-after-in-place-composition==rebuilt', b.apply(x), mk(src.copy(), np.array(b.target.points)).apply(x), 1e-7)


# ------------------------------------------------------------------ C10 / C11
@contract('C10', 'queries_do_not_change_the_model', level='bounded', native_samples=2,
          configs=[dict(n=n, d=d, centre=c, backed=b) for (n, d) in ((12, 4), (4, 9)) for c in (True, False) for b in ('vector', 'pointcloud')],
          functions=['menpo.model.pca:PCAVectorModel.whitened_components', 'menpo.model.pca:PCAVectorModel.project_whitened',
                     'menpo.model.pca:PCAVectorModel.components', 'menpo.model.linear:MeanLinearVectorModel.project_out_vectors',
                     'menpo.model.pca:PCAVectorModel.variance', 'menpo.model.pca:PCAVectorModel.eigenvalues_cumulative_ratio'])
def c10_query_history(ctx, n, d, centre, backed):
    """every read-only query of a PCA model (components, whitened components,
    variances and ratios, projections, reconstructions, str) leaves all PCA
    identities intact: each query gives the same answer before and after all
    the others have been asked, in both orders; integer-typed data gives the
    model of the float data."""
    from menpo.model import PCAVectorModel, PCAModel
    T, S = B.menpo_mods()
    rs = ctx.nprng
    dd = d + (d % 2 if backed == 'pointcloud' else 0)
    X = np.round(rs.randn(n, dd) * np.linspace(6, 1, dd) * 3) + rs.randint(-3, 4, size=dd)

    def build(M):
        if backed == 'pointcloud':
            return PCAModel([S.PointCloud(r.reshape(-1, 2)) for r in M], centre=centre)
        return PCAVectorModel(M, centre=centre)
    m = build(X.copy())
    v = m if backed == 'vector' else m
    inst = X[0] + 0.5
    wrap = (lambda r: S.PointCloud(r.reshape(-1, 2))) if backed == 'pointcloud' else (lambda r: r)
    vec = (lambda o: o.as_vector()) if backed == 'pointcloud' else (lambda o: np.asarray(o))
    k = m.n_components
    w = np.linspace(1, 2, k)
    Q = OrderedQueries = [
        ('components', lambda: m.components), ('eigenvalues', lambda: m.eigenvalues), ('mean', lambda: vec(m.mean())),
        ('whitened_components', lambda: m.whitened_components()), ('variance', lambda: m.variance()), ('variance_ratio', lambda: m.variance_ratio()),
        ('eigenvalues_ratio', lambda: m.eigenvalues_ratio()), ('eigenvalues_cumulative_ratio', lambda: m.eigenvalues_cumulative_ratio()),
        ('original_variance', lambda: m.original_variance()), ('noise_variance', lambda: m.noise_variance()),
        ('project', lambda: m.project(wrap(inst))), ('project_whitened', lambda: m.project_whitened(wrap(inst))),
        ('reconstruct', lambda: vec(m.reconstruct(wrap(inst)))), ('project_out', lambda: vec(m.project_out(wrap(inst)))),
        ('instance', lambda: vec(m.instance(w))), ('component0', lambda: vec(m.component(0))), ('str', lambda: len(str(m))),
        ('n_active', lambda: m.n_active_components),
    ]
    first = [(nm, np.array(q(), dtype=np.float64, copy=True)) for nm, q in Q]
    again = [(nm, np.array(q(), dtype=np.float64, copy=True)) for nm, q in reversed(Q)]
    for (nm, a) in first:
        b = dict(again)[nm]
        close(ctx, 'query[%s]/same-answer-after-all-other-queries' % nm, b, a, 1e-12)
    C = np.asarray(m.components)
    close(ctx, 'after-queries/components-orthonormal', C.dot(C.T), np.eye(len(C)), 1e-8)
    close(ctx, 'after-queries/project(instance(w))==w', m.project(m.instance(w)), w, 1e-8)
    # integer-typed data: the model of the same numbers
    if backed == 'vector':
        for pname in ('int64', 'int32'):      # (float32 data legitimately keeps rounding-noise components: not compared)
            try:
                mi = PCAVectorModel(dict(personas(X, (pname,)))[pname], centre=centre)
            except TypeError as e:          # numpy's casting error: refused loudly, nothing to compare
                ctx.note('PCAVectorModel(data as %s) refused: %s' % (pname, type(e).__name__))
                continue
            tol = 1e-3 if pname == 'float32' else 1e-8
            close(ctx, 'data-as-%s/eigenvalues' % pname, mi.eigenvalues, m.eigenvalues, tol)
            close(ctx, 'data-as-%s/mean' % pname, mi.mean(), m.mean(), tol)
            Pi, Pm = mi.components.T.dot(mi.components), C.T.dot(C)
            close(ctx, 'data-as-%s/principal-subspace' % pname, Pi, Pm, 1e-2 if pname == 'float32' else 1e-6)


@contract('C11', 'representation_independence', level='bounded', native_samples=2,
          configs=[dict(n=n, d=d, centre=c, backed=b) for (n, d) in ((12, 4), (6, 9)) for c in (True, False) for b in ('vector', 'pointcloud')],
          functions=['menpo.math.decomposition:ipca', 'menpo.model.pca:PCAVectorModel.increment', 'menpo.model.pca:PCAModel.increment'])
def c11_representation(ctx, n, d, centre, backed):
    """increments handed over as integer / float32 arrays, lists of vectors or
    integer-valued point clouds give the batch model of the same numbers."""
    from menpo.model import PCAVectorModel, PCAModel
    T, S = B.menpo_mods()
    rs = ctx.nprng
    dd = d + (d % 2 if backed == 'pointcloud' else 0)
    X = np.round(rs.randn(n, dd) * np.linspace(6, 1, dd) * 3) + rs.randint(2, 6, size=dd)
    cut = n // 2

    def build(M):
        if backed == 'pointcloud':
            return PCAModel([S.PointCloud(r.reshape(-1, 2)) for r in M], centre=centre)
        return PCAVectorModel(M, centre=centre)
    batch = build(X.copy())
    for pname in ('float64', 'int64', 'int32', 'float32', 'list-of-vectors'):
        m = build(X[:cut].copy())
        inc = X[cut:]
        if pname == 'list-of-vectors':
            rep = [r.astype(np.int64) for r in inc]
        elif pname == 'float64':
            rep = inc.copy()
        else:
            rep = dict(personas(inc, (pname,)))[pname]
        if backed == 'pointcloud':
            rep = [S.PointCloud(np.asarray(r).reshape(-1, 2), copy=False) for r in rep]
        m.increment(rep)
        tol = 1e-3 if pname == 'float32' else 1e-6
        tag = 'increment-as-%s' % pname
        ctx.check_true(tag + '/n_samples', m.n_samples == n)
        close(ctx, tag + '/mean', m._mean, batch._mean, tol)
        kk = min(len(m._eigenvalues), len(batch._eigenvalues))
        ctx.check_true(tag + '/same-number-of-components', len(m._eigenvalues) == len(batch._eigenvalues))
        close(ctx, tag + '/eigenvalues', m._eigenvalues[:kk], batch._eigenvalues[:kk], tol)
        close(ctx, tag + '/principal-subspace', m._components[:kk].T.dot(m._components[:kk]), batch._components[:kk].T.dot(batch._components[:kk]), 1e-2 if pname == 'float32' else 1e-5)


# ------------------------------------------------------------------------ C12
@contract('C12', 'queries_do_not_change_model_or_arguments', level='bounded', native_samples=2,
          configs=[dict(graph=g, sparse=s, mode=m) for g in ('chain4', 'edgeless4', 'tree5') for s in (False, True) for m in ('concatenation', 'subtraction')],
          functions=['menpo.model.gmrf:GMRFVectorModel.mahalanobis_distance', 'menpo.model.gmrf:GMRFVectorModel._mahalanobis_distance', 'menpo.model.gmrf:GMRFVectorModel.mean'])
def c12_query_history(ctx, graph, sparse, mode):
    """Mahalanobis queries neither modify the arrays they are given nor the
    model: reusing a query array, asking at the model's own mean, and asking
    single after batched all give the answers of a fresh model; data and
    queries as float64 / float32 / int / list / read-only."""
    from menpo.model import GMRFVectorModel
    from .c11 import _graphs
    rs = ctx.nprng
    G = _graphs()[graph]
    fpv = 2
    nf = G.n_vertices * fpv
    X = np.round((rs.randn(30, nf) + 0.4 * np.roll(rs.randn(30, nf), 1, axis=1)) * 4) + rs.randint(-3, 4, size=nf)
    mk = lambda: GMRFVectorModel(X.copy(), G, mode=mode, sparse=sparse, dtype=np.float64)
    m = mk()
    Q = np.round(rs.randn(4, nf) * 5)
    want = np.array([float(mk().mahalanobis_distance(q.copy())) for q in Q])
    mean0 = np.array(m.mean(), copy=True)
    for pname, rep in personas(Q, ARRAY_PERSONAS + ('list',)) + [('float64', Q.copy())]:
        snap = snapshot(rep) if isinstance(rep, np.ndarray) else repr(rep)
        tol = 1e-4 if pname == 'float32' else 1e-8
        got = m.mahalanobis_distance(rep)
        close(ctx, 'queries-as-%s/batched==fresh-single-answers' % pname, got, want, tol)
        if isinstance(rep, np.ndarray):
            close(ctx, 'queries-as-%s/single-after-batched-on-the-same-array' % pname, [float(m.mahalanobis_distance(rep[i])) for i in range(4)], want, tol)
            close(ctx, 'queries-as-%s/batched-again' % pname, m.mahalanobis_distance(rep), want, tol)
        ctx.check_true('queries-as-%s/argument-not-modified' % pname, (snapshot(rep) if isinstance(rep, np.ndarray) else repr(rep)) == snap)
    z = float(m.mahalanobis_distance(m.mean()))
    close(ctx, 'zero-at-the-mean', z, 0.0, 1e-8)
    close(ctx, 'mean-unchanged-by-querying-at-the-mean', m.mean(), mean0, 0)
    close(ctx, 'mean==sample-mean-after-all-queries', m.mean(), X.mean(0), 1e-9)
    close(ctx, 'answers-after-all-queries==fresh', [float(m.mahalanobis_distance(q.copy())) for q in Q], want, 1e-8)


# ------------------------------------------------------------------------ C14
@contract('C14', 'query_history_independence', level='bounded', native_samples=3,
          configs=[dict(kind=k) for k in ('undirected', 'directed', 'tree', 'point-undirected')],
          functions=['menpo.shape.graph:Graph.find_all_shortest_paths', 'menpo.shape.graph:Graph.find_shortest_path', 'menpo.shape.graph:Graph.find_path',
                     'menpo.shape.graph:Graph.find_all_paths', 'menpo.shape.graph:Graph.n_paths'])
def c14_query_history(ctx, kind):
    """every path / shortest-path / structure query, with every option
    combination, answered on a graph that has already answered all the others
    (and on its copy) equals the answer of a freshly built graph; edge arrays
    of any integer dtype build the same graph."""
    import scipy.sparse as sp
    T, S = B.menpo_mods()
    rs = ctx.nprng
    n = 7
    if kind == 'tree':
        par = [rs.randint(0, i) for i in range(1, n)]
        edges = np.array([[par[i - 1], i] for i in range(1, n)])
        W = np.zeros((n, n)); W[edges[:, 0], edges[:, 1]] = rs.randint(1, 9, size=len(edges))
        mk = lambda: S.Tree(sp.csr_matrix(W), 0)
    else:
        W = np.triu((rs.rand(n, n) < 0.5) * rs.randint(1, 9, size=(n, n)), 1).astype(float)
        for i in range(n - 1):
            if W[i, i + 1] == 0:
                W[i, i + 1] = rs.randint(5, 9)
        if kind == 'directed':
            mk = lambda: S.DirectedGraph(sp.csr_matrix(W))
        elif kind == 'undirected':
            mk = lambda: S.UndirectedGraph(sp.csr_matrix(W + W.T))
        else:
            P = rs.randn(n, 2)
            mk = lambda: S.PointUndirectedGraph(P.copy(), sp.csr_matrix(W + W.T))
    pairs = [(0, n - 1), (1, n - 2), (n - 1, 0), (2, 5)]
    queries = []
    for s, e in pairs:
        for unw in (False, True):
            for alg in ('auto', 'D', 'FW'):
                queries.append(('shortest[%d->%d,unweighted=%s,%s]' % (s, e, unw, alg),
                                lambda g, s=s, e=e, unw=unw, alg=alg: _norm(g.find_shortest_path(s, e, algorithm=alg, unweighted=unw))))
        for meth in ('bfs', 'dfs'):
            queries.append(('path[%d->%d,%s]' % (s, e, meth), lambda g, s=s, e=e, meth=meth: _norm(g.find_path(s, e, method=meth))))
        queries.append(('n_paths[%d->%d]' % (s, e), lambda g, s=s, e=e: g.n_paths(s, e)))
    for unw in (False, True):
        queries.append(('all-shortest[unweighted=%s]' % unw, lambda g, unw=unw: _norm(g.find_all_shortest_paths(unweighted=unw))))
    queries += [('has_cycles', lambda g: g.has_cycles()), ('is_tree', lambda g: g.is_tree()), ('n_edges', lambda g: g.n_edges),
                ('isolated', lambda g: g.has_isolated_vertices()), ('edges', lambda g: _norm(np.asarray(g.edges))),
                ('adjacency', lambda g: _norm(g.adjacency_matrix.toarray()))]
    if kind in ('undirected', 'point-undirected'):
        for root in (0, n - 1):
            queries.append(('mst[root=%d]' % root, lambda g, root=root: _norm(g.minimum_spanning_tree(root).adjacency_matrix.toarray())))
    want = {}
    for nm, q in queries:
        try:
            want[nm] = q(mk())
        except Exception as e:
            want[nm] = ('raises', type(e).__name__)
    for label, order in (('in-order', queries), ('reversed', list(reversed(queries)))):
        g = mk()
        for obj_label, obj in ((label, g),):
            for nm, q in order:
                try:
                    got = q(obj)
                except Exception as e:
                    got = ('raises', type(e).__name__)
                ctx.check_true('%s/%s==fresh-graph' % (obj_label, nm), repr(got) == repr(want[nm]), '%r vs %r' % (got, want[nm]))
        if not hasattr(g, 'copy'):
            continue
        c = g.copy()
        for nm, q in order[::3]:
            try:
                got = q(c)
            except Exception as e:
                got = ('raises', type(e).__name__)
            ctx.check_true('%s/copy-of-used-graph/%s==fresh-graph' % (label, nm), repr(got) == repr(want[nm]), '%r vs %r' % (got, want[nm]))
    # integer dtype of the edge array
    if kind in ('undirected', 'directed'):
        E = np.array([[i, j] for i in range(n) for j in range(n) if W[i, j] > 0])
        cls = S.UndirectedGraph if kind == 'undirected' else S.DirectedGraph
        ref = cls.init_from_edges(E.astype(np.int64), n).adjacency_matrix.toarray()
        for dt in (np.int32, np.uint8, np.int8, np.uint16):
            got = cls.init_from_edges(E.astype(dt), n)
            ctx.check_true('edges-as-%s/same-graph' % np.dtype(dt).name, np.array_equal(got.adjacency_matrix.toarray(), ref) and got.n_edges == len(E))


def _norm(v):
    if isinstance(v, tuple):
        return tuple(_norm(x) for x in v)
    if isinstance(v, np.ndarray):
        return np.round(np.where(np.isfinite(v), v, -1.0), 9).tolist()
    if isinstance(v, list):
        return [_norm(x) for x in v]
    if isinstance(v, (float, np.floating)):
        return round(float(v), 9) if np.isfinite(v) else 'inf'
    if isinstance(v, np.integer):
        return int(v)
    return v


# ------------------------------------------------------------------------ C17
@contract('C17', 'trilist_representation_independence', level='bounded', native_samples=2,
          configs=[dict(grid=g, d=d, winding=w) for g in ((3, 3), (5, 5), (2, 9)) for d in (2, 3) for w in ('consistent', 'mixed')] +
          [dict(grid=(3, 3), d=d, winding=w) for d in (2, 3) for w in ('non-manifold-interior', 'closed-surface')],
          functions=['menpo.shape.mesh.base:TriMesh.unique_edge_indices', 'menpo.shape.mesh.base:TriMesh.boundary_tri_index', 'menpo.shape.mesh.base:TriMesh.from_mask',
                     'menpo.shape.mesh.base:TriMesh.tri_areas', 'menpo.shape.mesh.base:TriMesh.edge_indices', 'menpo.shape.mesh.base:TriMesh.vertex_normals'])
def c17_trilist_representation(ctx, grid, d, winding='consistent'):
    """a triangle list given in any integer dtype wide enough for the vertex
    indices (int8 ... uint64, list of lists, Fortran order, read-only) gives the
    mesh queries and maskings of the int64 triangle list; unique edges are each
    undirected edge exactly once (independent reference)."""
    T, S = B.menpo_mods()
    rs = ctx.nprng
    base = S.TriMesh.init_2d_grid(grid)
    pts = base.points + 0.2 * rs.rand(*base.points.shape)
    if d == 3:
        pts = np.hstack([pts, rs.rand(len(pts), 1)])
    tl = np.asarray(base.trilist).astype(np.int64)
    if winding == 'mixed':
        # an arbitrary triangle list: some triangles listed the other way round, the list shuffled, a fan added on one edge (non-manifold)
        flip = rs.rand(len(tl)) < 0.4
        tl[flip] = tl[flip][:, [0, 2, 1]]
        tl = tl[rs.permutation(len(tl))]
        extra = [int(tl[0][0]), int(tl[0][1]), len(pts) - 1]
        if len(set(extra)) == 3 and not any(set(extra) == set(map(int, t)) for t in tl):
            tl = np.vstack([tl, [extra]])
    if winding == 'non-manifold-interior':
        # triangle 4 has every edge shared, one of them (0,1) by three triangles: it owns no unshared edge
        tl = np.array([[0, 1, 3], [0, 1, 4], [1, 2, 5], [2, 0, 6], [0, 1, 2]], dtype=np.int64)
    if winding == 'closed-surface':
        # a tetrahedron-like closed list: every edge shared by exactly two triangles, no boundary at all
        tl = np.array([[0, 1, 2], [0, 1, 3], [1, 2, 3], [2, 0, 3]], dtype=np.int64)
    n = len(pts)
    ref = S.TriMesh(pts.copy(), trilist=tl.copy())
    und = sorted({tuple(sorted((int(t[i]), int(t[(i + 1) % 3])))) for t in tl for i in range(3)})
    got_und = sorted(tuple(sorted(map(int, e))) for e in ref.unique_edge_indices())
    ctx.check_true('int64/unique-edges==each-undirected-edge-once(reference)', got_und == und, '%d vs %d edges' % (len(got_und), len(und)))
    cnt = {}
    for t in tl:
        for i in range(3):
            e = tuple(sorted((int(t[i]), int(t[(i + 1) % 3]))))
            cnt[e] = cnt.get(e, 0) + 1
    want_boundary = np.array([any(cnt[tuple(sorted((int(t[i]), int(t[(i + 1) % 3]))))] == 1 for i in range(3)) for t in tl])
    ctx.check_true('int64/boundary-triangles==triangles-owning-an-unshared-edge(reference)', np.array_equal(np.asarray(ref.boundary_tri_index()).astype(bool), want_boundary))
    mask = np.ones(n, dtype=bool); mask[rs.randint(0, n)] = False; mask[0] = True
    reps = [(np.dtype(dt).name, tl.astype(dt)) for dt in (np.int8, np.uint8, np.int16, np.uint16, np.int32, np.uint32, np.uint64) if n - 1 <= np.iinfo(dt).max]
    reps += [('list', tl.tolist()), ('fortran', np.asfortranarray(tl.copy())), ('readonly', _ro(tl.copy()))]
    for pname, rep in reps:
        snap = snapshot(rep) if isinstance(rep, np.ndarray) else repr(rep)
        try:
            m = S.TriMesh(pts.copy(), trilist=rep)
        except Exception as e:
            ctx.note('TriMesh(trilist as %s) refused: %s' % (pname, type(e).__name__))
            continue
        tag = 'trilist-as-%s' % pname
        g = sorted(tuple(sorted(map(int, e))) for e in m.unique_edge_indices())
        ctx.check_true(tag + '/unique-edges', g == und, '%d vs %d edges' % (len(g), len(und)))
        ctx.check_true(tag + '/edge_indices', np.array_equal(np.asarray(m.edge_indices(), dtype=np.int64), np.asarray(ref.edge_indices(), dtype=np.int64)))
        ctx.check_true(tag + '/boundary', np.array_equal(np.asarray(m.boundary_tri_index()).astype(bool), want_boundary))
        close(ctx, tag + '/tri_areas', m.tri_areas(), ref.tri_areas(), 1e-12)
        close(ctx, tag + '/unique_edge_lengths', np.sort(m.unique_edge_lengths()), np.sort(ref.unique_edge_lengths()), 1e-12)
        close(ctx, tag + '/mean_edge_length', m.mean_edge_length(), ref.mean_edge_length(), 1e-12)
        if d == 3:
            close(ctx, tag + '/vertex_normals', m.vertex_normals(), ref.vertex_normals(), 1e-12)
        a, b = m.from_mask(mask), ref.from_mask(mask)
        ctx.check_true(tag + '/from_mask', np.array_equal(np.asarray(a.trilist, dtype=np.int64), np.asarray(b.trilist, dtype=np.int64)) and np.array_equal(a.points, b.points))
        ctx.check_true(tag + '/argument-not-modified', (snapshot(rep) if isinstance(rep, np.ndarray) else repr(rep)) == snap)


# ------------------------------------------------------------------------ C20
@contract('C20', 'argument_forms', level='bounded', native_samples=2, configs=[dict(which=w) for w in ('tcoords', 'scale-factory', 'ccw', 'about-centre')],
          functions=['menpo.transform.tcoords:tcoords_to_image_coords', 'menpo.transform.tcoords:image_coords_to_tcoords', 'menpo.transform.homogeneous.scale:Scale',
                     'menpo.transform.homogeneous.rotation:Rotation.init_from_2d_ccw_angle'])
def c20_argument_forms(ctx, which):
    """the convenience constructors give the same transform whatever form their
    arguments take (tuple / list / int or float array / numpy scalar / reused
    array), do not modify them, and give it again when called a second time
    with the very same argument objects."""
    T, S = B.menpo_mods()
    rs = ctx.nprng
    x = rs.rand(5, 2)
    if which == 'tcoords':
        from menpo.transform.tcoords import tcoords_to_image_coords, image_coords_to_tcoords
        h, w = int(rs.randint(3, 40)), int(rs.randint(3, 40))
        ref_f, ref_b = tcoords_to_image_coords((h, w)), image_coords_to_tcoords((h, w))
        corners = np.array([[0., 0.], [1., 0.], [0., 1.], [1., 1.]])
        close(ctx, 'tuple/corners-onto-corner-pixels-with-vertical-flip', ref_f.apply(corners), np.array([[h - 1, 0], [h - 1, w - 1], [0, 0], [0, w - 1]], dtype=float), 1e-12)
        for pname, rep in [('list', [h, w]), ('int64-array', np.array([h, w])), ('int32-array', np.array([h, w], dtype=np.int32)),
                           ('float-array', np.array([h, w], dtype=float)), ('readonly-array', _ro(np.array([h, w])))]:
            snap = snapshot(rep) if isinstance(rep, np.ndarray) else repr(rep)
            for k in range(2):          # the same argument object, twice, both directions
                f, b = tcoords_to_image_coords(rep), image_coords_to_tcoords(rep)
                close(ctx, 'shape-as-%s/call%d/forward==tuple-form' % (pname, k), f.apply(x), ref_f.apply(x), 1e-12)
                close(ctx, 'shape-as-%s/call%d/backward==tuple-form' % (pname, k), b.apply(ref_f.apply(x)), x, 1e-9)
                close(ctx, 'shape-as-%s/call%d/mutual-inverses' % (pname, k), b.apply(f.apply(x)), x, 1e-9)
            ctx.check_true('shape-as-%s/argument-not-modified' % pname, (snapshot(rep) if isinstance(rep, np.ndarray) else repr(rep)) == snap)
        return
    if which == 'scale-factory':
        for d in (2, 3):
            for vals, uniform in (([2.0] * d, True), (list(np.arange(2, 2 + d).astype(float)), False)):
                ref = T.Scale(np.array(vals))
                xx = rs.randn(4, d)
                for pname, rep in personas(np.array(vals), ('int64', 'int32', 'float32', 'list', 'tuple', 'int-tuple', 'readonly')):
                    snap = snapshot(rep) if isinstance(rep, np.ndarray) else repr(rep)
                    for k in range(2):
                        t = T.Scale(rep)
                        ctx.check_true('Scale(%s as %s)/call%d/uniform-exactly-when-all-equal' % (vals, pname, k), isinstance(t, T.UniformScale) == uniform)
                        close(ctx, 'Scale(%s as %s)/call%d/same-map' % (vals, pname, k), t.apply(xx), ref.apply(xx), 1e-6)
                    ctx.check_true('Scale(%s as %s)/argument-not-modified' % (vals, pname), (snapshot(rep) if isinstance(rep, np.ndarray) else repr(rep)) == snap)
            ctx.check_true('Scale(scalar,n_dims=%d)/uniform' % d, isinstance(T.Scale(2, n_dims=d), T.UniformScale) and isinstance(T.Scale(np.float32(2), n_dims=d), T.UniformScale))
            for zero in ([0.0] * d, [1.0] + [0.0] * (d - 1), np.zeros(d, dtype=int), tuple([0] * d)):
                ctx.check_true('Scale(%r)/zeros-refused' % (zero,), ctx.raises(ValueError, T.Scale, zero))
        return
    if which == 'ccw':
        for deg in (30, -45, 200, 400, -370):
            th = np.deg2rad(deg)
            want = np.array([[np.cos(th), -np.sin(th)], [np.sin(th), np.cos(th)]])
            forms = [('int', int(deg)), ('float', float(deg)), ('np.int64', np.int64(deg)), ('np.float32', np.float32(deg)), ('0-d array', np.array(float(deg)))]
            for pname, rep in forms:
                close(ctx, '2d/%s deg as %s' % (deg, pname), T.Rotation.init_from_2d_ccw_angle(rep).linear_component, want, 1e-6)
                close(ctx, '2d/%s deg as %s in radians' % (deg, pname), T.Rotation.init_from_2d_ccw_angle(np.deg2rad(float(rep)), degrees=False).linear_component, want, 1e-6)
                for ax, fn in (('x', T.Rotation.init_from_3d_ccw_angle_around_x), ('y', T.Rotation.init_from_3d_ccw_angle_around_y), ('z', T.Rotation.init_from_3d_ccw_angle_around_z)):
                    a = fn(rep).linear_component
                    b = fn(np.deg2rad(float(rep)), degrees=False).linear_component
                    close(ctx, '3d-%s/%s deg as %s/degrees==radians' % (ax, deg, pname), a, b, 1e-6)
                    i = 'xyz'.index(ax)
                    j, k = [(1, 2), (2, 0), (0, 1)][i]
                    close(ctx, '3d-%s/%s deg as %s/ccw-in-the-plane-of-the-other-axes' % (ax, deg, pname), a[np.ix_([j, k], [j, k])], want, 1e-6)
        return
    # about-centre helpers on shapes built from integer points
    pts = ints(rs, (5, 2), distinct_rows=True)
    ref_pc = S.PointCloud(pts.copy())
    for pname, rep in personas(pts, ('int64', 'int32', 'float32', 'readonly')):
        pc = S.PointCloud(rep, copy=False)
        for name, args in (('rotate_ccw_about_centre', (30,)), ('scale_about_centre', (1.5,)), ('scale_about_centre', (np.array([2, 3]),))):
            t, tr = getattr(T, name)(pc, *args), getattr(T, name)(ref_pc, *args)
            c = ref_pc.centre()
            close(ctx, '%s%s on %s points/centre-fixed' % (name, args, pname), t.apply(c[None, :]), c[None, :], 1e-5)
            close(ctx, '%s%s on %s points/same-as-float64' % (name, args, pname), t.apply(x), tr.apply(x), 1e-5)


# ------------------------------------------------------------------ C01 / C13
def _img(rs, cls, shape=(7, 9), ch=2, dtype=np.float64):
    from menpo.image import Image, MaskedImage, BooleanImage
    T, S = B.menpo_mods()
    if cls == 'BooleanImage':
        im = BooleanImage(rs.rand(*shape) > 0.4)
    else:
        px = np.round(rs.rand(ch, *shape) * 200).astype(dtype)
        im = Image(px) if cls == 'Image' else MaskedImage(px, mask=rs.rand(*shape) > 0.2)
    im.landmarks['g'] = S.PointCloud(np.array([[2., 3.], [4., 6.], [5., 2.]]))
    return im


def _img_state(im):
    out = [np.asarray(im.pixels, dtype=np.float64)]
    if hasattr(im, 'mask') and not isinstance(im.mask, type(None)) and hasattr(im.mask, 'pixels'):
        out.append(np.asarray(im.mask.pixels, dtype=np.float64))
    out.append(np.asarray(im.landmarks['g'].points, dtype=np.float64) if im.has_landmarks else np.zeros(0))
    return out


@contract('C01', 'argument_forms', level='bounded', native_samples=2, configs=[dict(cls=c) for c in ('Image', 'MaskedImage', 'BooleanImage')],
          functions=['menpo.image.base:Image.rescale', 'menpo.image.base:Image.resize', 'menpo.image.base:Image.crop', 'menpo.image.base:Image.zoom',
                     'menpo.image.base:Image.mirror', 'menpo.image.base:Image.rotate_ccw_about_centre', 'menpo.image.base:Image.rescale_to_diagonal'])
def c01_argument_forms(ctx, cls):
    """the image geometry ops give the same image, landmarks, mask and
    returned transform whatever form their parameters take (python / numpy
    scalar, tuple, list, int or float array, read-only array), do not modify
    those parameters or the receiver, and give it again when called a second
    time with the same parameter objects."""
    rs = ctx.nprng
    im = _img(rs, cls)
    before = _img_state(im)
    x = np.array([[1., 1.], [3., 4.]])

    def same(tag, a, b, tol=1e-9):
        (ia, ta), (ib, tb) = a, b
        sa, sb = _img_state(ia), _img_state(ib)
        ok = len(sa) == len(sb) and all(p.shape == q.shape and np.allclose(p, q, atol=tol * 300) for p, q in zip(sa, sb))
        ctx.check_true(tag + '/same-image-landmarks-mask', ok and type(ia) is type(ib))
        close(ctx, tag + '/same-returned-transform', ta.apply(x), tb.apply(x), tol)
    ops = [
        ('rescale', lambda a: im.rescale(a, return_transform=True), [('float', 1.5), ('np.float64', np.float64(1.5)), ('np.float32', np.float32(1.5)),
                                                                      ('tuple', (1.5, 1.5)), ('list', [1.5, 1.5]), ('array', np.array([1.5, 1.5])), ('readonly', _ro(np.array([1.5, 1.5])))]),
        ('rescale-int', lambda a: im.rescale(a, return_transform=True), [('int', 2), ('float', 2.0), ('np.int64', np.int64(2)), ('int-tuple', (2, 2)), ('int-array', np.array([2, 2]))]),
        ('resize', lambda a: im.resize(a, return_transform=True), [('tuple', (10, 12)), ('list', [10, 12]), ('int-array', np.array([10, 12])), ('float-array', np.array([10., 12.])),
                                                                   ('int32-array', np.array([10, 12], dtype=np.int32))]),
        ('crop', lambda a: im.crop(a[0], a[1], return_transform=True), [('lists', ([1, 2], [5, 7])), ('tuples', ((1, 2), (5, 7))), ('int-arrays', (np.array([1, 2]), np.array([5, 7]))),
                                                                        ('float-arrays', (np.array([1., 2.]), np.array([5., 7.]))), ('int32-arrays', (np.array([1, 2], dtype=np.int32), np.array([5, 7], dtype=np.int32))),
                                                                        ('readonly', (_ro(np.array([1, 2])), _ro(np.array([5, 7]))))]),
        ('crop-fractional', lambda a: im.crop(a[0], a[1], return_transform=True), [('lists', ([0.5, 1.25], [4.5, 6.75])), ('arrays', (np.array([0.5, 1.25]), np.array([4.5, 6.75]))),
                                                                                   ('float32-arrays', (np.array([0.5, 1.25], dtype=np.float32), np.array([4.5, 6.75], dtype=np.float32)))]),
        ('zoom', lambda a: im.zoom(a, return_transform=True), [('float', 1.25), ('np.float64', np.float64(1.25))]),
        ('rotate', lambda a: im.rotate_ccw_about_centre(a, return_transform=True), [('int', 30), ('float', 30.0), ('np.int64', np.int64(30))]),
        ('rescale_to_diagonal', lambda a: im.rescale_to_diagonal(a, return_transform=True), [('int', 20), ('float', 20.0), ('np.float64', np.float64(20))]),
        ('mirror', lambda a: im.mirror(axis=a, return_transform=True), [('int', 1), ('np.int64', np.int64(1))]),
    ]
    for oname, op, forms in ops:
        ref = op(forms[0][1])
        for fname, arg in forms:
            snap = [snapshot(v) for v in (arg if isinstance(arg, tuple) else (arg,)) if isinstance(v, np.ndarray)]
            for k in range(2):
                try:
                    got = op(arg)
                except Exception as e:
                    ctx.check_true('%s(%s)/call%d/accepted-like-%s' % (oname, fname, k, forms[0][0]), False, '%s: %s' % (type(e).__name__, e))
                    break
                same('%s(%s)/call%d==%s-form' % (oname, fname, k, forms[0][0]), got, ref, 1e-5 if 'float32' in fname else 1e-9)
            ctx.check_true('%s(%s)/parameters-not-modified' % (oname, fname),
                           [snapshot(v) for v in (arg if isinstance(arg, tuple) else (arg,)) if isinstance(v, np.ndarray)] == snap)
    after = _img_state(im)
    ctx.check_true('receiver-not-modified', all(np.array_equal(p, q) for p, q in zip(before, after)))


@contract('C13', 'argument_forms', level='bounded', native_samples=2, configs=[dict(cls=c, ch=ch) for c in ('Image', 'MaskedImage') for ch in (1, 3)],
          functions=['menpo.image.base:Image.extract_patches', 'menpo.image.patches:extract_patches_with_slice', 'menpo.image.patches:extract_patches_by_sampling',
                     'menpo.image.base:Image.set_patches'])
def c13_argument_forms(ctx, cls, ch):
    """patch extraction gives the same patches for every form of its
    arguments (centres as PointCloud of float / int points or bare array,
    patch shape as tuple / list / array, offsets as list / array) and honours
    every option on BOTH paths: a non-default fill value outside the image,
    slicing path == sampling path at integer centres, for all of them."""
    T, S = B.menpo_mods()
    rs = ctx.nprng
    im = _img(rs, cls, shape=(8, 10), ch=ch)
    centres = np.array([[0., 0.], [3., 4.], [7., 9.], [-1., 5.], [4., 11.], [9., -2.]])
    for ps in ((3, 3), (4, 2), (3, 4), (5, 2)):
        for cval in (0.0, 7.5, -3.0):
            ref = im.extract_patches(S.PointCloud(centres.copy()), patch_shape=ps, cval=cval)
            samp = im.extract_patches(S.PointCloud(centres.copy()), patch_shape=ps, cval=cval, order=0, mode='constant', as_single_array=True)
            from menpo.image.patches import extract_patches_by_sampling, extract_patches_with_slice
            by_s = extract_patches_by_sampling(im.pixels, centres.copy(), ps, np.zeros((1, 2), dtype=np.intp), order=0, mode='constant', cval=cval)
            by_l = extract_patches_with_slice(im.pixels, centres.copy(), ps, np.zeros((1, 2), dtype=np.intp), cval=cval)
            tag = 'patch%s,cval=%s' % (list(ps), cval)
            ctx.check_true(tag + '/shape==(centres,offsets,channels,h,w)', ref.shape == (len(centres), 1, ch, ps[0], ps[1]), str(ref.shape))
            close(ctx, tag + '/method==slicing-function', ref, by_l, 0)
            close(ctx, tag + '/slicing==sampling(order 0, constant)', by_l, by_s, 0)
            # independent reference: pixel (r, c) of the patch around centre p is image[p - ps//2 ... ] or cval outside
            want = np.full(ref.shape, cval)
            H, W = im.shape
            for i, p in enumerate(centres):
                r0 = int(p[0]) - ps[0] // 2
                c0 = int(p[1]) - ps[1] // 2
                for a in range(ps[0]):
                    for b in range(ps[1]):
                        rr, cc = r0 + a, c0 + b
                        if 0 <= rr < H and 0 <= cc < W:
                            want[i, 0, :, a, b] = im.pixels[:, rr, cc]
            close(ctx, tag + '/outside-pixels==fill-value,inside==source(reference)', ref, want, 0)
            if cval == 0.0:
                # every boundary mode, nearest-neighbour order: the method equals the resampling function it documents,
                # and (edge replication) an independent np.pad reference
                for mode in ('nearest', 'reflect', 'wrap', 'mirror'):
                    got = im.extract_patches(S.PointCloud(centres.copy()), patch_shape=ps, order=0, mode=mode)
                    ref_m = extract_patches_by_sampling(im.pixels, centres.copy(), ps, np.zeros((1, 2), dtype=np.intp), order=0, mode=mode, cval=0.0)
                    close(ctx, tag + '/order0,mode=%s/method==resampling-function' % mode, got, ref_m, 0)
                    if mode == 'nearest':
                        pad = 12
                        big = np.pad(im.pixels, ((0, 0), (pad, pad), (pad, pad)), mode='edge')
                        want_e = np.zeros(got.shape)
                        for i, p in enumerate(centres):
                            r0 = int(p[0]) - ps[0] // 2 + pad
                            c0 = int(p[1]) - ps[1] // 2 + pad
                            want_e[i, 0] = big[:, r0:r0 + ps[0], c0:c0 + ps[1]]
                        close(ctx, tag + '/order0,mode=nearest/outside-pixels-replicate-the-edge(reference)', got, want_e, 0)
            forms = [('int-points', S.PointCloud(centres.astype(np.int64)), ps), ('bare-array', None, ps), ('shape-as-list', S.PointCloud(centres.copy()), list(ps)),
                     ('shape-as-array', S.PointCloud(centres.copy()), np.array(ps)), ('float32-points', S.PointCloud(centres.astype(np.float32)), ps)]
            for fname, pc, pshape in forms:
                if pc is None:
                    continue
                try:
                    got = im.extract_patches(pc, patch_shape=pshape, cval=cval)
                except Exception as e:
                    ctx.check_true(tag + '/%s/accepted' % fname, False, '%s: %s' % (type(e).__name__, e))
                    continue
                close(ctx, tag + '/%s==float64-pointcloud-tuple-form' % fname, got, ref, 0)


# ------------------------------------------------------------------------ C19
@contract('C19', 'index_forms', level='bounded', native_samples=2, configs=[dict(n=n) for n in (1, 4, 7)],
          functions=['menpo.base:LazyList.__getitem__', 'menpo.base:LazyList.map', 'menpo.base:LazyList.repeat', 'menpo.base:LazyList.__add__'])
def c19_index_forms(ctx, n):
    """indexing a lazy list gives what the same index gives on the list of its
    values, for every form of index: python int, numpy integer of any width,
    negative, slice, list / tuple / range / int array of any integer dtype,
    and raises IndexError exactly when the list would; nothing is evaluated
    by selecting, one thunk per element read."""
    from menpo.base import LazyList
    calls = []

    def thunk(i):
        def f():
            calls.append(i)
            return i * 10
        return f
    ll = LazyList([thunk(i) for i in range(n)])
    vals = [i * 10 for i in range(n)]
    for i in list(range(-n - 1, n + 1)):
        for fname, idx in (('int', i), ('np.int64', np.int64(i)), ('np.int32', np.int32(i)), ('np.int8', np.int8(i)), ('np.uint8', np.uint8(i) if i >= 0 else None)):
            if idx is None:
                continue
            del calls[:]
            try:
                want = vals[i]
            except IndexError:
                ctx.check_true('ll[%s as %s]/IndexError-like-a-list' % (i, fname), ctx.raises(IndexError, lambda: ll[idx]))
                continue
            got = ll[idx]
            ctx.check_true('ll[%s as %s]/value' % (i, fname), got == want and calls == [i % n], '%r, evaluated %r' % (got, calls))
    seqs = [list(range(n)), list(range(n - 1, -1, -1)), [0] * 3, [n - 1, 0, n - 1], [-1, -n], []]
    for sq in seqs:
        want = [vals[i] for i in sq]
        forms = [('list', list(sq)), ('tuple', tuple(sq)), ('int64-array', np.array(sq, dtype=np.int64)), ('int32-array', np.array(sq, dtype=np.int32)),
                 ('int8-array', np.array(sq, dtype=np.int8))]
        for fname, idx in forms:
            del calls[:]
            sub = ll[idx]
            ctx.check_true('ll[%s as %s]/nothing-evaluated-by-selecting' % (sq, fname), calls == [])
            ctx.check_true('ll[%s as %s]/same-as-list' % (sq, fname), isinstance(sub, LazyList) and len(sub) == len(want) and [sub[k] for k in range(len(sub))] == want)
    for sq in seqs:
        want = [vals[i] for i in sq]
        for fname, mk in (('iterator', lambda: iter(list(sq))), ('generator', lambda: (i for i in sq)), ('map-object', lambda: map(int, sq)),
                          ('reversed-object', lambda: reversed(list(sq)[::-1])), ('dict-keys', lambda: dict.fromkeys(range(len(sq))) if False else iter(tuple(sq)))):
            del calls[:]
            sub = ll[mk()]
            ctx.check_true('ll[%s as one-shot %s]/nothing-evaluated-by-selecting' % (sq, fname), calls == [])
            ctx.check_true('ll[%s as one-shot %s]/same-as-list' % (sq, fname), isinstance(sub, LazyList) and len(sub) == len(want) and list(sub) == want,
                           '%r vs %r' % (len(sub), len(want)))
    if n:
        ctx.check_true('ll[one-shot iterator with an out-of-range index]/IndexError', ctx.raises(IndexError, lambda: ll[iter([0, n])]))
    for r in (range(n), range(n - 1, -1, -1), range(0, n, 2), range(-1, -n - 1, -1), range(-n, 0), range(1, 1)):
        want = [vals[i] for i in r]
        del calls[:]
        sub = ll[r]
        ctx.check_true('ll[%r]/nothing-evaluated-by-selecting' % (r,), calls == [])
        ctx.check_true('ll[%r]/same-as-list-of-those-indices' % (r,), len(sub) == len(want) and list(sub) == want, '%r vs %r' % (list(sub), want))
    for sl in (slice(None), slice(1, None), slice(None, -1), slice(None, None, -1), slice(-2, None), slice(0, 100), slice(5, 2), slice(None, None, 2), slice(-1, -n - 1, -1)):
        want = vals[sl]
        sub = ll[sl]
        ctx.check_true('ll[%r]/same-as-list' % (sl,), list(sub) == want)


# ------------------------------------------------------------------------ C16
@contract('C16', 'shape_class_and_dtype_forms', level='bounded', native_samples=2,
          configs=[dict(fmt=f, cls=c) for f in ('ljson', 'pkl') for c in ('PointDirectedGraph', 'PointTree', 'PointTree-root-not-0', 'PointCloud-int', 'PointCloud-float32', 'PointUndirectedGraph-int',
                                                                          'PointUndirectedGraph-edge-deleted-in-place', 'PointUndirectedGraph-zero-weights-stored', 'Labelled-edge-deleted-in-place')],
          functions=['menpo.shape.graph:PointGraph.tojson', 'menpo.io.output.landmark:ljson_exporter', 'menpo.io.input.landmark:ljson_importer', 'menpo.io.output.pickle:pickle_export'])
def c16_shape_forms(ctx, fmt, cls):
    """the round trip holds for every shape class (directed graphs and trees
    with edges in both index directions included) and for integer / float32
    coordinates: same coordinates, same undirected edges."""
    import menpo.io as mio
    T, S = B.menpo_mods()
    rs = ctx.nprng
    P = np.round(rs.randn(5, 2) * 50)
    if cls == 'PointDirectedGraph':
        obj = S.PointDirectedGraph.init_from_edges(P + 0.25, np.array([[0, 1], [2, 1], [3, 2], [4, 0]]))
    elif cls == 'PointTree':
        obj = S.PointTree.init_from_edges(P + 0.25, np.array([[0, 1], [0, 2], [2, 3], [2, 4]]), root_vertex=0)
    elif cls == 'PointTree-root-not-0':
        obj = S.PointTree.init_from_edges(P + 0.25, np.array([[3, 2], [2, 1], [1, 0], [3, 4]]), root_vertex=3)
    elif cls == 'PointCloud-int':
        obj = S.PointCloud(P.astype(np.int64))
    elif cls == 'PointCloud-float32':
        obj = S.PointCloud((P + 0.25).astype(np.float32))
    elif cls == 'PointUndirectedGraph-int':
        obj = S.PointUndirectedGraph.init_from_edges(P.astype(np.int64), np.array([[0, 1], [1, 2], [3, 4]]))
    elif cls in ('PointUndirectedGraph-edge-deleted-in-place', 'Labelled-edge-deleted-in-place'):
        # a connection removed by writing 0 into the sparse adjacency matrix: scipy keeps an explicitly stored zero
        obj = S.PointUndirectedGraph.init_from_edges(P + 0.25, np.array([[0, 1], [1, 2], [2, 3], [3, 4]]))
        import warnings
        with warnings.catch_warnings():
            warnings.simplefilter('ignore')
            obj.adjacency_matrix[1, 2] = 0
            obj.adjacency_matrix[2, 1] = 0
        if cls.startswith('Labelled'):
            from collections import OrderedDict
            obj = S.LabelledPointUndirectedGraph(obj.points, obj.adjacency_matrix, OrderedDict([('a', np.array([1, 1, 1, 0, 0], bool)), ('b', np.array([0, 0, 1, 1, 1], bool))]))
        ctx.check_true('in-memory/edges==non-zero-entries', sorted(tuple(sorted(map(int, e))) for e in obj.edges) == [(0, 1), (2, 3), (3, 4)] and obj.n_edges == 3, str(np.asarray(obj.edges).tolist()))
    else:
        import scipy.sparse as sp
        A = sp.csr_matrix((np.array([1., 0., 1., 1., 0., 1.]), (np.array([0, 1, 3, 1, 2, 4]), np.array([1, 2, 4, 0, 1, 3]))), shape=(5, 5))
        obj = S.PointUndirectedGraph(P + 0.25, A)
        ctx.check_true('in-memory/edges==non-zero-entries', sorted(tuple(sorted(map(int, e))) for e in obj.edges) == [(0, 1), (3, 4)] and obj.n_edges == 2, str(np.asarray(obj.edges).tolist()))
    with tempfile.TemporaryDirectory() as td:
        p = os.path.join(td, 'x.' + fmt)
        if fmt == 'ljson':
            mio.export_landmark_file(obj, p)
            back = mio.import_landmark_file(p)
            if isinstance(back, dict) or hasattr(back, 'keys'):
                back = list(back.values())[0]
        else:
            mio.export_pickle(obj, p)
            back = mio.import_pickle(p)
        close(ctx, 'coordinates', back.points, obj.points, 0)
        if hasattr(obj, 'adjacency_matrix'):
            A = obj.adjacency_matrix.toarray() != 0
            Bk = back.adjacency_matrix.toarray() != 0 if hasattr(back, 'adjacency_matrix') else np.zeros_like(A)
            ctx.check_true('same-undirected-edges', np.array_equal(Bk | Bk.T, A | A.T), '%s vs %s' % (np.argwhere(Bk | Bk.T).tolist(), np.argwhere(A | A.T).tolist()))
            if fmt == 'pkl':
                ctx.check_true('pickle/same-class-and-directed-edges', type(back) is type(obj) and np.array_equal(Bk, A))


# --------------------------------------------------- C01: alignment transforms
@contract('C01', 'warp_with_alignment_transforms', level='bounded', native_samples=3,
          configs=[dict(cls=c, tr=t) for c in ('Image', 'MaskedImage', 'BooleanImage')
                   for t in ('AlignmentAffine', 'AlignmentSimilarity', 'AlignmentRotation', 'AlignmentTranslation', 'AlignmentUniformScale', 'ThinPlateSplines', 'PiecewiseAffine')],
          functions=['menpo.image.base:Image.warp_to_shape', 'menpo.image.base:Image.warp_to_mask', 'menpo.transform.homogeneous.base:HomogFamilyAlignment.pseudoinverse'])
def c01_warp_with_alignments(ctx, cls, tr):
    """warping with an ALIGNMENT transform fitted to more correspondences than
    it has degrees of freedom (a least-squares fit, not an exact one): the
    returned transform maps the result landmarks back onto the source
    landmarks, pixels are the source sampled at T(grid), the mask follows."""
    from menpo.image import BooleanImage
    T, S = B.menpo_mods()
    rs = ctx.nprng
    im = _img(rs, cls, shape=(12, 14), ch=2)
    im.landmarks['g'] = S.PointCloud(np.array([[3., 4.], [6., 9.], [8., 3.], [5., 6.]]))
    tshape = (9, 10)
    ref = np.array([[1., 1.], [1., 8.], [7., 1.], [7., 8.], [4., 4.5], [2., 6.]])
    A = np.array([[1.1, 0.15], [-0.1, 1.2]])
    tgt = ref.dot(A.T) + np.array([1.0, 1.5]) + 0.15 * rs.randn(*ref.shape)       # noisy: no family member fits exactly
    if tr == 'PiecewiseAffine':
        t = T.PiecewiseAffine(S.PointCloud(np.array([[-1., -1.], [-1., 11.], [10., -1.], [10., 11.]])),
                              S.PointCloud(np.array([[0.5, 0.5], [0., 12.5], [10.5, 1.], [11., 13.]])))
    else:
        t = getattr(T, tr)(S.PointCloud(ref), S.PointCloud(tgt))
        if ctx.nprng.rand() < 0.7:
            # an alignment with a history: inverted before, fitted to another target first, used for another warp
            t = getattr(T, tr)(S.PointCloud(ref), S.PointCloud(tgt * 0.8 + 1.0))
            t.pseudoinverse(); t.apply(ref)
            im.warp_to_shape(tshape, t, warp_landmarks=True)
            t.set_target(S.PointCloud(tgt))
            if ctx.nprng.rand() < 0.5:
                t = t.pseudoinverse().pseudoinverse()
    for name, call in (('warp_to_shape', lambda: im.warp_to_shape(tshape, t, warp_landmarks=True, return_transform=True)),
                       ('warp_to_mask', lambda: im.warp_to_mask(BooleanImage.init_blank(tshape), t, warp_landmarks=True, return_transform=True) if cls != 'BooleanImage' else None)):
        out = call()
        if out is None:
            continue
        res, rt = out
        if tr != 'ThinPlateSplines':       # a TPS declares no true inverse: its landmarks go through an approximate one
            close(ctx, name + '/T(result landmarks)==source landmarks', rt.apply(res.landmarks['g'].points), im.landmarks['g'].points, 1e-6)
        else:
            close(ctx, name + '/T(result landmarks)~source landmarks (TPS: approximate inverse)', rt.apply(res.landmarks['g'].points), im.landmarks['g'].points, 0.02)
        idx = np.array(list(np.ndindex(*tshape)), dtype=float)
        pts = rt.apply(idx)
        if cls != 'BooleanImage':
            exp = im.sample(pts, order=1, mode='constant', cval=0.0)
            close(ctx, name + '/pixels[q]==Sample(src, T(q))', np.asarray(res.pixels).reshape(res.n_channels, -1), exp, 1e-9)
        if cls == 'MaskedImage' and name == 'warp_to_shape':
            expm = im.mask.sample(pts, mode='constant', cval=False)
            ctx.check_true(name + '/mask[q]==Sample0(src.mask, T(q))', np.array_equal(np.asarray(res.mask.pixels).reshape(-1), np.asarray(expm).reshape(-1)))


# --------------------------------------- C06: copies of alignments, any classes
@contract('C06', 'alignment_copies_are_independent', level='bounded', native_samples=2,
          configs=[dict(cls=c, src=s, tgt=t) for c in ('AlignmentTranslation', 'AlignmentUniformScale', 'AlignmentRotation', 'AlignmentSimilarity', 'AlignmentAffine',
                                                       'ThinPlateSplines', 'PiecewiseAffine')
                   for s in ('PointCloud', 'TriMesh') for t in ('PointCloud', 'PointUndirectedGraph', 'TriMesh')],
          functions=['menpo.transform.homogeneous.base:HomogFamilyAlignment.copy', 'menpo.transform.base.alignment:Alignment._new_target_from_state',
                     'menpo.transform.homogeneous.base:Homogeneous.from_vector', 'menpo.base:Targetable.set_target'])
def c06_alignment_copies(ctx, cls, src, tgt):
    """source and target point sets of any shape class (the target class may
    differ from the source class): every public mutator applied to a copy of
    an alignment (new parameters, new target, in-place composition, new
    rotation matrix) leaves the original, the point sets the user passed and
    the values of every earlier result unchanged - and the other way round."""
    from .state import state_of, compare_states
    T, S = B.menpo_mods()
    rs = ctx.nprng
    P = np.array([[0., 0.], [4., 0.], [0., 4.], [4., 4.], [2., 1.]])
    Q = P.dot(np.array([[1.1, 0.2], [-0.15, 0.9]]).T) + np.array([0.5, -0.25]) + 0.1 * rs.randn(*P.shape)
    tl = np.array([[0, 1, 4], [1, 3, 4], [3, 2, 4], [2, 0, 4]])

    def wrap(kind, pts):
        if kind == 'PointCloud':
            return S.PointCloud(pts.copy())
        if kind == 'TriMesh':
            return S.TriMesh(pts.copy(), trilist=tl.copy())
        return S.PointUndirectedGraph.init_from_edges(pts.copy(), np.array([[0, 1], [1, 3], [3, 2], [2, 0]]))
    if cls == 'PiecewiseAffine' and src != 'TriMesh':
        pass            # PWA triangulates a bare source itself
    s_obj, t_obj = wrap(src, P), wrap(tgt, Q)
    a = getattr(T, cls)(s_obj, t_obj)
    x = P[:3] * 0.5 + 0.3
    muts = []
    if hasattr(a, 'from_vector') and cls not in ('ThinPlateSplines', 'PiecewiseAffine', 'AlignmentRotation'):      # (2-D rotations are not vectorizable)
        v = np.asarray(a.as_vector(), dtype=float)
        muts.append(('from_vector_inplace', lambda z: z._from_vector_inplace(v * 1.1 + 0.05)))
        muts.append(('from_vector', lambda z: z.from_vector(v * 0.9 - 0.05)))
    muts.append(('set_target', lambda z: z.set_target(wrap(tgt, Q * 1.2 + 0.3))))
    if cls == 'AlignmentAffine':
        muts.append(('compose_after_inplace', lambda z: z.compose_after_inplace(T.Affine(np.array([[1., 0.2, 0.3], [0., 1.1, -0.2], [0., 0., 1.]])))))
    if cls == 'AlignmentRotation':
        muts.append(('set_rotation_matrix', lambda z: z.set_rotation_matrix(np.array([[0., -1.], [1., 0.]]))))
    if cls == 'AlignmentSimilarity':
        muts.append(('compose_before_inplace', lambda z: z.compose_before_inplace(T.UniformScale(1.3, 2))))
    for mname, mut in muts:
        for side in ('copy', 'original'):
            o = getattr(T, cls)(wrap(src, P), wrap(tgt, Q))
            passed_t, passed_s = o.target, o.source
            c = o.copy()
            x_, y_ = (c, o) if side == 'copy' else (o, c)
            ref = state_of(y_)
            ref_map = np.array(y_.apply(x), copy=True)
            ref_t, ref_s = np.array(y_.target.points, copy=True), np.array(y_.source.points, copy=True)
            mut(x_)
            tag = '%s/on-the-%s' % (mname, side)
            compare_states(ctx, tag + '/other-side-unchanged', state_of(y_), ref)
            close(ctx, tag + '/other-side-same-map', y_.apply(x), ref_map, 0)
            close(ctx, tag + '/other-side-target-points', y_.target.points, ref_t, 0)
            close(ctx, tag + '/other-side-source-points', y_.source.points, ref_s, 0)
            if side == 'copy':
                close(ctx, tag + '/target-object-the-user-passed-keeps-its-coordinates', passed_t.points, Q, 0)
                close(ctx, tag + '/source-object-the-user-passed-keeps-its-coordinates', passed_s.points, P, 0)


# ----------------------------- C04 / C07: objects derived from an alignment
def _derived_objects_do_not_alias(ctx, cls, d):
    """whatever is done to an object DERIVED from an alignment (its
    pseudoinverse re-targeted or re-parametrised, its aligned source edited in
    place, its copy composed in place) the alignment itself keeps its fitted
    map: same matrix / same answers as before, still equal to a fresh fit."""
    T, S = B.menpo_mods()
    rs = ctx.nprng
    n = 5 if d == 2 else 6
    src = rs.randn(n, d) * 2
    if cls == 'PiecewiseAffine':
        src = np.array([[0., 0.], [4., 0.], [0., 4.], [4., 4.], [2., 1.]])
    L = np.eye(d) + 0.25 * rs.randn(d, d)
    tgt = src.dot(L.T) + rs.randn(d) + 0.1 * rs.randn(*src.shape)
    other = src * 1.3 + 0.2 * rs.randn(*src.shape) - 0.5
    x = src[:3] * 0.5 + 0.1 if cls == 'PiecewiseAffine' else rs.randn(4, d)
    mk = lambda: getattr(T, cls)(S.PointCloud(src.copy()), S.PointCloud(tgt.copy()))
    fresh_map = mk().apply(x)
    for label, derive_and_abuse in (
        ('pseudoinverse.set_target', lambda a: a.pseudoinverse().set_target(S.PointCloud(other.copy()))),
        ('pseudoinverse.pseudoinverse.set_target', lambda a: a.pseudoinverse().pseudoinverse().set_target(S.PointCloud(other.copy()))),
        ('pseudoinverse-matrix-written-in-place', lambda a: _poke_matrix(a.pseudoinverse())),
        ('copy.set_target', lambda a: a.copy().set_target(S.PointCloud(other.copy()))),
        ('aligned_source-edited-in-place', lambda a: a.aligned_source().points.__setitem__(Ellipsis, 0.0)),
        ('copy-matrix-written-in-place', lambda a: _poke_matrix(a.copy())),
    ):
        a = mk()
        before = np.array(a.apply(x), copy=True)
        tp, sp = np.array(a.target.points, copy=True), np.array(a.source.points, copy=True)
        derive_and_abuse(a)
        close(ctx, label + '/alignment-keeps-its-map', a.apply(x), before, 0)
        close(ctx, label + '/still-the-fresh-fit', a.apply(x), fresh_map, 1e-9)
        close(ctx, label + '/target-kept', a.target.points, tp, 0)
        close(ctx, label + '/source-kept', a.source.points, sp, 0)
        close(ctx, label + '/aligned-source-consistent', a.aligned_source().points, a.apply(sp), 1e-9)
    a = mk()
    inv = a.pseudoinverse()
    if hasattr(a, 'h_matrix'):
        ctx.check_true('pseudoinverse-matrix-shares-no-memory-with-the-alignment', not np.shares_memory(inv.h_matrix, a.h_matrix))
        ctx.check_true('copy-matrix-shares-no-memory-with-the-alignment', not np.shares_memory(a.copy().h_matrix, a.h_matrix))


def _poke_matrix(t):
    if hasattr(t, '_h_matrix'):
        t._h_matrix[...] = t._h_matrix * 0.5 + 0.25
    return t


_DER_CFGS = [dict(cls=c, d=d) for c in ('AlignmentTranslation', 'AlignmentUniformScale', 'AlignmentRotation', 'AlignmentSimilarity', 'AlignmentAffine',
                                        'ThinPlateSplines', 'PiecewiseAffine') for d in (2, 3) if not (c in ('ThinPlateSplines', 'PiecewiseAffine') and d == 3)]
_DER_FUNCS = ['menpo.transform.homogeneous.base:HomogFamilyAlignment.pseudoinverse', 'menpo.transform.homogeneous.base:Homogeneous._h_matrix_pseudoinverse',
              'menpo.transform.homogeneous.base:HomogFamilyAlignment.copy', 'menpo.transform.base.alignment:Alignment.aligned_source']


@contract('C04', 'derived_objects_do_not_alias', level='bounded', native_samples=2, configs=_DER_CFGS, functions=_DER_FUNCS)
def c04_derived(ctx, cls, d):
    """(C04) the pseudoinverse is an object of its own."""
    _derived_objects_do_not_alias(ctx, cls, d)


@contract('C07', 'fit_survives_use_of_derived_objects', level='bounded', native_samples=2, configs=_DER_CFGS, functions=_DER_FUNCS)
def c07_derived(ctx, cls, d):
    """(C07) an alignment stays the fit of its own source and target whatever
    is done to its pseudoinverse, copies and aligned source."""
    _derived_objects_do_not_alias(ctx, cls, d)


# ------------------------------------------- C09: apply() is pure, every class
def _all_transforms(T, S, rs, d):
    out = []
    L = np.eye(d) + 0.3 * rs.randn(d, d)
    H = np.eye(d + 1); H[:d, :d] = L; H[:d, d] = rs.randn(d)
    Hp = H.copy(); Hp[d, :d] = 0.05 * rs.randn(d)
    out += [('Affine', T.Affine(H.copy())), ('Homogeneous', T.Homogeneous(Hp)), ('Translation', T.Translation(rs.randn(d))),
            ('UniformScale', T.UniformScale(1.7, d)), ('NonUniformScale', T.NonUniformScale(1 + rs.rand(d))),
            ('Chain', T.TransformChain([T.Translation(rs.randn(d)), T.Affine(H.copy()), T.UniformScale(0.5, d)]))]
    Qm, _ = np.linalg.qr(rs.randn(d, d))
    if np.linalg.det(Qm) < 0:
        Qm[:, 0] *= -1
    out.append(('Rotation', T.Rotation(Qm)))
    Hs = np.eye(d + 1); Hs[:d, :d] = 1.3 * Qm; Hs[:d, d] = rs.randn(d)
    out.append(('Similarity', T.Similarity(Hs)))
    n = d + 3
    src = rs.randn(n, d) * 2
    tgt = src.dot(L.T) + 0.2 * rs.randn(n, d)
    for c in ('AlignmentAffine', 'AlignmentSimilarity', 'AlignmentRotation', 'AlignmentTranslation', 'AlignmentUniformScale'):
        out.append((c, getattr(T, c)(S.PointCloud(src.copy()), S.PointCloud(tgt.copy()))))
    if d == 2:
        out.append(('ThinPlateSplines', T.ThinPlateSplines(S.PointCloud(src.copy()), S.PointCloud(tgt.copy()))))
        out.append(('R2LogR2RBF', T.R2LogR2RBF(src.copy())))
        out.append(('R2LogRRBF', T.R2LogRRBF(src.copy())))
        sq = np.array([[-6., -6.], [6., -6.], [-6., 6.], [6., 6.], [0., 0.5]])
        out.append(('PiecewiseAffine', T.PiecewiseAffine(S.PointCloud(sq), S.PointCloud(sq * 1.2 + 0.3 * rs.randn(*sq.shape)))))
    out.append(('WithDims', T.WithDims(list(range(d - 1)) if d > 2 else [1, 0])))
    return out


@contract('C02', 'transform_not_modified_by_applying', level='bounded', native_samples=2, configs=[dict(d=2), dict(d=3)],
          functions=['menpo.transform.base:Transform.apply', 'menpo.transform.piecewiseaffine.base:CachedPWA.index_alpha_beta'])
def c02_apply_history(ctx, d):
    """(C02 'nor the transform is modified') applying - successfully or not -
    leaves every transform class answering as before: see C09/apply_history_independence."""
    return c09_apply_history(ctx, d)


@contract('C09', 'apply_history_independence', level='bounded', native_samples=2, configs=[dict(d=2), dict(d=3)],
          functions=['menpo.transform.base:Transform.apply', 'menpo.transform.thinplatesplines:ThinPlateSplines._apply', 'menpo.transform.rbf:R2LogR2RBF._apply',
                     'menpo.transform.piecewiseaffine.base:CachedPWA.index_alpha_beta', 'menpo.transform.base.composable:TransformChain._apply'])
def c09_apply_history(ctx, d):
    """for EVERY transform class: apply(x) gives bit-identical numbers the
    first time, again, after other inputs (arrays and shapes, other sizes,
    batched) have been applied in between, after an array passed earlier was
    edited in place, on a copy of the used transform, and for a fresh equal
    array; the transform's own state does not change; inputs are not modified."""
    from .state import state_of, compare_states
    T, S = B.menpo_mods()
    rs = ctx.nprng
    for name, t in _all_transforms(T, S, rs, d):
        x = rs.randn(6, d)
        if name == 'PiecewiseAffine':
            x = rs.uniform(-4, 4, size=(6, 2))
        x0 = x.copy()
        st = state_of(t) if name != 'PiecewiseAffine' else None        # (the caching PWA legitimately updates its memo)
        first = np.array(t.apply(x), copy=True)
        close(ctx, name + '/again', t.apply(x), first, 0)
        others = [x[:2] * 0.5, x[::-1].copy(), x * 0.999999999 + 1e-12, S.PointCloud(x[:4] * 0.3)]
        if name != 'PiecewiseAffine' or True:
            # same shape, other dtypes, values that collide after truncation / rounding
            G = np.round(x)
            if name == 'PiecewiseAffine':
                G = np.clip(G, -4, 4)
            gi = t.apply(G.astype(np.int64))
            gq = t.apply(G + 0.25) if name != 'PiecewiseAffine' else t.apply(np.clip(G + 0.25, -4.5, 4.5))
            close(ctx, name + '/int-array-then-shifted-floats-then-the-int-array-again', t.apply(G.astype(np.int64)), gi, 0)
            close(ctx, name + '/float32-then-float64-of-the-same-shape', t.apply((G + 0.25).astype(np.float32).astype(np.float64)), t.copy().apply((G + 0.25).astype(np.float32).astype(np.float64)) if hasattr(t, 'copy') else gq, 1e-12)
            t.apply(G.astype(np.float32)); t.apply(G + 1e-9)
            close(ctx, name + '/int-array-after-float32-and-nearby-floats', t.apply(G.astype(np.int64)), gi, 0)
            # the same on a transform whose FIRST input is the integer array (memo buffers take the dtype of the first input)
            t2 = type(t)(t.source, t.target) if name in ('PiecewiseAffine', 'ThinPlateSplines') or name.startswith('Alignment') else t.copy()
            G = np.abs(G)                  # non-negative: truncating G + 0.25 gives G back
            Gq = G + 0.25
            a1 = np.array(t2.apply(G.astype(np.int64)), copy=True)
            a2 = np.array(t2.apply(Gq), copy=True)
            close(ctx, name + '/int-first/then-shifted-floats', a2, t.apply(Gq), 1e-12)
            close(ctx, name + '/int-first/the-int-array-again', t2.apply(G.astype(np.int64)), a1, 0)
            close(ctx, name + '/int-first/the-shifted-floats-again', t2.apply(Gq), a2, 0)
            close(ctx, name + '/int-first/float-version-of-the-int-array', t2.apply(G.copy()), a1, 0)
        for o in others:
            t.apply(o)
            t.apply(o, batch_size=2)
        close(ctx, name + '/after-other-inputs', t.apply(x), first, 0)
        if name == 'PiecewiseAffine':
            from menpo.transform.piecewiseaffine.base import TriangleContainmentError
            bad = x.copy()
            bad[1] = [40., 40.]
            for k in range(2):          # a failing application, twice with equal values: fails both times, poisons nothing
                ctx.check_true(name + '/out-of-domain-input-refused(call %d)' % k, ctx.raises(TriangleContainmentError, t.apply, bad.copy()))
            close(ctx, name + '/after-a-refused-input', t.apply(x), first, 0)
        y = x.copy()
        r1 = t.apply(y)
        y[...] = y * 0.25 + 0.1                     # edit an array that was passed earlier
        close(ctx, name + '/after-in-place-edit-of-an-earlier-argument', t.apply(x), first, 0)
        close(ctx, name + '/edited-array-gives-its-own-answer', t.apply(y), t.copy().apply(y.copy()) if hasattr(t, 'copy') else t.apply(y.copy()), 0)
        close(ctx, name + '/fresh-equal-array', t.apply(x0.copy()), first, 0)
        buf = x0.copy()
        view = buf.view()
        view.flags.writeable = False
        close(ctx, name + '/read-only-view', t.apply(view), first, 0)
        buf[...] = x0 * 0.5 + 0.2                   # the caller edits the buffer behind the read-only view
        fresh_t = type(t)(t.source, t.target) if name in ('PiecewiseAffine', 'ThinPlateSplines') or name.startswith('Alignment') else t
        close(ctx, name + '/read-only-view-after-its-buffer-was-edited', t.apply(view), fresh_t.apply(buf.copy()), 0)
        buf[...] = x0
        close(ctx, name + '/read-only-view-after-its-buffer-was-restored', t.apply(view), first, 0)
        close(ctx, name + '/batched', t.apply(x, batch_size=4), first, 0)
        close(ctx, name + '/through-a-shape', t.apply(S.PointCloud(x.copy())).points, first, 0)
        if hasattr(t, 'copy'):
            close(ctx, name + '/copy-of-the-used-transform', t.copy().apply(x), first, 0)
        ctx.check_true(name + '/argument-not-modified', np.array_equal(x, x0))
        if st is not None:
            compare_states(ctx, name + '/transform-state-unchanged', state_of(t), st)


# ------------------------------------------------ C05: rotation vectors (bounded)
@contract('C05', 'rotation_vector_roundtrip', level='bounded', native_samples=40, configs=[dict(cls=c) for c in ('Rotation', 'AlignmentRotation')],
          functions=['menpo.transform.homogeneous.rotation:Rotation._as_vector', 'menpo.transform.homogeneous.rotation:Rotation._from_vector_inplace'])
def c05_rotation_vector(ctx, cls):
    """3-D rotations: from_vector(v).as_vector() == v for every canonical unit
    quaternion v (scalar part > 0), whatever the signs of its other components;
    the non-canonical -v gives the same rotation and is reported canonically;
    as_vector() is read-only and has 4 entries."""
    T, S = B.menpo_mods()
    rs = ctx.nprng
    q = rs.randn(4)
    q /= np.linalg.norm(q)
    if q[0] < 0:
        q = -q
    if q[0] < 0.05:
        q[0] += 0.5
        q /= np.linalg.norm(q)
    # make sure every sign pattern of (x, y, z) turns up over the samples
    pattern = rs.randint(0, 8)
    q[1:] = np.abs(q[1:]) * np.array([1.0 if (pattern >> k) & 1 else -1.0 for k in range(3)])
    if cls == 'Rotation':
        t = T.Rotation.init_identity(3)
    else:
        src = rs.randn(5, 3)
        t = T.AlignmentRotation(S.PointCloud(src), S.PointCloud(src.dot(T.Rotation.init_from_3d_ccw_angle_around_z(25).linear_component.T)))
    h0 = np.array(t.h_matrix, copy=True)
    r = t.from_vector(q)
    v = r.as_vector()
    close(ctx, 'from_vector(v).as_vector()==v (canonical v)', v, q, 1e-7)
    ctx.check_true('as_vector/read-only-with-4-entries', v.shape == (4,) and not v.flags.writeable)
    close(ctx, 'receiver-unchanged', t.h_matrix, h0, 0)
    r2 = t.from_vector(-q)
    close(ctx, 'from_vector(-v)/same-rotation', r2.h_matrix, r.h_matrix, 1e-9)
    close(ctx, 'from_vector(-v).as_vector()==v (reported canonically)', r2.as_vector(), q, 1e-7)
    close(ctx, 'from_vector(as_vector())/same-rotation', r.from_vector(r.as_vector()).h_matrix, r.h_matrix, 1e-9)
    if cls == 'AlignmentRotation':
        close(ctx, 'alignment/target==aligned-source', r.target.points, r.apply(r.source.points), 1e-9)


# ------------------------------------- C02: dimension-changing homogeneous maps
@contract('C02', 'non_square_homogeneous', level='bounded', native_samples=3, configs=[dict(shape=s, kind=k) for s in ('PointCloud', 'TriMesh', 'array')
                                                                                       for k in ('3d->2d', '2d->3d', '3d->3d', '2d->2d')],
          functions=['menpo.transform.homogeneous.base:Homogeneous._apply', 'menpo.transform.homogeneous.base:Homogeneous.n_dims_output'])
def c02_non_square_homogeneous(ctx, shape, kind):
    """a plain Homogeneous transform need not be square (projection 3-D -> 2-D,
    embedding 2-D -> 3-D): points and every landmark group are moved by the
    homogeneous map with n_dims_output rows, the input stays untouched."""
    T, S = B.menpo_mods()
    rs = ctx.nprng
    di, do = {'3d->2d': (3, 2), '2d->3d': (2, 3), '3d->3d': (3, 3), '2d->2d': (2, 2)}[kind]
    H = rs.randn(do + 1, di + 1)
    H[-1, :di] = 0.05 * rs.randn(di)
    H[-1, -1] = 1.0
    t = T.Homogeneous(H.copy())
    P = rs.randn(5, di)
    L = rs.randn(3, di)

    def ref(X):
        Y = np.hstack([X, np.ones((len(X), 1))]).dot(H.T)
        return Y[:, :do] / Y[:, do:]
    ctx.check_true('n_dims/n_dims_output', t.n_dims == di and t.n_dims_output == do)
    if shape == 'array':
        close(ctx, 'array/points', t.apply(P.copy()), ref(P), 1e-9)
        close(ctx, 'array/batched', t.apply(P.copy(), batch_size=2), ref(P), 1e-9)
        return
    if shape == 'TriMesh' and do != di:
        shape = 'PointCloud'            # (a mesh keeps its class; only same-dimension maps are applied to it)
    obj = S.PointCloud(P.copy()) if shape == 'PointCloud' else S.TriMesh(P.copy(), trilist=np.array([[0, 1, 2], [2, 3, 4]]))
    obj.landmarks['g'] = S.PointCloud(L.copy())
    out = t.apply(obj)
    close(ctx, 'shape/points', out.points, ref(P), 1e-9)
    close(ctx, 'shape/landmarks-moved-by-the-same-map', out.landmarks['g'].points, ref(L), 1e-9)
    ctx.check_true('shape/class-kept', type(out) is type(obj))
    close(ctx, 'input/points-unchanged', obj.points, P, 0)
    close(ctx, 'input/landmarks-unchanged', obj.landmarks['g'].points, L, 0)
    close(ctx, 'transform-unchanged', t.h_matrix, H, 0)


# --------------------------------------- C10: feature counts at block boundaries
@contract('C10', 'wide_data_block_boundaries', level='bounded', native_samples=1,
          configs=[dict(d=d, centre=c) for d in (999, 1000, 1001, 1002, 2001) for c in (True, False)],
          functions=['menpo.math.linalg:dot_inplace_right', 'menpo.math.linalg:dot_inplace_left', 'menpo.math.decomposition:pca'])
def c10_block_boundaries(ctx, d, centre):
    """the in-place wide-data path of pca() works through the feature axis in
    blocks of 1000: the PCA identities hold for feature counts just below, at
    and just above a block boundary, and equal the out-of-place result."""
    from menpo.model import PCAVectorModel
    from menpo.math import pca
    rs = ctx.nprng
    n = 6
    X = rs.randn(n, d) * np.linspace(2.0, 0.5, d) + rs.randn(d)
    m = PCAVectorModel(X.copy(), centre=centre)
    C, ev = m._components, m._eigenvalues
    k = C.shape[0]
    ctx.check_true('n_components==rank-of-the-data', k == n - (1 if centre else 0), str(k))
    close(ctx, 'orthonormal-components', C.dot(C.T), np.eye(k), 1e-8)
    mean = X.mean(0) if centre else np.zeros(d)
    Xc = X - mean
    close(ctx, 'eigenvalues==variance-along-components', ev, (Xc.dot(C.T) ** 2).sum(0) / (n - 1), 1e-8)
    close(ctx, 'reconstructs-training-samples', mean + Xc.dot(C.T).dot(C), X, 1e-7)
    U, l, mu = pca(X.copy(), centre=centre, inplace=False)
    close(ctx, 'in-place==out-of-place/eigenvalues', ev, l, 1e-9)
    close(ctx, 'in-place==out-of-place/subspace', C.T.dot(C), U.T.dot(U), 1e-7)
    w = np.linspace(1, 2, k)
    close(ctx, 'project(instance(w))==w', m.project(m.instance(w)), w, 1e-8)


# ------------------------------------------------ C01: batched warps (bounded)
@contract('C01', 'batched_warps', level='bounded', native_samples=2, configs=[dict(cls=c, tr=t) for c in ('Image', 'MaskedImage', 'BooleanImage')
                                                                             for t in ('Affine', 'Rotation', 'UniformScale', 'ThinPlateSplines', 'PiecewiseAffine')],
          functions=['menpo.image.base:Image.warp_to_shape', 'menpo.image.base:Image.warp_to_mask', 'menpo.transform.base:Transform._apply_batched'])
def c01_batched_warps(ctx, cls, tr):
    """warp_to_shape / warp_to_mask with any batch_size give the image,
    landmarks and mask of the unbatched warp (the sampling positions are the
    integer template indices pushed through the transform in batches)."""
    from menpo.image import BooleanImage
    T, S = B.menpo_mods()
    rs = ctx.nprng
    im = _img(rs, cls, shape=(11, 13), ch=2)
    tshape = (8, 9)
    if tr == 'Affine':
        t = T.Affine(np.array([[1.05, 0.1, 0.7], [-0.08, 0.95, 1.3], [0, 0, 1.]]))
    elif tr == 'Rotation':
        t = T.Rotation.init_from_2d_ccw_angle(12).compose_before(T.Translation([1.5, 2.25]))
    elif tr == 'UniformScale':
        t = T.UniformScale(1.15, 2)
    else:
        ref = np.array([[-1., -1.], [-1., 10.], [9., -1.], [9., 10.], [4., 4.5]])
        tgt = ref * 1.1 + np.array([1.0, 1.2]) + 0.2 * rs.randn(*ref.shape)
        t = getattr(T, tr)(S.PointCloud(ref), S.PointCloud(tgt))
    kw = dict(warp_landmarks=True)
    base = im.warp_to_shape(tshape, t, **kw)
    for bs in (1, 7, 72, 500):
        got = im.warp_to_shape(tshape, t, batch_size=bs, **kw)
        sa, sb = _img_state(got), _img_state(base)
        ctx.check_true('warp_to_shape/batch_size=%d==unbatched' % bs, len(sa) == len(sb) and all(p.shape == q.shape and np.allclose(p, q, atol=1e-10) for p, q in zip(sa, sb)))
    if cls != 'BooleanImage':
        m = BooleanImage(rs.rand(*tshape) > 0.3)
        basem = im.warp_to_mask(m, t, **kw)
        for bs in (1, 5, 100):
            got = im.warp_to_mask(m, t, batch_size=bs, **kw)
            sa, sb = _img_state(got), _img_state(basem)
            ctx.check_true('warp_to_mask/batch_size=%d==unbatched' % bs, len(sa) == len(sb) and all(p.shape == q.shape and np.allclose(p, q, atol=1e-10) for p, q in zip(sa, sb)))


# --------------------------- C06: images derived from an image own what they carry
@contract('C06', 'derived_images_own_their_data', level='bounded', native_samples=2, configs=[dict(cls=c) for c in ('Image', 'MaskedImage', 'BooleanImage')],
          functions=['menpo.feature.base:rebuild_feature_image', 'menpo.base:copy_landmarks_and_path', 'menpo.image.base:Image.as_masked',
                     'menpo.image.masked:MaskedImage.as_unmasked', 'menpo.image.base:Image.from_vector', 'menpo.landmark.base:Landmarkable.landmarks'])
def c06_derived_images(ctx, cls):
    """every image obtained FROM an image (features, conversions, from_vector,
    geometry ops, copy) carries owned copies of the landmarks, mask and pixels:
    no mutable storage is reachable from both, so an edit of either one's
    landmark groups, points, mask or pixels is invisible in the other."""
    from .state import shared_storage, state_of, compare_states
    import menpo.feature as F
    rs = ctx.nprng
    im = _img(rs, cls, shape=(16, 18), ch=2)
    ops = [('copy', lambda i: i.copy()), ('crop', lambda i: i.crop([1, 2], [12, 14])), ('mirror', lambda i: i.mirror()), ('rescale', lambda i: i.rescale(0.75)),
           ('from_vector', lambda i: i.from_vector(np.asarray(i.as_vector()).copy()))]
    if cls != 'BooleanImage':
        ops += [('no_op', F.no_op), ('gradient', F.gradient), ('gaussian_filter', lambda i: F.gaussian_filter(i, 1.0)), ('igo', F.igo), ('es', F.es),
                ('normalize_std', F.normalize_std), ('normalize_norm', F.normalize_norm), ('daisy', lambda i: F.daisy(i, radius=3, rings=1)),
                ('as_masked', lambda i: i.as_masked()) if cls == 'Image' else ('as_unmasked', lambda i: i.as_unmasked()),
                ('extract_channels', lambda i: i.extract_channels(0)), ('as_greyscale', lambda i: i.as_greyscale(mode='average'))]
    for name, op in ops:
        src = im.copy()
        ref = state_of(src)
        out = op(src)
        bad = shared_storage(out, src)
        ctx.check_true('%s/result-shares-no-mutable-storage-with-the-source' % name, not bad, 'shared: %s' % (bad[:3],))
        compare_states(ctx, '%s/source-unchanged' % name, state_of(src), ref)
        if out.has_landmarks:
            snap = np.array(src.landmarks['g'].points, copy=True)
            out.landmarks['g'].points[...] = -1.0
            out.landmarks['extra'] = out.landmarks['g'].copy()
            ctx.check_true('%s/editing-the-result-landmarks-is-invisible-in-the-source' % name,
                           list(src.landmarks) == ['g'] and np.array_equal(src.landmarks['g'].points, snap))


# ------------------------------------ C18: size-changing features, every size
@contract('C18', 'size_changing_feature_sizes', level='bounded', native_samples=1,
          configs=[dict(cls=c, radius=r, step=s) for c in ('Image', 'MaskedImage') for r in (3, 7, 9) for s in (1, 2)],
          functions=['menpo.feature.base:rebuild_feature_image', 'menpo.feature.features:daisy'])
def c18_feature_sizes(ctx, cls, radius, step):
    """a size-changing feature (DAISY) on images of EVERY size in a range (the
    new size is an arithmetic function of the old one; rounding of the mask /
    landmark rescale must not depend on which sizes happen to be hit): same
    values as on the raw array, mask of the new shape, landmarks scaled by
    new/old per axis, input untouched."""
    from menpo.image import Image, MaskedImage
    from menpo.feature import daisy
    T, S = B.menpo_mods()
    rs = ctx.nprng
    lo = 2 * radius + 3
    w = lo + 9
    big = rs.rand(1, lo + 30, w)
    for h in range(lo, lo + 30):
        px = big[:, :h, :].copy()
        arr = daisy(px, radius=radius, step=step, rings=1, histograms=2, orientations=4)
        if cls == 'Image':
            im = Image(px.copy())
        else:
            m = np.ones((h, w), dtype=bool)
            m[0, 0] = False
            im = MaskedImage(px.copy(), mask=m)
        im.landmarks['g'] = S.PointCloud(np.array([[1.0, 2.0], [h - 1.0, w - 1.0], [h / 2.0, w / 3.0]]))
        tag = 'rows=%d' % h
        try:
            out = daisy(im, radius=radius, step=step, rings=1, histograms=2, orientations=4)
        except Exception as e:
            ctx.check_true(tag + '/feature-accepts-this-size-like-the-array-call', False, '%s: %s' % (type(e).__name__, e))
            continue
        ctx.check_true(tag + '/kind-kept', type(out) is type(im))
        close(ctx, tag + '/array-call==image-call', out.pixels, arr, 0)
        nh, nw = arr.shape[1:]
        if cls == 'MaskedImage':
            ctx.check_true(tag + '/mask-has-the-new-shape', out.mask.shape == (nh, nw), '%s vs %s' % (out.mask.shape, (nh, nw)))
        close(ctx, tag + '/landmarks-rescaled-to-the-new-size', out.landmarks['g'].points, im.landmarks['g'].points * np.array([nh / float(h), nw / float(w)]), 1e-9)
        close(ctx, tag + '/input-pixels-untouched', im.pixels, px, 0)
    ctx.case(dict(cls=cls, radius=radius, step=step, rows='%d..%d' % (lo, lo + 29)), count=30)


# ---------------------- C04: interpolating warps on landmarks of any representation
@contract('C04', 'warp_inverse_representation_independence', level='bounded', native_samples=2,
          configs=[dict(cls=c, kernel=k) for c in ('ThinPlateSplines',) for k in ('default', 'R2LogRRBF')] + [dict(cls='PiecewiseAffine', kernel='-')],
          functions=['menpo.transform.thinplatesplines:ThinPlateSplines.pseudoinverse', 'menpo.transform.rbf:R2LogR2RBF._apply', 'menpo.transform.rbf:R2LogRRBF._apply',
                     'menpo.transform.piecewiseaffine.base:AbstractPWA.pseudoinverse'])
def c04_warp_inverse_representation(ctx, cls, kernel):
    """the reverse-fitted warp sends every target landmark back onto its source
    landmark when the landmark sets are integer-typed / float32 / read-only /
    Fortran-ordered, exactly as for float64 landmarks."""
    T, S = B.menpo_mods()
    rs = ctx.nprng
    src = np.array([[0., 0.], [40., 0.], [0., 40.], [40., 40.], [20., 10.], [10., 30.]])
    tgt = src * 1.5 + np.round(3 * rs.randn(*src.shape)) + np.array([5., -3.])
    for pname in ('float64', 'int64', 'int32', 'float32', 'readonly', 'fortran'):
        s_rep = src.copy() if pname == 'float64' else dict(personas(src, (pname,)))[pname]
        t_rep = tgt.copy() if pname == 'float64' else dict(personas(tgt, (pname,)))[pname]
        kw = {}
        if cls == 'ThinPlateSplines' and kernel != 'default':
            kw['kernel'] = getattr(T, kernel)(s_rep)
        t = getattr(T, cls)(S.PointCloud(s_rep, copy=False), S.PointCloud(t_rep, copy=False), **kw)
        tol = 1e-3 if pname == 'float32' else 1e-6
        inv = t.pseudoinverse()
        close(ctx, '%s/inverse-source-is-the-target' % pname, inv.source.points, tgt, 0)
        close(ctx, '%s/inverse-target-is-the-source' % pname, inv.target.points, src, 0)
        if cls == 'PiecewiseAffine':
            # (a landmark sits on the boundary of the triangulated domain, where floating-point containment is a coin toss:
            #  the vertex clauses are proved symbolically in C04/pwa_pseudoinverse; here points just inside the hull)
            xin = src.mean(0) + 0.9 * (src - src.mean(0))
            y = t.apply(xin)
            close(ctx, '%s/inverse-undoes-the-warp-inside-the-domain' % pname, inv.apply(y), xin, tol)
            close(ctx, '%s/same-warp-as-for-float64-landmarks' % pname, y, getattr(T, cls)(S.PointCloud(src.copy()), S.PointCloud(tgt.copy())).apply(xin), tol)
            continue
        close(ctx, '%s/forward-interpolates' % pname, t.apply(src), tgt, tol)
        close(ctx, '%s/inverse-maps-target-landmarks-onto-source' % pname, inv.apply(tgt), src, tol)
        close(ctx, '%s/forward-still-interpolates-after-taking-the-inverse' % pname, t.apply(src), tgt, tol)
        inv2 = inv.pseudoinverse()
        close(ctx, '%s/inverse-of-the-inverse-interpolates-forward' % pname, inv2.apply(src), tgt, tol)


# --------------------------- C18: normalisers across precisions and magnitudes
@contract('C18', 'normalisers_precision_and_magnitude', level='bounded', native_samples=2,
          configs=[dict(fn=fn, mode=mode, dtype=dt) for fn in ('normalize_std', 'normalize_norm', 'normalize_var') for mode in ('all', 'per_channel')
                   for dt in ('float64', 'float32')],
          functions=['menpo.feature.features:normalize', 'menpo.feature.features:normalize_std', 'menpo.feature.features:normalize_norm',
                     'menpo.feature.features:normalize_var'])
def c18_normalisers_precision(ctx, fn, mode, dtype):
    """float32 and float64 data of every magnitude the type represents
    comfortably (contrast 1e-6 .. 1e4): the result is the centred data divided
    by the requested statistic (to the precision of the type), on arrays,
    Image and MaskedImage alike; only exactly constant data has 'zero scale'
    (refused by default, skipped on request, never non-finite)."""
    import menpo.feature as F
    from menpo.image import Image, MaskedImage
    rs = ctx.nprng
    f = getattr(F, fn)
    eps = np.finfo(dtype).eps
    for contrast in (1e-6, 1e-4, 1e-2, 1.0, 1e2, 1e4):
        base = rs.randn(2, 6, 7)
        x = (base * contrast + contrast * rs.uniform(-3, 3)).astype(dtype)
        xd = x.astype(np.float64)
        flat = xd.reshape(2, -1)
        if mode == 'all':
            c = flat - flat.mean()
            s = {'normalize_std': c.std(), 'normalize_norm': np.linalg.norm(c), 'normalize_var': c.var()}[fn]
            want = (c / s).reshape(x.shape)
        else:
            c = flat - flat.mean(1, keepdims=True)
            s = {'normalize_std': c.std(1), 'normalize_norm': np.linalg.norm(c, axis=1), 'normalize_var': c.var(1)}[fn].reshape(-1, 1)
            want = (c / s).reshape(x.shape)
        tol = 200 * eps * max(1.0, float(np.abs(want).max()))
        tag = 'contrast=%g' % contrast
        for kind, obj in (('array', x.copy()), ('Image', Image(x.copy())), ('MaskedImage', MaskedImage(x.copy(), mask=rs.rand(6, 7) > 0.3))):
            for kw in ({}, {'error_on_divide_by_zero': False}):
                opt = 'skip-on-zero' if kw else 'default'
                try:
                    r = f(obj, mode=mode, **kw)
                except ValueError as e:
                    ctx.check_true('%s/%s/%s/non-constant-data-is-not-refused' % (tag, kind, opt), False, str(e))
                    continue
                got = np.asarray(r if kind == 'array' else r.pixels, dtype=np.float64)
                close(ctx, '%s/%s/%s/==(x-mean)/statistic' % (tag, kind, opt), got, want, tol)
    # exactly constant data: refused / skipped, in both precisions
    const = np.full((2, 6, 7), 3.0, dtype=dtype)
    const[1] += rs.randn(6, 7).astype(dtype) if mode == 'per_channel' else 0
    try:
        f(const.copy(), mode=mode)
        refused = False
    except ValueError:
        refused = True
    ctx.check_true('constant-data/refused-by-default', refused)
    r = f(const.copy(), mode=mode, error_on_divide_by_zero=False)
    ctx.check_true('constant-data/skipped-on-request-is-finite', bool(np.all(np.isfinite(r))))
