"""C10 — PCA models satisfy the defining identities, also after trimming."""
import itertools

import numpy as np

from vp.registry import contract
from . import builders as B
from .state import state_of, compare_states

TRUSTED = []
ASSUMPTIONS = [
    'G0: every bookkeeping operation re-establishes the model invariant, so the clauses extend to all finite sequences (sequences up to length 3 are also run explicitly)',
    'the eigen-solver path (np.linalg.eigh + argsort + thresholds, data dependent) is covered by the bounded contract only',
]


def observable(ctx, m):
    """the observable bookkeeping of a PCA vector model"""
    return dict(n_active=m.n_active_components, n_components=m.n_components, eigenvalues=np.asarray(m.eigenvalues),
                components=np.asarray(m.components), all_eigenvalues=np.asarray(m._eigenvalues), original_variance=m.original_variance(),
                variance=m.variance(), variance_ratio=m.variance_ratio(), noise_variance=m.noise_variance())


def compare_obs(ctx, tag, a, b):
    for k in a:
        if k in ('n_active', 'n_components'):
            ctx.check_true('%s/%s' % (tag, k), a[k] == b[k], '%s vs %s' % (a[k], b[k]))
        else:
            ctx.check_eq('%s/%s' % (tag, k), a[k], b[k], tol=1e-7)


def invariant(ctx, tag, m, total):
    k = m.n_components
    ctx.check_true(tag + '/inv/1<=active<=n_components', 1 <= m.n_active_components <= k)
    ctx.check_true(tag + '/inv/counts-consistent', m._components.shape[0] == len(m._eigenvalues) == k and m.components.shape[0] == len(m.eigenvalues) == m.n_active_components)
    ctx.check_eq(tag + '/inv/original-variance-constant', m.original_variance(), total, tol=1e-7)
    n_disc = (k - m.n_active_components) + len(m._trimmed_eigenvalues)
    ctx.check_eq(tag + '/inv/kept+discarded==original', m.variance() + (m.noise_variance() * n_disc if n_disc else 0), total, tol=1e-7)


OPS = [('active', 1), ('active', 2), ('active', 3), ('active', 9), ('trim', 3), ('trim', 2), ('trim', 1), ('trim', None), ('fraction', 0.5),
       ('fraction', 0.9)]


def _bk_cfgs(tier):
    out = [dict(seq=[list(o)]) for o in OPS]
    pairs = [(a, b) for a in OPS for b in OPS if a[0] != 'fraction' or b[0] != 'fraction']
    step = 1 if tier != 'quick' else 3
    out += [dict(seq=[list(a), list(b)]) for a, b in pairs[::step]]
    triples = [dict(seq=[['trim', 3], ['trim', 2], ['trim', 1]]), dict(seq=[['active', 2], ['trim', None], ['active', 1]]),
               dict(seq=[['trim', 3], ['active', 1], ['trim', 2]])]
    out += triples
    # the object-backed model class (its own alternative constructor and increment wrappers): single operations and the triples
    out += [dict(seq=[list(o)], backed='pointcloud') for o in OPS] + [dict(t, backed='pointcloud') for t in triples]
    return out


@contract('C10', 'bookkeeping', configs=_bk_cfgs, max_paths=64, functions=[
    'menpo.model.pca:PCAVectorModel._constructor_helper', 'menpo.model.pca:PCAVectorModel.n_active_components',
    'menpo.model.pca:PCAVectorModel.trim_components', 'menpo.model.pca:PCAVectorModel.original_variance',
    'menpo.model.pca:PCAVectorModel.variance', 'menpo.model.pca:PCAVectorModel.noise_variance', 'menpo.model.pca:PCAVectorModel.eigenvalues',
    'menpo.model.pca:PCAVectorModel.components', 'menpo.model.pca:PCAVectorModel.variance_ratio'])
def bookkeeping(ctx, seq, backed='vector'):
    """symbolic spectrum and components; every operation sequence keeps the
    invariant, and trimming to m components is the model built with m - for
    the vector model and for the object-backed PCAModel (point-cloud mean)."""
    from menpo.model import PCAVectorModel, PCAModel
    from menpo.shape import PointCloud
    k, d = (4, 3) if backed == 'vector' else (4, 4)
    e = ctx.reals('e', k, lo=0.01, hi=100.0)
    for i in range(k - 1):
        ctx.assume(e[i] > e[i + 1], 'spectrum descending')
    C = ctx.reals('C', (k, d))
    mu = ctx.reals('mu', d)
    total = np.sum(np.asarray(e))
    if backed == 'vector':
        build = lambda **kw: PCAVectorModel.init_from_components(np.array(C, copy=True), np.array(e, copy=True), np.array(mu, copy=True), 9, True, **kw)
    else:
        build = lambda **kw: PCAModel.init_from_components(np.array(C, copy=True), np.array(e, copy=True),
                                                           PointCloud(np.array(mu, copy=True).reshape(2, 2)), 9, True, **kw)
    m = build()
    invariant(ctx, 'built', m, total)
    # 'gives the same model as building with that many components in the first place', straight from the constructor
    for mc in (1, 2, 3, 4, 9):
        built = build(max_n_components=mc)
        invariant(ctx, 'built-with(%d)' % mc, built, total)
        ctx.check_true('built-with(%d)/n_components' % mc, built.n_components == min(mc, k))
        trimmed = build()
        trimmed.trim_components(mc)
        compare_obs(ctx, 'built-with(%d)==built-then-trimmed' % mc, observable(ctx, built), observable(ctx, trimmed))
    n_kept = k
    for step, (op, arg) in enumerate(seq):
        tag = 'step%d:%s(%s)' % (step, op, arg)
        if op == 'active':
            if arg >= 1:
                m.n_active_components = arg
                ctx.check_true(tag + '/clamped-to-available', m.n_active_components == min(arg, m.n_components))
            else:
                ctx.check_true(tag + '/refused', ctx.raises(ValueError, setattr, m, 'n_active_components', arg))
        elif op == 'fraction':
            kept_total = np.sum(np.asarray(m._eigenvalues))
            prev = m.n_active_components
            try:
                m.n_active_components = float(arg)
            except ValueError:
                # only a fraction above the variance still kept by the model may be refused
                ctx.check(tag + '/refused-only-if-above-kept-variance', arg * total > kept_total)
                ctx.check_true(tag + '/refused/state-unchanged', m.n_active_components == prev)
                invariant(ctx, tag, m, total)
                continue
            ctx.check(tag + '/accepted-only-if-within-kept-variance', arg * total <= kept_total)
            # smallest number of components whose cumulative share of the original variance reaches the fraction
            cum, want = 0, None
            ev = np.asarray(m._eigenvalues)
            if ctx.sym:
                got = m.n_active_components
                acc = 0
                for j in range(got):
                    acc = acc + ev[j]
                ctx.check(tag + '/enough-variance', acc >= arg * total)
                if got > 1:
                    ctx.check(tag + '/minimal', acc - ev[got - 1] < arg * total)
            else:
                cs = np.cumsum(ev) / total
                ctx.check_true(tag + '/minimal-sufficient', m.n_active_components == int(np.sum(cs < arg)) + 1)
        else:
            if arg is not None and arg > m.n_components:
                pass
            m.trim_components(arg)
            n_kept = m.n_components
            ref_n = n_kept
            ref = build(max_n_components=ref_n)
            compare_obs(ctx, tag + '/==model-built-with-that-many-components', observable(ctx, m), observable(ctx, ref))
        invariant(ctx, tag, m, total)
        ctx.check_eq(tag + '/eigenvalues-are-the-leading-ones', m.eigenvalues, np.asarray(e)[:m.n_active_components])
        ctx.check_eq(tag + '/components-are-the-leading-ones', m.components, np.asarray(C)[:m.n_active_components])


@contract('C10', 'projection_algebra', configs=[dict(k=k, d=d, active=a, centred=c) for (k, d) in ((2, 3), (2, 4), (3, 4)) for a in (k, 1)
                                                for c in (True, False)],
          functions=['menpo.model.linear:LinearVectorModel.project', 'menpo.model.linear:LinearVectorModel.instance',
                     'menpo.model.linear:LinearVectorModel.reconstruct', 'menpo.model.linear:LinearVectorModel.project_out',
                     'menpo.model.linear:MeanLinearVectorModel.project_vectors', 'menpo.model.linear:MeanLinearVectorModel.project_out_vectors',
                     'menpo.model.pca:PCAVectorModel.instance_vectors'])
def projection_algebra(ctx, k, d, active, centred):
    """for orthonormal components (C C^T = I): project(instance(w)) = w,
    reconstruct idempotent, residual orthogonal to the model,
    reconstruct + project_out = identity (about the mean)."""
    from menpo.model import PCAVectorModel
    C = ctx.reals('C', (k, d))
    if ctx.sym:
        ctx.assume_eq(np.asarray(C).dot(np.asarray(C).T), np.eye(k, dtype=int), 'components orthonormal', bulk=True)
    else:
        q, _ = np.linalg.qr(np.asarray(C, dtype=float).T)
        C = q.T[:k].copy()
    e = ctx.reals('e', k, lo=0.01, hi=100.0)
    mu = ctx.reals('mu', d)
    m = PCAVectorModel.init_from_components(np.array(C, copy=True), np.array(e, copy=True), np.array(mu, copy=True), 9, centred)
    m.n_active_components = active
    w = ctx.reals('w', active)
    x = ctx.reals('x', d)
    Ca = np.asarray(C)[:active]
    mean = np.asarray(mu) if centred else np.zeros(d, dtype=int)
    ctx.check_eq('instance==mean+w.C', m.instance(w), mean + np.asarray(w).dot(Ca))
    ctx.check_eq('project(instance(w))==w', m.project(m.instance(w)), w)
    r = m.reconstruct(x)
    ctx.check_eq('reconstruct-idempotent', m.reconstruct(r), r)
    po = np.asarray(m.project_out(x)).reshape(-1)
    ctx.check_eq('residual-orthogonal-to-the-model', po.dot(Ca.T), np.zeros(active, dtype=int))
    ctx.check_eq('reconstruct+project_out==x', np.asarray(r) + po, x)
    ctx.check_eq('project==(x-mean).C^T', m.project(x), (np.asarray(x) - mean).dot(Ca.T))


@contract('C10', 'decomposition_native', level='bounded', native_samples=6, tol=1e-7,
          configs=[dict(side=s, centre=c, backed=b, spectrum=sp) for s in ('n>d', 'n<=d', 'n==d') for c in (True, False) for b in ('vector', 'pointcloud', 'image')
                   for sp in ('mild', 'wide') if not (sp == 'wide' and b == 'image')],
          functions=['menpo.math.decomposition:pca', 'menpo.math.decomposition:eigenvalue_decomposition', 'menpo.model.pca:PCAVectorModel.__init__',
                     'menpo.model.pca:PCAModel.__init__'])
def decomposition_native(ctx, side, centre, backed, spectrum='mild'):
    """bounded stand-in (LAPACK eigen-solver, thresholds): orthonormal
    components, positive descending eigenvalues equal to the sample variance
    along each component, sample mean, exact reconstruction of the training
    samples, and trimming == building with that many components."""
    from menpo.model import PCAVectorModel, PCAModel
    from menpo.image import Image
    T, S = B.menpo_mods()
    rs = ctx.nprng
    d = 8 if backed != 'image' else 12
    n = {'n>d': d + rs.randint(3, 9), 'n<=d': rs.randint(3, d), 'n==d': d}[side]
    # 'wide': standard deviations spanning three orders of magnitude (variance ratio ~1e-6): still well separated, nothing may be dropped
    scales = np.linspace(3.0, 0.6, d) if spectrum == 'mild' else np.logspace(0.5, -2.6, d)
    X = rs.randn(n, d) * scales + rs.randn(d) * 2
    if backed == 'vector':
        m = PCAVectorModel(X.copy(), centre=centre)
        mk = lambda mc: PCAVectorModel(X.copy(), centre=centre, max_n_components=mc)
    elif backed == 'pointcloud':
        m = PCAModel([S.PointCloud(x.reshape(-1, 2)) for x in X], centre=centre)
        mk = lambda mc: PCAModel([S.PointCloud(x.reshape(-1, 2)) for x in X], centre=centre, max_n_components=mc)
    else:
        m = PCAModel([Image(x.reshape(1, 3, 4)) for x in X], centre=centre)
        mk = lambda mc: PCAModel([Image(x.reshape(1, 3, 4)) for x in X], centre=centre, max_n_components=mc)
    Cm, ev = m._components, m._eigenvalues
    k = Cm.shape[0]
    ctx.check_true('n_components==rank-of-the-data', k == min(n - (1 if centre else 0), d), '%d vs %d' % (k, min(n - (1 if centre else 0), d)))
    ctx.check_eq('orthonormal-components', Cm.dot(Cm.T), np.eye(k))
    ctx.check_true('eigenvalues-positive-descending', bool(np.all(ev > 0) and np.all(np.diff(ev) <= 1e-12)))
    mean = X.mean(0) if centre else np.zeros(d)
    ctx.check_eq('mean==sample-mean', m._mean, mean)
    Xc = X - mean
    ctx.check_eq('eigenvalues==variance-along-components', ev, ((Xc.dot(Cm.T)) ** 2).sum(0) / (n - 1))
    ctx.check_true('n_samples', m.n_samples == n)
    if k >= min(n - (1 if centre else 0), d):
        for i in (0, n // 2, n - 1):
            xi = X[i]
            rec = mean + (xi - mean).dot(Cm.T).dot(Cm)
            ctx.check_eq('full-model-reconstructs-training-sample[%d]' % i, rec, xi, tol=1e-6)
    total = m.original_variance()
    for mc in (1, max(1, k // 2), k):
        t = mk(mc)
        m2 = m.copy()
        m2.trim_components(mc)
        ctx.check_eq('trim(%d)==built-with/eigenvalues' % mc, m2._eigenvalues, t._eigenvalues)
        ctx.check_eq('trim(%d)==built-with/components' % mc, np.abs(m2._components), np.abs(t._components), tol=1e-6)
        ctx.check_eq('trim(%d)/original-variance' % mc, m2.original_variance(), total)
        ctx.check_eq('trim(%d)==built-with/noise-variance' % mc, m2.noise_variance(), t.noise_variance())
        m2.trim_components(max(1, mc - 1))
        ctx.check_eq('trim-twice(%d)/original-variance' % mc, m2.original_variance(), total)
        # the alternative constructors given the same basis / the same covariance are the same model
        cls = type(m)
        alt = cls.init_from_components(m._components.copy(), m._eigenvalues.copy(), m.mean() if backed != 'vector' else m._mean.copy(), n, centre, max_n_components=mc)
        ctx.check_eq('init_from_components(max=%d)/eigenvalues' % mc, alt._eigenvalues, t._eigenvalues)
        ctx.check_eq('init_from_components(max=%d)/original-variance' % mc, alt.original_variance(), total)
        ctx.check_eq('init_from_components(max=%d)/noise-variance' % mc, alt.noise_variance(), t.noise_variance())
        ctx.check_eq('init_from_components(max=%d)/variance-ratio' % mc, alt.variance_ratio(), t.variance_ratio())
        if spectrum == 'mild' and side == 'n>d':
            # (pcacov drops eigenvalues below 1e-5 of the largest - a documented, different threshold: only data whose sample spectrum is well above it)
            Cov = Xc.T.dot(Xc) / (n - 1)
            alt = cls.init_from_covariance_matrix(Cov, m.mean() if backed != 'vector' else m._mean.copy(), n, centred=centre, max_n_components=mc)
            ctx.check_eq('init_from_covariance_matrix(max=%d)/eigenvalues' % mc, alt._eigenvalues, t._eigenvalues, tol=1e-6)
            ctx.check_eq('init_from_covariance_matrix(max=%d)/components' % mc, np.abs(alt._components), np.abs(t._components), tol=1e-5)
            ctx.check_eq('init_from_covariance_matrix(max=%d)/original-variance' % mc, alt.original_variance(), total, tol=1e-6)
            ctx.check_eq('init_from_covariance_matrix(max=%d)/noise-variance' % mc, alt.noise_variance(), t.noise_variance(), tol=1e-6)
