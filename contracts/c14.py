"""C14 — graphs, trees and their queries agree with the edges they were built from.

Bounded stand-in only (see DESIGN §6 C14): the query layer sits on
scipy.sparse / csgraph, which neither engine can execute symbolically.  The
scope is the one the property's own quantifier names: exhaustive small graphs
plus seeded random larger ones, against textbook reference algorithms."""
import itertools

import numpy as np

from vp.registry import contract
from . import builders as B

TRUSTED = []
ASSUMPTIONS = ['nothing is proved for C14: run-time contracts over an enumerated scope']


# ------------------------------------------------------------ reference algorithms
def adj_sets(n, edges, directed):
    out = [set() for _ in range(n)]
    for a, b in edges:
        out[a].add(b)
        if not directed:
            out[b].add(a)
    return out


def ref_reach(n, adj, s):
    seen, todo = {s}, [s]
    while todo:
        u = todo.pop()
        for v in adj[u]:
            if v not in seen:
                seen.add(v)
                todo.append(v)
    return seen


def ref_has_cycle(n, edges, directed):
    if not directed:
        parent = list(range(n))

        def find(x):
            while parent[x] != x:
                parent[x] = parent[parent[x]]
                x = parent[x]
            return x
        for a, b in edges:
            ra, rb = find(a), find(b)
            if ra == rb:
                return True
            parent[ra] = rb
        return False
    adj = adj_sets(n, edges, True)
    color = [0] * n

    def dfs(u):
        color[u] = 1
        for v in adj[u]:
            if color[v] == 1 or (color[v] == 0 and dfs(v)):
                return True
        color[u] = 2
        return False
    return any(color[u] == 0 and dfs(u) for u in range(n))


def ref_dist(n, w):
    """Floyd-Warshall on a weight matrix (inf = no edge)"""
    d = w.copy()
    for k in range(n):
        d = np.minimum(d, d[:, [k]] + d[[k], :])
    return d


def edge_sets(n, directed):
    pairs = [(a, b) for a in range(n) for b in range(n) if (a != b if directed else a < b)]
    return pairs


def _chunks(tier):
    out = []
    for n in (2, 3, 4, 5):
        total = 2 ** len(edge_sets(n, False))
        step = 1 if (n < 5 or tier != 'quick') else 4
        nchunks = 1 if total <= 64 else 4
        for c in range(nchunks):
            out.append(dict(kind='undirected', n=n, chunk=c, nchunks=nchunks, step=step))
    for n in (2, 3, 4):
        total = 2 ** len(edge_sets(n, True))
        step = 1 if (n < 4 or tier != 'quick') else 8
        nchunks = 1 if total <= 64 else 8
        for c in range(nchunks):
            out.append(dict(kind='directed', n=n, chunk=c, nchunks=nchunks, step=step))
    return out


@contract('C14', 'exhaustive_small_graphs', level='bounded', native_samples=1, configs=_chunks, tol=1e-9, functions=[
    'menpo.shape.graph:Graph.find_path', 'menpo.shape.graph:Graph.find_shortest_path', 'menpo.shape.graph:Graph.has_cycles',
    'menpo.shape.graph:Graph.is_tree', 'menpo.shape.graph:Graph.is_edge', 'menpo.shape.graph:Graph.get_adjacency_list',
    'menpo.shape.graph:Graph.isolated_vertices', 'menpo.shape.graph:UndirectedGraph.neighbours', 'menpo.shape.graph:DirectedGraph.children',
    'menpo.shape.graph:DirectedGraph.parents', 'menpo.shape.graph:PointUndirectedGraph.from_mask', 'menpo.shape.graph:PointDirectedGraph.from_mask',
    'menpo.shape.graph:PointUndirectedGraph.minimum_spanning_tree', 'menpo.shape.graph:_has_cycles'])
def exhaustive_small_graphs(ctx, kind, n, chunk, nchunks, step):
    """every graph of the chunk: edge set, neighbourhood queries, masking,
    cycle / tree tests, paths, shortest paths, minimum spanning trees."""
    T, S = B.menpo_mods()
    directed = kind == 'directed'
    pairs = edge_sets(n, directed)
    total = 2 ** len(pairs)
    pts = np.arange(2.0 * n).reshape(n, 2) + 0.25
    n_graphs = 0
    for code in range(chunk, total, nchunks * step if step > 1 else nchunks):
        edges = [p for i, p in enumerate(pairs) if (code >> i) & 1]
        n_graphs += 1
        tag = '%s%d#%d' % (kind[0], n, code)
        ctx.case(dict(graph=kind, n_vertices=n, edges=[list(e) for e in edges], queries='adjacency, neighbours, every mask, cycles, tree, all start/end paths, shortest paths, MST per root'),
                 nontrivial=len(edges) > 0)
        E = np.array(edges, dtype=int).reshape(-1, 2)
        cls = S.PointDirectedGraph if directed else S.PointUndirectedGraph
        g = cls.init_from_edges(pts, E)
        adj = adj_sets(n, edges, directed)
        radj = adj_sets(n, [(b, a) for a, b in edges], True) if directed else adj
        A = g.adjacency_matrix.toarray()
        want = np.zeros((n, n), dtype=int)
        for a, b in edges:
            want[a, b] = 1
            if not directed:
                want[b, a] = 1
        ok = np.array_equal(A != 0, want != 0) and g.n_edges == len(edges) and g.n_vertices == n
        got_edges = sorted(map(tuple, np.asarray(g.edges).tolist()))
        ok = ok and (got_edges == sorted(edges) if directed else sorted(tuple(sorted(e)) for e in got_edges) == sorted(edges))
        ctx.check_true(tag + '/edge-set', ok)
        ok = True
        for v in range(n):
            if directed:
                ok = ok and sorted(g.children(v)) == sorted(adj[v]) and sorted(g.parents(v)) == sorted(radj[v])
                ok = ok and g.n_children(v) == len(adj[v]) and g.n_parents(v) == len(radj[v])
            else:
                ok = ok and sorted(g.neighbours(v)) == sorted(adj[v]) and g.n_neighbours(v) == len(adj[v])
            for u in range(n):
                ok = ok and bool(g.is_edge(v, u)) == (u in adj[v])
        iso = [v for v in range(n) if not adj[v] and not radj[v]]
        ok = ok and sorted(g.isolated_vertices()) == iso and g.has_isolated_vertices() == bool(iso)
        ok = ok and [sorted(x) for x in g.get_adjacency_list()] == [sorted(x) for x in adj]
        ctx.check_true(tag + '/neighbourhood-queries', ok)
        cyc = ref_has_cycle(n, edges, directed)
        ctx.check_true(tag + '/has_cycles', bool(g.has_cycles()) == cyc)
        und = adj_sets(n, edges, False)
        connected = len(ref_reach(n, und, 0)) == n
        if not directed:
            ctx.check_true(tag + '/is_tree', bool(g.is_tree()) == (connected and len(edges) == n - 1))
        else:
            und_cycle = ref_has_cycle(n, [tuple(sorted(e)) for e in edges], False)
            ctx.check_true(tag + '/is_tree(directed: underlying-tree)', bool(g.is_tree()) == (connected and not und_cycle and len(edges) == n - 1))
        # masking: induced subgraph, renumbered in order
        for bits in itertools.product([False, True], repeat=n):
            mask = np.array(bits)
            if not mask.any():
                continue
            keep = [v for v in range(n) if mask[v]]
            sub = [(keep.index(a), keep.index(b)) for a, b in edges if mask[a] and mask[b]]
            try:
                m = g.from_mask(mask)
            except ValueError:
                ctx.check_true(tag + '/from_mask%s/refusal-only-if-unrepresentable' % ''.join('1' if b else '0' for b in bits), len(keep) < 1)
                continue
            M = m.adjacency_matrix.toarray() != 0
            W = np.zeros((len(keep), len(keep)), dtype=bool)
            for a, b in sub:
                W[a, b] = True
                if not directed:
                    W[b, a] = True
            ctx.check_true(tag + '/from_mask%s' % ''.join('1' if b else '0' for b in bits),
                           np.array_equal(M, W) and np.array_equal(m.points, pts[mask]) and type(m) is type(g))
        # paths
        w = np.full((n, n), np.inf)
        np.fill_diagonal(w, 0.0)
        for a, b in edges:
            w[a, b] = 1.0
            if not directed:
                w[b, a] = 1.0
        D = ref_dist(n, w)
        for s in range(n):
            reach = ref_reach(n, adj, s)
            for e in range(n):
                for method in ('bfs', 'dfs'):
                    p = g.find_path(s, e, method=method)
                    if e in reach and e != s:
                        good = len(p) >= 2 and p[0] == s and p[-1] == e and all(p[i + 1] in adj[p[i]] for i in range(len(p) - 1)) and len(set(p)) == len(p)
                        ctx.check_true(tag + '/find_path[%d->%d,%s]/is-a-real-path' % (s, e, method), good, str(p))
                    elif e not in reach:
                        ctx.check_true(tag + '/find_path[%d->%d,%s]/empty-iff-unreachable' % (s, e, method), list(p) == [])
                    else:
                        ctx.check_true(tag + '/find_path[%d->%d,%s]/trivial-path' % (s, e, method), list(p) == [s], str(p))
                sp, cost = g.find_shortest_path(s, e)
                if e in reach and e != s:
                    good = len(sp) >= 2 and sp[0] == s and sp[-1] == e and all(sp[i + 1] in adj[sp[i]] for i in range(len(sp) - 1))
                    ctx.check_true(tag + '/shortest[%d->%d]/route-is-a-shortest-path' % (s, e), good and len(sp) - 1 == D[s, e], str(sp))
                    ctx.check_true(tag + '/shortest[%d->%d]/cost==reference-distance' % (s, e), abs(cost - D[s, e]) < 1e-9, '%s vs %s' % (cost, D[s, e]))
                elif e not in reach:
                    ctx.check_true(tag + '/shortest[%d->%d]/unreachable' % (s, e), list(sp) == [] and np.isinf(cost))
                ctx.check_true(tag + '/n_paths[%d->%d]' % (s, e), g.n_paths(s, e) == _count_paths(adj, s, e))
        if not directed and connected and n >= 2 and not iso:
            for root in range(n):
                t = g.minimum_spanning_tree(root)
                TA = t.adjacency_matrix.toarray() != 0
                te = list(zip(*np.nonzero(TA)))
                good = len(te) == n - 1 and all(b in adj[a] for a, b in te) and t.root_vertex == root and len(ref_reach(n, adj_sets(n, te, False), root)) == n
                ctx.check_true(tag + '/mst[root=%d]/spanning-tree-of-graph-edges' % root, good)
                ctx.check_true(tag + '/mst[root=%d]/tree-relations' % root, _tree_consistent(t))
    ctx.check_true('graphs-in-chunk>0', n_graphs > 0 or chunk >= total)


def _count_paths(adj, s, e, seen=None):
    seen = (seen or set()) | {s}
    if s == e:
        return 1
    return sum(_count_paths(adj, v, e, seen) for v in adj[s] if v not in seen)


def _tree_consistent(t):
    """parent / depth / leaves / children relations of a Tree agree with each other"""
    n = t.n_vertices
    A = t.adjacency_matrix.toarray() != 0
    ok = t.parent(t.root_vertex) is None and t.depth_of_vertex(t.root_vertex) == 0
    for v in range(n):
        ch = sorted(t.children(v))
        ok = ok and ch == sorted(np.nonzero(A[v])[0].tolist())
        for c in ch:
            ok = ok and t.parent(c) == v and t.depth_of_vertex(c) == t.depth_of_vertex(v) + 1
        ok = ok and t.is_leaf(v) == (len(ch) == 0)
    depths = [t.depth_of_vertex(v) for v in range(n)]
    ok = ok and t.maximum_depth == max(depths) and sorted(t.leaves) == [v for v in range(n) if not A[v].any()] and t.n_leaves == len(t.leaves)
    for d in range(max(depths) + 1):
        ok = ok and sorted(t.vertices_at_depth(d)) == [v for v in range(n) if depths[v] == d] and t.n_vertices_at_depth(d) == depths.count(d)
    return bool(ok)


@contract('C14', 'trees_and_weighted_random', level='bounded', native_samples=4, tol=1e-9,
          configs=[dict(kind=k) for k in ('tree-mask-every-root', 'weighted-shortest', 'weighted-mst', 'random-large')],
          functions=['menpo.shape.graph:PointTree.from_mask', 'menpo.shape.graph:Tree.depth_of_vertex', 'menpo.shape.graph:Tree._get_predecessors_list',
                     'menpo.shape.graph:Graph.find_shortest_path', 'menpo.shape.graph:PointUndirectedGraph.minimum_spanning_tree'])
def trees_and_weighted_random(ctx, kind):
    T, S = B.menpo_mods()
    import scipy.sparse as sp
    rs = ctx.nprng
    if kind == 'tree-mask-every-root':
        n = rs.randint(3, 8)
        # random labelled tree, every vertex as root, every mask keeping the root
        par = [None] + [rs.randint(0, i) for i in range(1, n)]
        perm = rs.permutation(n)
        und = [(perm[i], perm[par[i]]) for i in range(1, n)]
        pts = rs.randn(n, 2)
        for root in range(n):
            adj = adj_sets(n, und, False)
            order, seen, edges = [root], {root}, []
            for u in order:
                for v in sorted(adj[u]):
                    if v not in seen:
                        seen.add(v); order.append(v); edges.append((u, v))
            t = S.PointTree.init_from_edges(pts, np.array(edges), root_vertex=root)
            ctx.case(dict(tree_edges=[[int(a), int(b)] for a, b in edges], root=root))
            ctx.check_true('root%d/tree-relations' % root, _tree_consistent(t))
            dadj = adj_sets(n, edges, True)
            for bits in itertools.product([False, True], repeat=n):
                mask = np.array(bits)
                if not mask[root] or mask.all():
                    continue
                # reference: vertices that stay connected to the root through surviving vertices
                keep, todo = {root}, [root]
                while todo:
                    u = todo.pop()
                    for v in dadj[u]:
                        if mask[v] and v not in keep:
                            keep.add(v); todo.append(v)
                kept = sorted(keep)
                if len(kept) < 2:
                    continue            # a single-vertex tree is not representable in menpo
                m = t.from_mask(mask)
                sub = sorted((kept.index(a), kept.index(b)) for a, b in edges if a in keep and b in keep)
                got = sorted(zip(*np.nonzero(m.adjacency_matrix.toarray())))
                ctx.check_true('root%d/from_mask%s' % (root, ''.join('1' if b else '0' for b in bits)),
                               got == sub and m.root_vertex == kept.index(root) and np.array_equal(m.points, pts[kept]))
    elif kind in ('weighted-shortest', 'weighted-mst', 'random-large'):
        n = rs.randint(5, 12) if kind != 'random-large' else rs.randint(20, 41)
        dens = 0.45 if kind != 'random-large' else 0.12
        W = np.triu((rs.rand(n, n) < dens) * rs.randint(1, 9, size=(n, n)), 1).astype(float)
        for i in range(n - 1):
            if W[i, i + 1] == 0:
                W[i, i + 1] = rs.randint(1, 9)     # keep it connected
        Wf = W + W.T
        g = S.PointUndirectedGraph(rs.randn(n, 2), sp.csr_matrix(Wf))
        ctx.case(dict(weighted_graph=kind, n_vertices=int(n), n_edges=int((Wf > 0).sum() // 2), weights='integers 1..8'))
        w = np.where(Wf > 0, Wf, np.inf)
        np.fill_diagonal(w, 0.0)
        D = ref_dist(n, w)
        if kind != 'weighted-mst':
            for s, e in [(rs.randint(n), rs.randint(n)) for _ in range(25)]:
                if s == e:
                    continue
                sp_, cost = g.find_shortest_path(s, e)
                route = sum(Wf[sp_[i], sp_[i + 1]] for i in range(len(sp_) - 1))
                ctx.check_true('shortest[%d->%d]/route-cost==reference' % (s, e), abs(route - D[s, e]) < 1e-9 and sp_[0] == s and sp_[-1] == e)
                ctx.check_true('shortest[%d->%d]/returned-cost==reference' % (s, e), abs(cost - D[s, e]) < 1e-9, '%s vs %s' % (cost, D[s, e]))
        if kind != 'weighted-shortest':
            t = g.minimum_spanning_tree(0)
            TA = t.adjacency_matrix.toarray()
            tw = TA.sum()
            # Kruskal
            parent = list(range(n))

            def find(x):
                while parent[x] != x:
                    parent[x] = parent[parent[x]]
                    x = parent[x]
                return x
            kw = 0
            for wgt, a, b in sorted((Wf[a, b], a, b) for a in range(n) for b in range(a + 1, n) if Wf[a, b] > 0):
                if find(a) != find(b):
                    parent[find(a)] = find(b)
                    kw += wgt
            ctx.check_true('mst/weight==kruskal', abs(tw - kw) < 1e-9, '%s vs %s' % (tw, kw))
            ctx.check_true('mst/is-spanning-tree', (TA != 0).sum() == n - 1 and _tree_consistent(t))
