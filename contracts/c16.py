"""C16 — export then import returns the same data; files are never clobbered unasked.

File formats (json / pickle / Pillow / the OS) are external: bounded run-time
contracts in a temporary directory.  The 8-bit quantisation pair is checked
exhaustively (complete finite domain)."""
import itertools
import os
import tempfile
from collections import OrderedDict
from pathlib import Path

import numpy as np

from vp.registry import contract
from . import builders as B
from .state import state_of

TRUSTED = []
ASSUMPTIONS = ['json, pickle, gzip, Pillow and the file system are external: no contract within reach decides them deductively; run-time contracts over an enumerated / seeded scope only']


def _cmp_states(a, b, path=''):
    """first difference between two state_of() descriptions (floats compared exactly, NaN == NaN)"""
    if a[0] != b[0]:
        return '%s: kind %s vs %s' % (path, a[0], b[0])
    k = a[0]
    if k in ('array', 'sparse'):
        x, y = np.asarray(a[-1]), np.asarray(b[-1])
        if x.shape != y.shape:
            return '%s: shape %s vs %s' % (path, x.shape, y.shape)
        try:
            xf, yf = x.astype(float), y.astype(float)
            if not np.array_equal(xf, yf, equal_nan=True):
                return '%s: values differ' % path
        except (TypeError, ValueError):
            if not np.array_equal(x, y):
                return '%s: values differ' % path
        return None
    if k == 'dict':
        if [x[0] for x in a[1]] != [x[0] for x in b[1]]:
            return '%s: keys %s vs %s' % (path, [x[0] for x in a[1]], [x[0] for x in b[1]])
        for (k1, v1), (_, v2) in zip(a[1], b[1]):
            r = _cmp_states(v1, v2, '%s[%r]' % (path, k1))
            if r:
                return r
        return None
    if k == 'list':
        if len(a[1]) != len(b[1]):
            return '%s: len' % path
        for i, (v1, v2) in enumerate(zip(a[1], b[1])):
            r = _cmp_states(v1, v2, '%s[%d]' % (path, i))
            if r:
                return r
        return None
    if k == 'object':
        if a[1] != b[1]:
            return '%s: class %s vs %s' % (path, a[1], b[1])
        da, db = dict(a[2]), dict(b[2])
        if sorted(da) != sorted(db):
            return '%s: attributes %s vs %s' % (path, sorted(da), sorted(db))
        for kk in da:
            r = _cmp_states(da[kk], db[kk], '%s.%s' % (path, kk))
            if r:
                return r
        return None
    if k == 'value':
        x, y = a[1], b[1]
        same = (x == y) or (isinstance(x, float) and isinstance(y, float) and x != x and y != y)
        try:
            same = bool(same)
        except Exception:
            same = True
        return None if same else '%s: %r vs %r' % (path, x, y)
    return None if a[1:] == b[1:] else '%s differs' % path


@contract('C16', 'overwrite_guard', level='bounded', native_samples=1,
          configs=[dict(exporter=e, spelling=s, kind=k) for e in ('ljson', 'pts', 'png', 'bmp', 'pkl', 'pkl.gz')
                   for s in ('absolute', 'relative', 'multi.dot.name', 'dot-segments') for k in ('str', 'Path')],
          functions=['menpo.io.output.base:_validate_filepath', 'menpo.io.output.base:_export', 'menpo.io.output.base:export_pickle',
                     'menpo.io.output.base:export_landmark_file', 'menpo.io.output.base:export_image',
                     'menpo.io.output.base:_validate_and_get_export_func'])
def overwrite_guard(ctx, exporter, spelling, kind):
    """exporting onto an existing path without overwrite=True raises
    OverwriteError and leaves the file byte-for-byte intact; with
    overwrite=True it is replaced; a fresh path is written."""
    import menpo.io as mio
    from menpo.io.exceptions import OverwriteError
    from menpo.image import Image
    T, S = B.menpo_mods()
    obj = {'ljson': S.PointCloud(np.arange(6.0).reshape(3, 2)), 'pts': S.PointCloud(np.arange(6.0).reshape(3, 2)),
           'png': Image(np.linspace(0, 1, 24).reshape(1, 4, 6)), 'bmp': Image(np.linspace(0, 1, 72).reshape(3, 4, 6)),
           'pkl': S.PointCloud(np.arange(6.0).reshape(3, 2)), 'pkl.gz': S.PointCloud(np.arange(6.0).reshape(3, 2))}[exporter]
    fn = {'ljson': mio.export_landmark_file, 'pts': mio.export_landmark_file, 'png': mio.export_image, 'bmp': mio.export_image,
          'pkl': mio.export_pickle, 'pkl.gz': mio.export_pickle}[exporter]
    cwd = os.getcwd()
    with tempfile.TemporaryDirectory() as td:
        os.makedirs(os.path.join(td, 'sub'))
        os.chdir(td)
        try:
            stem = 'multi.dot.name' if spelling == 'multi.dot.name' else 'out'
            real = os.path.join(td, 'sub', '%s.%s' % (stem, exporter))
            spelled = {'absolute': real, 'relative': os.path.join('sub', os.path.basename(real)), 'multi.dot.name': real,
                       'dot-segments': os.path.join(td, 'sub', '..', 'sub', '.', os.path.basename(real))}[spelling]
            arg = spelled if kind == 'str' else Path(spelled)
            sentinel = b'PRECIOUS-BYTES-' + os.urandom(16)
            with open(real, 'wb') as f:
                f.write(sentinel)
            refused = False
            try:
                fn(obj, arg)
            except OverwriteError:
                refused = True
            ctx.check_true('existing-path/refused-with-OverwriteError', refused)
            ctx.check_true('existing-path/file-byte-for-byte-intact', open(real, 'rb').read() == sentinel)
            refused = False
            try:
                fn(obj, arg, overwrite=False)
            except OverwriteError:
                refused = True
            ctx.check_true('existing-path/explicit-overwrite=False/refused', refused and open(real, 'rb').read() == sentinel)
            fn(obj, arg, overwrite=True)
            ctx.check_true('overwrite=True/file-replaced', open(real, 'rb').read() != sentinel and os.path.getsize(real) > 0)
            os.remove(real)
            fn(obj, arg)
            ctx.check_true('fresh-path/written', os.path.exists(real) and os.path.getsize(real) > 0)
            ctx.check_true('no-stray-files', sorted(os.listdir(os.path.join(td, 'sub'))) == [os.path.basename(real)] and
                           sorted(os.listdir(td)) == ['sub'])
        finally:
            os.chdir(cwd)


def _shapes(rs, d):
    T, S = B.menpo_mods()
    n = 5
    P = rs.randn(n, d) * 100
    edges = np.array([[0, 1], [1, 2], [3, 4]])
    lab = OrderedDict([('zeta', np.array([1, 1, 0, 0, 0], bool)), ('été-漢', np.array([0, 1, 1, 1, 1], bool)), ('alpha', np.array([1, 0, 0, 0, 1], bool))])
    out = {'PointCloud': S.PointCloud(P), 'PointUndirectedGraph': S.PointUndirectedGraph.init_from_edges(P, edges),
           'EmptyEdges': S.PointUndirectedGraph.init_from_edges(P, np.zeros((0, 2), dtype=int)),
           'LabelledPointUndirectedGraph': S.LabelledPointUndirectedGraph(P, S.PointUndirectedGraph.init_from_edges(P, edges).adjacency_matrix, lab),
           'TriMesh': S.TriMesh(P, trilist=np.array([[0, 1, 2], [2, 3, 4]]))}
    return out


@contract('C16', 'landmark_roundtrip', level='bounded', native_samples=3,
          configs=[dict(fmt=f, cls=c, d=d, nan=nn) for f in ('ljson', 'pts') for c in ('PointCloud', 'PointUndirectedGraph', 'EmptyEdges', 'LabelledPointUndirectedGraph', 'TriMesh')
                   for d in (2, 3) for nn in ('none', 'full-row', 'partial-row') if not (f == 'pts' and (d == 3 or nn != 'none'))] +
          [dict(fmt='ljson', cls='LandmarkManager', d=2, nan='partial-row')],
          functions=['menpo.io.output.landmark:ljson_exporter', 'menpo.io.output.landmark:pts_exporter', 'menpo.io.input.landmark:ljson_importer',
                     'menpo.io.input.landmark:_parse_ljson_v3', 'menpo.io.input.landmark:_ljson_parse_null_values', 'menpo.io.input.landmark:pts_importer'])
def landmark_roundtrip(ctx, fmt, cls, d, nan):
    """LJSON: identical coordinates (missing values included, also when only
    some coordinates of a point are missing), same undirected edges, same
    labels in the same order, same group names; PTS: within 3 decimals."""
    import menpo.io as mio
    T, S = B.menpo_mods()
    rs = ctx.nprng
    with tempfile.TemporaryDirectory() as td:
        if cls == 'LandmarkManager':
            owner = S.PointCloud(rs.randn(3, 2))
            sh = _shapes(rs, 2)
            names = ['z-group', 'a group', 'ümläut']
            for nm, k in zip(names, ('LabelledPointUndirectedGraph', 'PointCloud', 'PointUndirectedGraph')):
                g = sh[k]
                g.points[1, 0] = np.nan
                owner.landmarks[nm] = g
            p = os.path.join(td, 'm.ljson')
            mio.export_landmark_file(owner.landmarks, p)
            back = mio.import_landmark_file(p)
            ctx.check_true('same-group-names', sorted(back) == sorted(names), str(list(back)))
            for nm in names:
                a, b = owner.landmarks[nm], back[nm]
                ctx.check_true('group[%s]/coordinates' % nm, np.array_equal(a.points, b.points, equal_nan=True))
            return
        obj = _shapes(rs, d)[cls]
        if nan == 'full-row':
            obj.points[2, :] = np.nan
        elif nan == 'partial-row':
            obj.points[1, 0] = np.nan
            obj.points[3, d - 1] = np.nan
        p = os.path.join(td, 'x.' + fmt)
        mio.export_landmark_file(obj, p)
        back = mio.import_landmark_file(p)
        if isinstance(back, dict):
            ctx.check_true('single-group', len(back) == 1)
            back = list(back.values())[0]
        elif hasattr(back, 'n_groups'):
            back = back[None]
        if fmt == 'pts':
            ctx.check_true('pts/within-three-decimals', back.points.shape == obj.points.shape and bool(np.all(np.abs(back.points - obj.points) <= 5.1e-4)))
            return
        ctx.check_true('coordinates-identical(missing-values-included)', np.array_equal(back.points, obj.points, equal_nan=True),
                       '%s vs %s' % (back.points.tolist(), obj.points.tolist()))
        if hasattr(obj, 'adjacency_matrix'):
            A = obj.adjacency_matrix.toarray() != 0
            ctx.check_true('same-undirected-edges', hasattr(back, 'adjacency_matrix') and np.array_equal(back.adjacency_matrix.toarray() != 0, A | A.T))
        if cls == 'LabelledPointUndirectedGraph':
            ctx.check_true('labels-same-order', back.labels == obj.labels, '%s vs %s' % (back.labels, obj.labels))
            ctx.check_true('label-masks', all(np.array_equal(back._labels_to_masks[l], obj._labels_to_masks[l]) for l in obj.labels))


def _picklables(rs):
    from menpo.image import Image, MaskedImage, BooleanImage
    from menpo.model import PCAVectorModel, PCAModel, GMRFVectorModel
    from menpo.shape import UndirectedGraph
    T, S = B.menpo_mods()
    sh = _shapes(rs, 2)
    sh['LabelledPointUndirectedGraph'].landmarks['inner'] = S.PointCloud(rs.randn(2, 2))
    im = MaskedImage(rs.rand(2, 4, 5), mask=rs.rand(4, 5) > 0.3)
    im.landmarks['a'] = sh['PointUndirectedGraph']
    src, tgt = S.PointCloud(rs.randn(4, 2)), S.PointCloud(rs.randn(4, 2))
    out = dict(sh)
    out.update(Image=Image(rs.rand(3, 3, 4)), MaskedImage=im, BooleanImage=BooleanImage(rs.rand(3, 4) > 0.5),
               Affine=T.Affine(np.vstack([np.hstack([np.eye(2) + .1 * rs.randn(2, 2), rs.randn(2, 1)]), [0, 0, 1]])),
               AlignmentSimilarity=T.AlignmentSimilarity(src, tgt), TransformChain=T.TransformChain([T.Translation([1., 2.]), T.UniformScale(2., 2)]),
               ThinPlateSplines=T.ThinPlateSplines(src, tgt), PiecewiseAffine=T.PiecewiseAffine(S.TriMesh(src.points, trilist=np.array([[0, 1, 2], [1, 2, 3]])), tgt),
               PCAVectorModel=PCAVectorModel(rs.randn(8, 5)), PCAModel=PCAModel([S.PointCloud(rs.randn(3, 2)) for _ in range(6)]),
               GMRFVectorModel=GMRFVectorModel(rs.randn(12, 6), UndirectedGraph.init_from_edges(np.array([[0, 1], [1, 2]]), 3), dtype=np.float64))
    return out


@contract('C16', 'pickle_roundtrip', level='bounded', native_samples=2,
          configs=[dict(ext=e, kind=k) for e in ('pkl', 'pkl.gz') for k in ('str', 'Path')],
          functions=['menpo.io.output.base:export_pickle', 'menpo.io.output.pickle:pickle_export', 'menpo.io.input.base:import_pickle'])
def pickle_roundtrip(ctx, ext, kind):
    """every picklable menpo object comes back with equal state (apart from the recorded path)."""
    import menpo.io as mio
    rs = ctx.nprng
    with tempfile.TemporaryDirectory() as td:
        for name, obj in _picklables(rs).items():
            p = os.path.join(td, '%s.%s' % (name, ext))
            mio.export_pickle(obj, p if kind == 'str' else Path(p))
            back = mio.import_pickle(p)
            diff = _cmp_states(state_of(obj), state_of(back))
            ctx.check_true('%s/equal-state' % name, diff is None and type(back) is type(obj), str(diff))


@contract('C16', 'quantisation_exhaustive', level='bounded', native_samples=1, configs=[dict(bits=8), dict(bits=16)],
          functions=['menpo.image.base:normalize_pixels_range', 'menpo.image.base:denormalize_pixels_range'])
def quantisation_exhaustive(ctx, bits):
    """complete finite domain: denormalize(normalize(x)) is the identity on all
    256 (65 536) values; float data in [0, 1] changes by less than one level."""
    from menpo.image.base import normalize_pixels_range, denormalize_pixels_range
    dt = np.uint8 if bits == 8 else np.uint16
    top = 2 ** bits - 1
    x = np.arange(top + 1, dtype=dt)
    for layout in ((1, 1, -1), (1, -1, 16), (4, -1, 4) if bits == 8 else (4, -1, 64)):
        a = x.reshape(layout)
        back = denormalize_pixels_range(normalize_pixels_range(a), dt)
        ctx.case(dict(values='0..%d' % top, dtype=str(np.dtype(dt)), layout=list(layout)), count=top + 1, nontrivial=layout == (1, 1, -1))
        ctx.check_true('identity-on-all-%d-values%s' % (top + 1, list(layout)), back.dtype == dt and np.array_equal(back, a))
    f = np.linspace(0.0, 1.0, 2 * top + 1).reshape(1, 1, -1)
    q = denormalize_pixels_range(f, dt)
    ctx.check_true('float->int->float/less-than-one-level', bool(np.all(np.abs(normalize_pixels_range(q) - f) < 1.0 / top)))
    g = ctx.nprng.rand(1, 7, 9)
    ctx.check_true('random-float/less-than-one-level', bool(np.all(np.abs(normalize_pixels_range(denormalize_pixels_range(g, dt)) - g) < 1.0 / top)))


@contract('C16', 'image_roundtrip', level='bounded', native_samples=2, configs=[dict(ext=e, ch=c) for e in ('png', 'bmp') for c in (1, 3)],
          functions=['menpo.io.output.image:pillow_export', 'menpo.io.input.image:pillow_importer', 'menpo.io.output.base:export_image'])
def image_roundtrip(ctx, ext, ch):
    """8-bit image data survives import -> export -> re-import unchanged;
    float data changes by less than one quantisation level."""
    import menpo.io as mio
    from menpo.image import Image
    rs = ctx.nprng
    with tempfile.TemporaryDirectory() as td:
        u8 = rs.randint(0, 256, size=(ch, 6, 7)).astype(np.uint8)
        u8[:, 0, :4] = [0, 1, 254, 255]
        p1 = os.path.join(td, 'a.' + ext)
        mio.export_image(Image(u8), p1)
        a = mio.import_image(p1, normalize=False)
        ctx.check_true('uint8/export->import-identical', a.pixels.dtype == np.uint8 and np.array_equal(a.pixels, u8))
        p2 = os.path.join(td, 'b.' + ext)
        mio.export_image(a, p2)
        b = mio.import_image(p2, normalize=False)
        ctx.check_true('uint8/re-export->re-import-identical', np.array_equal(b.pixels, u8))
        an = mio.import_image(p1, normalize=True)
        p3 = os.path.join(td, 'c.' + ext)
        mio.export_image(an, p3)
        c = mio.import_image(p3, normalize=False)
        ctx.check_true('normalized-import->export->import-identical', np.array_equal(c.pixels, u8))
        fl = rs.rand(ch, 5, 6)
        p4 = os.path.join(td, 'd.' + ext)
        mio.export_image(Image(fl), p4)
        d = mio.import_image(p4, normalize=True)
        ctx.check_true('float/less-than-one-level', bool(np.all(np.abs(d.pixels - fl) < 1.0 / 255)))
