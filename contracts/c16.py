"""C16 — export then import returns the same data; files are never clobbered unasked.

File formats (json / pickle / Pillow / the OS) are external: bounded run-time
contracts in a temporary directory.  The 8-bit quantisation pair is checked
exhaustively (complete finite domain)."""
import itertools
import os
import tempfile
from collections import OrderedDict
from pathlib import Path

import numpy as np

from vp.registry import contract
from . import builders as B
from .state import state_of

TRUSTED = []
ASSUMPTIONS = ['json, pickle, gzip, Pillow and the file system are external: no contract within reach decides them deductively; run-time contracts over an enumerated / seeded scope only']


def _cmp_states(a, b, path=''):
    """first difference between two state_of() descriptions (floats compared exactly, NaN == NaN)"""
    if a[0] != b[0]:
        return '%s: kind %s vs %s' % (path, a[0], b[0])
    k = a[0]
    if k in ('array', 'sparse'):
        x, y = np.asarray(a[-1]), np.asarray(b[-1])
        if x.shape != y.shape:
            return '%s: shape %s vs %s' % (path, x.shape, y.shape)
        try:
            xf, yf = x.astype(float), y.astype(float)
            if not np.array_equal(xf, yf, equal_nan=True):
                return '%s: values differ' % path
        except (TypeError, ValueError):
            if not np.array_equal(x, y):
                return '%s: values differ' % path
        return None
    if k == 'dict':
        if [x[0] for x in a[1]] != [x[0] for x in b[1]]:
            return '%s: keys %s vs %s' % (path, [x[0] for x in a[1]], [x[0] for x in b[1]])
        for (k1, v1), (_, v2) in zip(a[1], b[1]):
            r = _cmp_states(v1, v2, '%s[%r]' % (path, k1))
            if r:
                return r
        return None
    if k == 'list':
        if len(a[1]) != len(b[1]):
            return '%s: len' % path
        for i, (v1, v2) in enumerate(zip(a[1], b[1])):
            r = _cmp_states(v1, v2, '%s[%d]' % (path, i))
            if r:
                return r
        return None
    if k == 'object':
        if a[1] != b[1]:
            return '%s: class %s vs %s' % (path, a[1], b[1])
        da, db = dict(a[2]), dict(b[2])
        if sorted(da) != sorted(db):
            return '%s: attributes %s vs %s' % (path, sorted(da), sorted(db))
        for kk in da:
            r = _cmp_states(da[kk], db[kk], '%s.%s' % (path, kk))
            if r:
                return r
        return None
    if k == 'value':
        x, y = a[1], b[1]
        same = (x == y) or (isinstance(x, float) and isinstance(y, float) and x != x and y != y)
        try:
            same = bool(same)
        except Exception:
            same = True
        return None if same else '%s: %r vs %r' % (path, x, y)
    return None if a[1:] == b[1:] else '%s differs' % path


@contract('C16', 'overwrite_guard', level='bounded', native_samples=1,
          configs=[dict(exporter=e, spelling=s, kind=k) for e in ('ljson', 'pts', 'png', 'bmp', 'pkl', 'pkl.gz')
                   for s in ('absolute', 'relative', 'multi.dot.name', 'dot-segments') for k in ('str', 'Path')],
          functions=['menpo.io.output.base:_validate_filepath', 'menpo.io.output.base:_export', 'menpo.io.output.base:export_pickle',
                     'menpo.io.output.base:export_landmark_file', 'menpo.io.output.base:export_image',
                     'menpo.io.output.base:_validate_and_get_export_func'])
def overwrite_guard(ctx, exporter, spelling, kind):
    """exporting onto an existing path without overwrite=True raises
    OverwriteError and leaves the file byte-for-byte intact; with
    overwrite=True it is replaced; a fresh path is written."""
    import menpo.io as mio
    from menpo.io.exceptions import OverwriteError
    from menpo.image import Image
    T, S = B.menpo_mods()
    obj = {'ljson': S.PointCloud(np.arange(6.0).reshape(3, 2)), 'pts': S.PointCloud(np.arange(6.0).reshape(3, 2)),
           'png': Image(np.linspace(0, 1, 24).reshape(1, 4, 6)), 'bmp': Image(np.linspace(0, 1, 72).reshape(3, 4, 6)),
           'pkl': S.PointCloud(np.arange(6.0).reshape(3, 2)), 'pkl.gz': S.PointCloud(np.arange(6.0).reshape(3, 2))}[exporter]
    fn = {'ljson': mio.export_landmark_file, 'pts': mio.export_landmark_file, 'png': mio.export_image, 'bmp': mio.export_image,
          'pkl': mio.export_pickle, 'pkl.gz': mio.export_pickle}[exporter]
    cwd = os.getcwd()
    with tempfile.TemporaryDirectory() as td:
        os.makedirs(os.path.join(td, 'sub'))
        os.chdir(td)
        try:
            stem = 'multi.dot.name' if spelling == 'multi.dot.name' else 'out'
            real = os.path.join(td, 'sub', '%s.%s' % (stem, exporter))
            spelled = {'absolute': real, 'relative': os.path.join('sub', os.path.basename(real)), 'multi.dot.name': real,
                       'dot-segments': os.path.join(td, 'sub', '..', 'sub', '.', os.path.basename(real))}[spelling]
            arg = spelled if kind == 'str' else Path(spelled)
            sentinel = b'PRECIOUS-BYTES-' + os.urandom(16)
            with open(real, 'wb') as f:
                f.write(sentinel)
            refused = False
            try:
                fn(obj, arg)
            except OverwriteError:
                refused = True
            ctx.check_true('existing-path/refused-with-OverwriteError', refused)
            ctx.check_true('existing-path/file-byte-for-byte-intact', open(real, 'rb').read() == sentinel)
            refused = False
            try:
                fn(obj, arg, overwrite=False)
            except OverwriteError:
                refused = True
            ctx.check_true('existing-path/explicit-overwrite=False/refused', refused and open(real, 'rb').read() == sentinel)
            fn(obj, arg, overwrite=True)
            ctx.check_true('overwrite=True/file-replaced', open(real, 'rb').read() != sentinel and os.path.getsize(real) > 0)
            os.remove(real)
            fn(obj, arg)
            ctx.check_true('fresh-path/written', os.path.exists(real) and os.path.getsize(real) > 0)
            ctx.check_true('no-stray-files', sorted(os.listdir(os.path.join(td, 'sub'))) == [os.path.basename(real)] and
                           sorted(os.listdir(td)) == ['sub'])
        finally:
            os.chdir(cwd)


MAGNITUDES = {'hundreds': 100.0, 'thousands': 3000.0, 'millions': 2.5e6, 'thousandths': 1e-3}


def _shapes(rs, d, magnitude='hundreds'):
    T, S = B.menpo_mods()
    n = 5
    P = rs.randn(n, d) * MAGNITUDES[magnitude]
    if magnitude != 'thousandths':
        P[0] = np.abs(P[0]) + MAGNITUDES[magnitude]       # at least one point of the full magnitude
    edges = np.array([[0, 1], [1, 2], [3, 4]])
    lab = OrderedDict([('zeta', np.array([1, 1, 0, 0, 0], bool)), ('été-漢', np.array([0, 1, 1, 1, 1], bool)), ('alpha', np.array([1, 0, 0, 0, 1], bool))])
    out = {'PointCloud': S.PointCloud(P), 'PointUndirectedGraph': S.PointUndirectedGraph.init_from_edges(P, edges),
           'EmptyEdges': S.PointUndirectedGraph.init_from_edges(P, np.zeros((0, 2), dtype=int)),
           'LabelledPointUndirectedGraph': S.LabelledPointUndirectedGraph(P, S.PointUndirectedGraph.init_from_edges(P, edges).adjacency_matrix, lab),
           'TriMesh': S.TriMesh(P, trilist=np.array([[0, 1, 2], [2, 3, 4]]))}
    return out


@contract('C16', 'landmark_roundtrip', level='bounded', native_samples=3,
          configs=[dict(fmt=f, cls=c, d=d, nan=nn) for f in ('ljson', 'pts') for c in ('PointCloud', 'PointUndirectedGraph', 'EmptyEdges', 'LabelledPointUndirectedGraph', 'TriMesh')
                   for d in (2, 3) for nn in ('none', 'full-row', 'partial-row') if not (f == 'pts' and (d == 3 or nn != 'none'))] +
          [dict(fmt='ljson', cls='LandmarkManager', d=2, nan='partial-row')] +
          [dict(fmt=f, cls='PointCloud', d=2, nan='none', magnitude=m) for f in ('ljson', 'pts') for m in ('thousands', 'millions', 'thousandths')],
          functions=['menpo.io.output.landmark:ljson_exporter', 'menpo.io.output.landmark:pts_exporter', 'menpo.io.input.landmark:ljson_importer',
                     'menpo.io.input.landmark:_parse_ljson_v3', 'menpo.io.input.landmark:_ljson_parse_null_values', 'menpo.io.input.landmark:pts_importer'])
def landmark_roundtrip(ctx, fmt, cls, d, nan, magnitude='hundreds'):
    """LJSON: identical coordinates (missing values included, also when only
    some coordinates of a point are missing), same undirected edges, same
    labels in the same order, same group names; PTS: within 3 decimals."""
    import menpo.io as mio
    T, S = B.menpo_mods()
    rs = ctx.nprng
    with tempfile.TemporaryDirectory() as td:
        if cls == 'LandmarkManager':
            # several groups in one file, in every order of the group kinds (the file lists groups by name): each group
            # comes back as itself - coordinates, edges, and labels exactly when it had labels
            import itertools
            kinds = ('LabelledPointUndirectedGraph', 'PointCloud', 'PointUndirectedGraph', 'EmptyEdges')
            names = ['a group', 'm-group', 'z-group', 'ümläut']
            for perm_no, perm in enumerate(itertools.permutations(kinds)):
                owner = S.PointCloud(rs.randn(3, 2))
                sh = _shapes(rs, 2)
                for nm, k in zip(names, perm):
                    g = sh[k].copy()
                    g.points[1, 0] = np.nan
                    if k == 'PointCloud':
                        g = S.PointCloud(g.points[:3])          # groups of different sizes in one file
                    owner.landmarks[nm] = g
                p = os.path.join(td, 'm%d.ljson' % perm_no)
                mio.export_landmark_file(owner.landmarks, p)
                try:
                    back = mio.import_landmark_file(p)
                except Exception as e:
                    ctx.check_true('order[%s]/imports' % ','.join(k[:5] for k in perm), False, '%s: %s' % (type(e).__name__, e))
                    continue
                ctx.check_true('same-group-names', sorted(back) == sorted(names), str(list(back)))
                for nm, k in zip(names, perm):
                    a, b = owner.landmarks[nm], back[nm]
                    tag = 'group[%s after %s]' % (k, ','.join(kk[:5] for kk in perm[:perm.index(k)]) or '-')
                    ctx.check_true(tag + '/coordinates', np.array_equal(a.points, b.points, equal_nan=True))
                    Aa = a.adjacency_matrix.toarray() != 0 if hasattr(a, 'adjacency_matrix') else np.zeros((a.n_points, a.n_points), bool)
                    Ab = b.adjacency_matrix.toarray() != 0 if hasattr(b, 'adjacency_matrix') else np.zeros((b.n_points, b.n_points), bool)
                    ctx.check_true(tag + '/same-undirected-edges', Aa.shape == Ab.shape and np.array_equal(Ab | Ab.T, Aa | Aa.T))
                    la, lb = list(getattr(a, 'labels', [])), list(getattr(b, 'labels', []))
                    ctx.check_true(tag + '/same-labels-in-order', la == lb, '%s vs %s' % (lb, la))
                    ctx.check_true(tag + '/label-masks', all(np.array_equal(b._labels_to_masks[l], a._labels_to_masks[l]) for l in la if l in lb))
            return
        obj = _shapes(rs, d, magnitude)[cls]
        if nan == 'full-row':
            obj.points[2, :] = np.nan
        elif nan == 'partial-row':
            obj.points[1, 0] = np.nan
            obj.points[3, d - 1] = np.nan
        p = os.path.join(td, 'x.' + fmt)
        mio.export_landmark_file(obj, p)
        back = mio.import_landmark_file(p)
        if isinstance(back, dict):
            ctx.check_true('single-group', len(back) == 1)
            back = list(back.values())[0]
        elif hasattr(back, 'n_groups'):
            back = back[None]
        if fmt == 'pts':
            ctx.check_true('pts/within-three-decimals', back.points.shape == obj.points.shape and bool(np.all(np.abs(back.points - obj.points) <= 5.1e-4)))
            return
        ctx.check_true('coordinates-identical(missing-values-included)', np.array_equal(back.points, obj.points, equal_nan=True),
                       '%s vs %s' % (back.points.tolist(), obj.points.tolist()))
        if hasattr(obj, 'adjacency_matrix'):
            A = obj.adjacency_matrix.toarray() != 0
            ctx.check_true('same-undirected-edges', hasattr(back, 'adjacency_matrix') and np.array_equal(back.adjacency_matrix.toarray() != 0, A | A.T))
        if cls == 'LabelledPointUndirectedGraph':
            ctx.check_true('labels-same-order', back.labels == obj.labels, '%s vs %s' % (back.labels, obj.labels))
            ctx.check_true('label-masks', all(np.array_equal(back._labels_to_masks[l], obj._labels_to_masks[l]) for l in obj.labels))


def _picklables(rs):
    from menpo.image import Image, MaskedImage, BooleanImage
    from menpo.model import PCAVectorModel, PCAModel, GMRFVectorModel
    from menpo.shape import UndirectedGraph
    T, S = B.menpo_mods()
    sh = _shapes(rs, 2)
    sh['LabelledPointUndirectedGraph'].landmarks['inner'] = S.PointCloud(rs.randn(2, 2))
    im = MaskedImage(rs.rand(2, 4, 5), mask=rs.rand(4, 5) > 0.3)
    im.landmarks['a'] = sh['PointUndirectedGraph']
    src, tgt = S.PointCloud(rs.randn(4, 2)), S.PointCloud(rs.randn(4, 2))
    out = dict(sh)
    out.update(Image=Image(rs.rand(3, 3, 4)), MaskedImage=im, BooleanImage=BooleanImage(rs.rand(3, 4) > 0.5),
               Affine=T.Affine(np.vstack([np.hstack([np.eye(2) + .1 * rs.randn(2, 2), rs.randn(2, 1)]), [0, 0, 1]])),
               AlignmentSimilarity=T.AlignmentSimilarity(src, tgt), TransformChain=T.TransformChain([T.Translation([1., 2.]), T.UniformScale(2., 2)]),
               ThinPlateSplines=T.ThinPlateSplines(src, tgt), PiecewiseAffine=T.PiecewiseAffine(S.TriMesh(src.points, trilist=np.array([[0, 1, 2], [1, 2, 3]])), tgt),
               PCAVectorModel=PCAVectorModel(rs.randn(8, 5)), PCAModel=PCAModel([S.PointCloud(rs.randn(3, 2)) for _ in range(6)]),
               GMRFVectorModel=GMRFVectorModel(rs.randn(12, 6), UndirectedGraph.init_from_edges(np.array([[0, 1], [1, 2]]), 3), dtype=np.float64))
    return out


@contract('C16', 'pickle_roundtrip', level='bounded', native_samples=2,
          configs=[dict(ext=e, kind=k) for e in ('pkl', 'pkl.gz') for k in ('str', 'Path')],
          functions=['menpo.io.output.base:export_pickle', 'menpo.io.output.pickle:pickle_export', 'menpo.io.input.base:import_pickle'])
def pickle_roundtrip(ctx, ext, kind):
    """every picklable menpo object comes back with equal state (apart from the recorded path)."""
    import menpo.io as mio
    rs = ctx.nprng
    with tempfile.TemporaryDirectory() as td:
        for name, obj in _picklables(rs).items():
            p = os.path.join(td, '%s.%s' % (name, ext))
            mio.export_pickle(obj, p if kind == 'str' else Path(p))
            back = mio.import_pickle(p)
            diff = _cmp_states(state_of(obj), state_of(back))
            ctx.check_true('%s/equal-state' % name, diff is None and type(back) is type(obj), str(diff))


@contract('C16', 'quantisation_exhaustive', level='bounded', native_samples=1, configs=[dict(bits=8), dict(bits=16)],
          functions=['menpo.image.base:normalize_pixels_range', 'menpo.image.base:denormalize_pixels_range'])
def quantisation_exhaustive(ctx, bits):
    """complete finite domain: denormalize(normalize(x)) is the identity on all
    256 (65 536) values; float data in [0, 1] changes by less than one level."""
    from menpo.image.base import normalize_pixels_range, denormalize_pixels_range
    dt = np.uint8 if bits == 8 else np.uint16
    top = 2 ** bits - 1
    x = np.arange(top + 1, dtype=dt)
    for layout in ((1, 1, -1), (1, -1, 16), (4, -1, 4) if bits == 8 else (4, -1, 64)):
        a = x.reshape(layout)
        back = denormalize_pixels_range(normalize_pixels_range(a), dt)
        ctx.case(dict(values='0..%d' % top, dtype=str(np.dtype(dt)), layout=list(layout)), count=top + 1, nontrivial=layout == (1, 1, -1))
        ctx.check_true('identity-on-all-%d-values%s' % (top + 1, list(layout)), back.dtype == dt and np.array_equal(back, a))
    f = np.linspace(0.0, 1.0, 2 * top + 1).reshape(1, 1, -1)
    q = denormalize_pixels_range(f, dt)
    ctx.check_true('float->int->float/less-than-one-level', bool(np.all(np.abs(normalize_pixels_range(q) - f) < 1.0 / top)))
    g = ctx.nprng.rand(1, 7, 9)
    ctx.check_true('random-float/less-than-one-level', bool(np.all(np.abs(normalize_pixels_range(denormalize_pixels_range(g, dt)) - g) < 1.0 / top)))


@contract('C16', 'image_roundtrip', level='bounded', native_samples=2, configs=[dict(ext=e, ch=c) for e in ('png', 'bmp') for c in (1, 3)],
          functions=['menpo.io.output.image:pillow_export', 'menpo.io.input.image:pillow_importer', 'menpo.io.output.base:export_image'])
def image_roundtrip(ctx, ext, ch):
    """8-bit image data survives import -> export -> re-import unchanged;
    float data changes by less than one quantisation level."""
    import menpo.io as mio
    from menpo.image import Image
    rs = ctx.nprng
    with tempfile.TemporaryDirectory() as td:
        u8 = rs.randint(0, 256, size=(ch, 6, 7)).astype(np.uint8)
        u8[:, 0, :4] = [0, 1, 254, 255]
        p1 = os.path.join(td, 'a.' + ext)
        mio.export_image(Image(u8), p1)
        a = mio.import_image(p1, normalize=False)
        ctx.check_true('uint8/export->import-identical', a.pixels.dtype == np.uint8 and np.array_equal(a.pixels, u8))
        p2 = os.path.join(td, 'b.' + ext)
        mio.export_image(a, p2)
        b = mio.import_image(p2, normalize=False)
        ctx.check_true('uint8/re-export->re-import-identical', np.array_equal(b.pixels, u8))
        an = mio.import_image(p1, normalize=True)
        p3 = os.path.join(td, 'c.' + ext)
        mio.export_image(an, p3)
        c = mio.import_image(p3, normalize=False)
        ctx.check_true('normalized-import->export->import-identical', np.array_equal(c.pixels, u8))
        fl = rs.rand(ch, 5, 6)
        p4 = os.path.join(td, 'd.' + ext)
        mio.export_image(Image(fl), p4)
        d = mio.import_image(p4, normalize=True)
        ctx.check_true('float/less-than-one-level', bool(np.all(np.abs(d.pixels - fl) < 1.0 / 255)))


# ======================================================================
# E1: the overwrite guard as contracts on the real export functions
# ======================================================================
E1_FUNCS = ['_validate_filepath', '_validate_and_get_export_func', '_enforce_only_paths_supported', '_export', '_export_paths_only',
            'export_image', 'export_landmark_file', 'export_pickle', 'export_video']
# a request that is invalid whatever the file system holds (several landmark
# groups into a format other than LJSON) is refused with ValueError before the
# path is looked at; the file stays untouched (clause 'refused-call-opens-
# nothing' still applies) - the OverwriteError clause is read for valid requests
EARLY_VALUEERROR = {'export_landmark_file'}
# helpers that are only given a frame contract ("touches no file"): checked
# mechanically on their AST - every call they make is in the whitelist
FRAME_PURE = {
    '_parse_and_validate_extension': {'_possible_extensions_from_filepath', '_normalize_extension', 'ValueError', 'format', 'join', 'pop'},
    '_extension_to_export_function': {'ValueError', 'format'},
}
FRAME_PURE_UTILS = {
    '_possible_extensions_from_filepath': {'join', 'range', 'len', 'lower'},
    '_normalize_extension': {'lower', 'startswith'},
    '_norm_path': {'Path', 'abspath', 'normpath', 'expandvars', 'expanduser', 'str'},
}


def _e1_guard_contracts():
    """callee contracts used at call sites (each is the postcondition proved
    for the callee's own body in its own configuration)."""
    import z3
    from vp import pyvc, pyvc_io as IO

    def guard_forks(gen, s, p, ow, tag):
        """OverwriteError exactly when the location exists and overwrite is false"""
        blocked = z3.And(IO.exists(p.loc), z3.Not(ow))
        return s.fork([blocked]), s.fork([z3.Not(blocked)])

    def as_bool(gen, s, v):
        return gen.truth(v) if not isinstance(v, bool) else z3.BoolVal(v)

    def k_validate_filepath(gen, s, args, kw):
        p, ow = args
        sb, sf = guard_forks(gen, s, p, as_bool(gen, s, ow), 'vf')
        return [(sb, pyvc.ExcV('OverwriteError')), (sf, IO.PathV('Path', p.loc, True))]

    def k_vagef(gen, s, args, kw):
        p, emap, ext, ow = args[:4]
        ret_ext = False
        if len(args) > 4:
            ret_ext = args[4]
        elif 'return_extension' in kw:
            (s, ret_ext), = gen.ev(kw['return_extension'], s)
        sb, sf = guard_forks(gen, s, p, as_bool(gen, s, ow), 'vagef')
        bad = gen.fresh_bool('unknown_or_mismatching_extension')
        fn = IO.Opaque('callable:exporter')
        out = [(sb, pyvc.ExcV('OverwriteError')), (sf.fork([bad]), pyvc.ExcV('ValueError'))]
        ok = sf.fork([z3.Not(bad)])
        r = z3.simplify(as_bool(gen, s, ret_ext))
        if z3.is_true(r):
            out.append((ok, (fn, IO.Opaque('ext'))))
        elif z3.is_false(r):
            out.append((ok, fn))
        else:
            out.append((ok.fork([r]), (fn, IO.Opaque('ext'))))
            out.append((ok.fork([z3.Not(r)]), fn))
        return out

    def k_pure_may_raise_valueerror(result):
        def k(gen, s, args, kw):
            bad = gen.fresh_bool('raises_ValueError')
            return [(s.fork([bad]), pyvc.ExcV('ValueError')), (s.fork([z3.Not(bad)]), result(args))]
        return k

    def k_exporter(gen, s, args, kw):
        """an exporter callable: writes into the handle it is given, or (paths
        only exporters) creates the file at the path it is given; may raise"""
        target = args[1]
        if isinstance(target, IO.PathV):
            s.env['$written'] = z3.Store(s.env['$written'], target.loc, True)
            s.env['$n_opens'] = s.env['$n_opens'] + 1
        elif not isinstance(target, IO.HandleV):
            raise pyvc.OutsideSubset('exporter target %r' % (target,))
        return [(s, pyvc.NONE)]

    def k_opener(gen, s, args, kw):
        p = args[0]
        s.env['$written'] = z3.Store(s.env['$written'], p.loc, True)
        s.env['$n_opens'] = s.env['$n_opens'] + 1
        return [(s, IO.HandleV(p.loc))]

    def k_export(gen, s, args, kw):
        obj, fp, emap, ext, ow = args[:5]
        ow = as_bool(gen, s, ow)
        bad = gen.fresh_bool('export_raises_ValueError')
        if isinstance(fp, IO.PathV):
            sb, sf = guard_forks(gen, s, fp, ow, 'export')
            ok = sf.fork([z3.Not(bad)])
            ok.env['$written'] = z3.Store(ok.env['$written'], fp.loc, True)
            ok.env['$n_opens'] = ok.env['$n_opens'] + 1
            return [(sb, pyvc.ExcV('OverwriteError')), (sf.fork([bad]), pyvc.ExcV('ValueError')), (ok, pyvc.NONE)]
        if isinstance(fp, IO.HandleV):
            # named handle: the guard is evaluated on Path(fp.name); data goes into the handle, nothing is opened
            sb, sf = guard_forks(gen, s, fp, ow, 'export-handle')
            return [(sb, pyvc.ExcV('OverwriteError')), (sf.fork([bad]), pyvc.ExcV('ValueError')), (sf.fork([z3.Not(bad)]), pyvc.NONE)]
        raise pyvc.OutsideSubset('_export target %r' % (fp,))

    def k_str(gen, s, args, kw):
        (v,) = args
        if isinstance(v, IO.PathV):
            return [(s, IO.PathV('str', v.loc, v.normalised))]
        raise pyvc.OutsideSubset('str() of %r' % (v,))

    ident = lambda args: args[0]
    K = {
        'isinstance': IO.c_isinstance, 'Path': IO.c_Path, 'str': k_str, '_norm_path': IO.c_norm_path,
        '<Path>.exists': IO.c_path_exists, '<Path>.open': IO.c_path_open_wb,
        '_validate_filepath': k_validate_filepath, '_validate_and_get_export_func': k_vagef,
        '_parse_and_validate_extension': k_pure_may_raise_valueerror(lambda a: IO.Opaque('ext')),
        '_extension_to_export_function': k_pure_may_raise_valueerror(lambda a: IO.Opaque('callable:exporter')),
        '_enforce_only_paths_supported': lambda gen, s, args, kw: [(s, args[0])],      # for str / Path: proved on its body
        'hasattr': lambda gen, s, args, kw: [(s, z3.BoolVal(isinstance(args[0], IO.PathV) and args[0].kind == 'Path' or isinstance(args[0], IO.HandleV)))],
        '_normalize_extension': lambda gen, s, args, kw: [(s, args[0])],
        '_export': k_export, '_export_paths_only': k_export,
        '<callable:exporter>': k_exporter, '<callable:opener>': k_opener,
        'exporter_kwargs.update': lambda gen, s, args, kw: [(s, pyvc.NONE)],
    }
    return K


def _frame_pure_obligations(ctx):
    """frame contract 'touches no file' for the helpers that appear only as
    callee contracts: every call in their AST is in a whitelist of pure
    string / path-arithmetic operations."""
    import ast, inspect, textwrap
    import menpo.io.output.base as OB
    import menpo.io.utils as OU
    for mod, table in ((OB, FRAME_PURE), (OU, FRAME_PURE_UTILS)):
        for name, allowed in table.items():
            fn = getattr(mod, name)
            tree = ast.parse(textwrap.dedent(inspect.getsource(fn)))
            calls = set()
            for node in ast.walk(tree):
                if isinstance(node, ast.Call):
                    f = node.func
                    calls.add(f.id if isinstance(f, ast.Name) else f.attr if isinstance(f, ast.Attribute) else '<expr>')
                if isinstance(node, (ast.With, ast.Import, ast.ImportFrom, ast.Global, ast.Delete)):
                    calls.add('<%s>' % type(node).__name__)
            extra = sorted(calls - set(allowed))
            ctx.check_true('frame/%s/calls-only-pure-helpers' % name, not extra, 'unexpected calls: %s' % extra)


def _e1_cfgs(tier):
    out = [dict(func='frame-of-helpers', kind='-', ext='-')]
    for f in E1_FUNCS:
        for kind in ('str', 'Path'):
            exts = ('given', 'none') if f in ('_export', '_export_paths_only', '_validate_and_get_export_func', 'export_image', 'export_landmark_file') else ('-',)
            for e in exts:
                out.append(dict(func=f, kind=kind, ext=e))
    return out


@contract('C16', 'e1_overwrite_guard', configs=_e1_cfgs, functions=[
    'menpo.io.output.base:_validate_filepath', 'menpo.io.output.base:_validate_and_get_export_func', 'menpo.io.output.base:_export',
    'menpo.io.output.base:_export_paths_only', 'menpo.io.output.base:export_image', 'menpo.io.output.base:export_landmark_file',
    'menpo.io.output.base:export_pickle', 'menpo.io.output.base:export_video', 'menpo.io.output.base:_parse_and_validate_extension',
    'menpo.io.output.base:_extension_to_export_function', 'menpo.io.output.base:_enforce_only_paths_supported'])
def e1_overwrite_guard(ctx, func, kind, ext):
    """unbounded over the state of the file system, the overwrite flag and
    the outcome of every helper: for a str or Path target the export functions
    raise OverwriteError exactly when the target exists and overwriting was not
    requested, in that case open nothing for writing, never open any other
    location, and open the target exactly once when they return normally."""
    if not ctx.sym:
        # native counterpart: the bounded run-time contract on the real file system
        for e in ('ljson', 'pkl', 'png'):
            overwrite_guard(ctx, exporter=e, spelling='relative', kind=kind if kind in ('str', 'Path') else 'str')
        return
    if func == 'frame-of-helpers':
        _frame_pure_obligations(ctx)
        return
    import z3
    from vp import pyvc, pyvc_io as IO
    import menpo.io.output.base as OB
    fn = getattr(OB, func)
    K = dict(_e1_guard_contracts())
    K.pop(func, None)                      # the function under proof runs its own body
    g = IO.IOGen(fn, K, name='%s[%s,ext=%s]' % (func, kind, ext))
    loc = z3.Const('target', IO.Loc)
    ow = z3.Bool('overwrite')
    written0 = z3.Const('written0', z3.ArraySort(IO.Loc, z3.BoolSort()))
    fp = IO.PathV(kind, loc)
    extv = IO.Opaque('ext') if ext == 'given' else pyvc.NONE
    env = {'str': IO.TypeTok('str'), 'Path': IO.TypeTok('Path'), '$written': written0, '$n_opens': z3.IntVal(0),
           'landmark_types': IO.Opaque('map'), 'image_types': IO.Opaque('map'), 'pickle_types': IO.Opaque('map'), 'video_types': IO.Opaque('map'),
           'gzip_open': IO.Opaque('callable:opener'), 'open': IO.Opaque('callable:opener')}
    params = {
        '_validate_filepath': dict(fp=fp, overwrite=ow),
        '_validate_and_get_export_func': dict(file_path=fp, extensions_map=IO.Opaque('map'), extension=extv, overwrite=ow, return_extension=z3.Bool('return_extension')),
        '_enforce_only_paths_supported': dict(file_path=fp, exporter_name=IO.Opaque('str')),
        '_export': dict(obj=IO.Opaque('obj'), fp=fp, extensions_map=IO.Opaque('map'), extension=extv, overwrite=ow, exporter_kwargs=pyvc.NONE),
        '_export_paths_only': dict(obj=IO.Opaque('obj'), file_path=fp, extensions_map=IO.Opaque('map'), extension=extv, overwrite=ow, exporter_kwargs=pyvc.NONE),
        'export_image': dict(image=IO.Opaque('obj'), fp=fp, extension=extv, overwrite=ow),
        'export_landmark_file': dict(landmarks_object=IO.Opaque('object:any'), fp=fp, extension=extv, overwrite=ow),
        'export_pickle': dict(obj=IO.Opaque('obj'), fp=fp, overwrite=ow, protocol=z3.IntVal(2)),
        'export_video': dict(images=IO.Opaque('obj'), file_path=fp, overwrite=ow, fps=z3.IntVal(30), kwargs=IO.Opaque('dict')),
    }[func]
    env.update(params)
    blocked = z3.And(IO.exists(loc), z3.Not(ow))
    writes_file = func not in ('_validate_filepath', '_validate_and_get_export_func', '_enforce_only_paths_supported')

    def post(gen, s, out):
        w, n = s.env['$written'], s.env['$n_opens']
        nm = gen.name
        if func == '_enforce_only_paths_supported':
            # not a guard: for a str or Path it hands its argument back and touches nothing
            gen.oblige(nm + '/str-or-Path-is-returned-unchanged', s, z3.BoolVal(out[0] == 'return' and out[1] is fp))
            gen.oblige(nm + '/opens-nothing', s, z3.And(n == 0, w == written0))
            return
        is_ow_err = out[0] == 'raise' and out[1].cls == 'OverwriteError'
        if is_ow_err:
            gen.oblige(nm + '/OverwriteError-only-if-target-exists-and-overwrite-not-requested', s, blocked)
        elif not (func in EARLY_VALUEERROR and out[0] == 'raise' and out[1].cls == 'ValueError'):
            gen.oblige(nm + '/existing-target-without-overwrite-is-refused (outcome %s)' % (out[0] if out[0] != 'raise' else 'raise ' + out[1].cls), s, z3.Not(blocked))
        gen.oblige(nm + '/refused-call-opens-nothing-for-writing', s, z3.Implies(blocked, z3.And(n == 0, w == written0)))
        x = z3.Const('x!post', IO.Loc)
        gen.oblige(nm + '/frame/no-other-location-is-opened-for-writing', s, z3.ForAll([x], z3.Implies(x != loc, w[x] == written0[x])))
        if out[0] != 'raise':
            if writes_file:
                gen.oblige(nm + '/normal-return-opened-the-target-exactly-once', s, z3.And(n == 1, w[loc]))
            else:
                gen.oblige(nm + '/validation-opens-nothing', s, z3.And(n == 0, w == written0))
                if func == '_validate_filepath':
                    r = out[1]
                    gen.oblige(nm + '/returns-the-normalised-path-of-the-same-location', s,
                               z3.BoolVal(isinstance(r, IO.PathV) and r.kind == 'Path' and r.normalised) if not isinstance(r, IO.PathV) else z3.And(r.loc == loc, z3.BoolVal(r.kind == 'Path' and r.normalised)))
    try:
        vcs = g.run(env, [], post)
    except pyvc.OutsideSubset as e:
        from vp.sreal import EngineGap
        raise EngineGap('E1 subset: %s' % e)
    recs = pyvc.discharge(vcs)
    ctx.check_true('vc-generated>0', len(recs) > 0)
    ctx.check_true('vacuity/terminating-paths-with-satisfiable-assumptions', g.paths - g.vacuous_paths >= (1 if func == '_enforce_only_paths_supported' else 2), '%d paths, %d vacuous' % (g.paths, g.vacuous_paths))
    for r in recs:
        rec = dict(name='VC:' + r['name'], status=r['status'], backend='E1:' + r['backend'], time_s=r['time_s'])
        if r['status'] != 'proved':
            rec['detail'] = 'solver model: %s' % str(r.get('model'))[:300]
            rec['model'] = {'e1_counter_model': str(r.get('model'))[:300]}
        ctx.extra_results.append(rec)
    ctx.note('extraction dropped: %s; source lines: %d' % (g.dropped, g.src_lines))
