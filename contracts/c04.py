"""C04 — pseudoinverse really inverts; alignment inverses swap source/target."""
import numpy as np

from vp.registry import contract
from . import builders as B
from .c03 import check_honest

TRUSTED = [
    'lemma SVD-INV (paper, 3 lines): for symmetric non-singular L = U diag(s) Vt with U, Vt orthogonal, U diag(1/s) Vt = inverse(L); used as the contract of ThinPlateSplines._build_coefficients (L . coefficients = Y^T), whose body is additionally checked natively (bounded)',
]
ASSUMPTIONS = [
    'alignment operands are generated as (generic member of the base class, generic source, generic target): a superset of the reachable alignment states',
    'projective (Homogeneous) inverses are stated where the homogeneous coordinates are non-zero',
]


def _cfgs(tier):
    return [dict(cls=c, d=d) for d in (2, 3) for c in B.HOMOG_ALL]


@contract('C04', 'homog_pseudoinverse', configs=_cfgs, functions=[
    'menpo.transform.homogeneous.base:Homogeneous.pseudoinverse',
    'menpo.transform.homogeneous.base:Homogeneous._h_matrix_pseudoinverse',
    'menpo.transform.homogeneous.base:HomogFamilyAlignment.pseudoinverse',
    'menpo.transform.homogeneous.base:HomogFamilyAlignment.copy',
    'menpo.transform.homogeneous.rotation:Rotation.pseudoinverse',
    'menpo.transform.homogeneous.scale:NonUniformScale.pseudoinverse',
    'menpo.transform.homogeneous.scale:UniformScale.pseudoinverse',
    'menpo.transform.homogeneous.translation:Translation.pseudoinverse',
])
def homog_pseudoinverse(ctx, cls, d):
    """two-sided inverse, honest class, source/target swapped, receiver intact."""
    T, S = B.menpo_mods()
    t, info = B.build_any(ctx, cls, d, 't')
    x = ctx.reals('x', (2, d))
    h0 = t.h_matrix.copy()
    hid = t.h_matrix
    src, tgt = getattr(t, '_source', None), getattr(t, '_target', None)
    ctx.check_true('declares-true-inverse', t.has_true_inverse is True)
    p = t.pseudoinverse()
    if cls == 'Homogeneous':
        # domain conditions of the projective maps involved
        tx = B.assume_in_domain(ctx, t, x)
        B.assume_in_domain(ctx, p, tx)
        px = B.assume_in_domain(ctx, p, x)
        B.assume_in_domain(ctx, t, px)
    ctx.check_eq('left-inverse', p.apply(t.apply(x)), x)
    ctx.check_eq('right-inverse', t.apply(p.apply(x)), x)
    ctx.check_true('family', isinstance(p, T.Homogeneous))
    base = cls.replace('Alignment', '')
    ctx.check_true('class-kept', type(p) is type(t))
    check_honest(ctx, 'inverse', p, d)
    if cls != 'Homogeneous':
        # affine family: the matrix itself is determined (last row 0..0 1);
        # for projective maps only the map is (a matrix up to scale)
        ctx.check_eq('matrix-product-left', p.h_matrix.dot(h0), B.h_from(np.eye(d), np.zeros(d)))
        ctx.check_eq('matrix-product-right', h0.dot(p.h_matrix), B.h_from(np.eye(d), np.zeros(d)))
    ctx.check_eq('frame/receiver-unchanged', t.h_matrix, h0)
    ctx.check_true('frame/receiver-matrix-object-kept', t.h_matrix is hid)
    ctx.check_true('frame/inverse-not-aliasing', not np.shares_memory(p.h_matrix, t.h_matrix))
    if src is not None:
        ctx.check_true('alignment/source-is-old-target', p.source is tgt)
        ctx.check_true('alignment/target-is-old-source', p.target is src)
        ctx.check_true('alignment/receiver-source-target-kept', t.source is src and t.target is tgt)
        pp = p.pseudoinverse()
        ctx.check_true('alignment/involution-endpoints', pp.source is src and pp.target is tgt)
        ctx.check_eq('alignment/involution-matrix', pp.h_matrix.dot(p.h_matrix), B.h_from(np.eye(d), np.zeros(d)))


# ----------------------------------------------------------------------- TPS
def distinct(ctx, pts):
    n = pts.shape[0]
    for i in range(n):
        for j in range(i + 1, n):
            d = pts[i] - pts[j]
            ctx.assume(np.sum(d * d) != 0, 'landmarks distinct')


class tps_coefficients_contract(object):
    """Replaces ThinPlateSplines._build_coefficients by its contract in 'sym'
    mode:  requires L symmetric;  ensures L . coefficients = Y^T  (lemma
    SVD-INV + svd dependency contract + all singular values >= min_singular_val).
    The real body runs in 'native' mode."""

    def __init__(self, ctx, tag='tps'):
        self.ctx, self.tag, self.n = ctx, tag, 0
        self.memo = {}

    def __enter__(self):
        from menpo.transform import thinplatesplines as M
        self.M = M
        self.orig = M.ThinPlateSplines._build_coefficients
        ctx, outer = self.ctx, self
        if not ctx.sym:
            orig = self.orig

            def wrapped(tps):
                ctx.check_eq('%s%d/_build_coefficients/requires-L-symmetric' % (outer.tag, outer.n), tps.l, tps.l.T)
                outer.n += 1
                return orig(tps)
            M.ThinPlateSplines._build_coefficients = wrapped
            return self

        def stub(tps):
            tps.v = tps.target.points.T.copy()
            tps.y = np.hstack([tps.v, np.zeros([2, 3], dtype=object)])
            L = tps.l
            ctx.check_eq('%s%d/_build_coefficients/requires-L-symmetric' % (outer.tag, outer.n), L, L.T)
            # the contract is functional: equal (L, Y) give the same coefficients
            from vp import poly
            from vp.sreal import lift
            key = tuple(poly.canon_key(lift(e)) for e in list(np.asarray(L).flat) + list(np.asarray(tps.y).flat))
            C = outer.memo.get(key)
            if C is None:
                C = ctx.reals('%s%d_C' % (outer.tag, outer.n), (L.shape[0], 2))
                ctx.assume_eq(L.dot(C), tps.y.T, 'contract of _build_coefficients: L.C = Y^T', bulk=True)
                outer.memo[key] = C
            outer.n += 1
            tps.coefficients = C.copy()
        M.ThinPlateSplines._build_coefficients = stub
        return self

    def __exit__(self, *a):
        self.M.ThinPlateSplines._build_coefficients = self.orig


def _tps_cfgs(tier):
    out = []
    for kernel in ('default', 'R2LogR2RBF', 'R2LogRRBF'):
        for n in ((3, 4) if tier == 'quick' else (3, 4, 5)):
            out.append(dict(kernel=kernel, n=n))
    return out


@contract('C04', 'tps_pseudoinverse', configs=_tps_cfgs, max_paths=50, functions=[
    'menpo.transform.thinplatesplines:ThinPlateSplines.__init__',
    'menpo.transform.thinplatesplines:ThinPlateSplines._apply',
    'menpo.transform.thinplatesplines:ThinPlateSplines.pseudoinverse',
    'menpo.transform.rbf:R2LogR2RBF._apply',
    'menpo.transform.rbf:R2LogRRBF._apply',
])
def tps_pseudoinverse(ctx, kernel, n):
    """TPS interpolates its landmarks; its pseudoinverse is the TPS fitted in
    the reverse direction (kernel centred on its own source, same options) and
    sends every target landmark back onto its source landmark."""
    T, S = B.menpo_mods()
    src = B.cloud(ctx, 'src', n, 2, scale=3.0)
    tgt = B.cloud(ctx, 'tgt', n, 2, scale=3.0)
    distinct(ctx, np.vstack([src.points, tgt.points]))   # general position
    msv = 1e-4 if kernel == 'default' else 1e-6
    with tps_coefficients_contract(ctx):
        kw = {}
        if kernel != 'default':
            kw['kernel'] = getattr(T, kernel)(src.points)
            kw['min_singular_val'] = msv
        tps = T.ThinPlateSplines(src, tgt, **kw)
        ctx.check_eq('interpolates', tps.apply(src.points), tgt.points, tol=1e-5)
        from .state import state_of, compare_states
        before = state_of(tps)
        q = tps.pseudoinverse()
        compare_states(ctx, 'frame/receiver-unchanged', state_of(tps), before)
        ctx.check_true('frame/inverse-has-its-own-kernel', q.kernel is not tps.kernel)
        ctx.check_true('inverse/class', type(q) is type(tps))
        ctx.check_true('inverse/source-is-old-target', q.source is tps.target)
        ctx.check_true('inverse/target-is-old-source', q.target is tps.source)
        ctx.check_true('inverse/kernel-class', type(q.kernel) is type(tps.kernel))
        ctx.check_eq('inverse/kernel-centred-on-own-source', q.kernel.c, q.source.points)
        ctx.check_true('inverse/min_singular_val-kept', q.min_singular_val == tps.min_singular_val)
        ctx.check_eq('inverse/maps-target-landmarks-onto-source', q.apply(tgt.points), src.points, tol=1e-5)
        ctx.check_true('frame/endpoints-kept', tps.source is src and tps.target is tgt)


# ----------------------------------------------------------------------- PWA
TRILISTS = {
    1: (3, [[0, 1, 2]]),
    2: (4, [[0, 1, 2], [1, 3, 2]]),     # two triangles sharing edge (1,2)
}


def cross2(u, v):
    return u[0] * v[1] - u[1] * v[0]


def pwa_setup(ctx, n_tris, tag=''):
    """source TriMesh + target cloud with positively oriented, non-degenerate
    triangles on both sides (a valid, fold-free triangulation)."""
    T, S = B.menpo_mods()
    n, tl = TRILISTS[n_tris]
    trilist = np.array(tl, dtype=np.int64)
    sp = ctx.reals(tag + 'src', (n, 2), scale=3.0)
    tp = ctx.reals(tag + 'tgt', (n, 2), scale=3.0)
    for pts in (sp, tp):
        for tri in tl:
            a, b, c = pts[tri[0]], pts[tri[1]], pts[tri[2]]
            ctx.assume(cross2(b - a, c - a) > 0, 'triangle positively oriented / non-degenerate')
    src = S.TriMesh(sp, trilist=trilist, copy=False)
    tgt = S.PointCloud(tp, copy=False)
    return src, tgt, trilist


def _pwa_cfgs(tier):
    return [dict(n_tris=n, target=t) for n in (1, 2) for t in ('PointCloud', 'TriMesh-own-triangulation')]


# a target that is itself a mesh, triangulated differently from the source
# (other diagonal of the quad / rotated vertex order): the reverse fit must
# still use the SOURCE triangulation
OTHER_TRILIST = {1: [[1, 2, 0]], 2: [[0, 1, 3], [0, 3, 2]]}


@contract('C04', 'pwa_pseudoinverse', configs=_pwa_cfgs, max_paths=400, functions=[
    'menpo.transform.piecewiseaffine.base:AbstractPWA.pseudoinverse',
    'menpo.transform.piecewiseaffine.base:AbstractPWA.__init__',
    'menpo.transform.piecewiseaffine.base:AbstractPWA._apply',
    'menpo.transform.piecewiseaffine.base:AbstractPWA._rebuild_target_vectors',
    'menpo.transform.piecewiseaffine.base:PythonPWA.__init__',
    'menpo.transform.piecewiseaffine.base:PythonPWA.index_alpha_beta',
    'menpo.transform.piecewiseaffine.base:CachedPWA.index_alpha_beta',
    'menpo.transform.piecewiseaffine.base:alpha_beta',
    'menpo.transform.piecewiseaffine.base:index_alpha_beta',
    'menpo.transform.piecewiseaffine.base:containment_from_alpha_beta',
    'menpo.transform.piecewiseaffine.base:barycentric_vectors',
])
def pwa_pseudoinverse(ctx, n_tris, target='PointCloud'):
    """the PWA pseudoinverse is the PWA fitted in the reverse direction on the
    same triangulation: it sends every target vertex onto its source vertex and
    undoes the forward map on points of the domain."""
    T, S = B.menpo_mods()
    src, tgt, trilist = pwa_setup(ctx, n_tris)
    if target != 'PointCloud':
        tgt = S.TriMesh(tgt.points, trilist=np.array(OTHER_TRILIST[n_tris], dtype=np.int64), copy=False)
    pwa = T.PiecewiseAffine(src, tgt)
    sp0, tp0 = src.points.copy(), tgt.points.copy()
    ctx.check_true('declares-true-inverse', pwa.has_true_inverse is True)
    q = pwa.pseudoinverse()
    ctx.check_true('inverse/class', type(q) is type(pwa))
    ctx.check_eq('inverse/source-points', q.source.points, tp0)
    ctx.check_eq('inverse/target-points', q.target.points, sp0)
    ctx.check_true('inverse/same-trilist', np.array_equal(q.trilist, trilist))
    ctx.check_eq('forward/vertices', pwa.apply(sp0), tp0)
    ctx.check_eq('inverse/vertices', q.apply(tp0), sp0)
    if n_tris > 1:
        # the generic interior point is done on one triangle only: with two
        # triangles the containment of the image point in the *target*
        # triangulation needs geometric reasoning the solvers do not finish
        ctx.check_eq('frame/source-unchanged', src.points, sp0)
        ctx.check_eq('frame/target-unchanged', tgt.points, tp0)
        return
    # a generic point strictly inside source triangle 0
    a, b, c = sp0[trilist[0][0]], sp0[trilist[0][1]], sp0[trilist[0][2]]
    al = ctx.real('al', lo=0.05, hi=0.9)
    be = ctx.real('be', lo=0.05, hi=0.9)
    ctx.assume(al + be < 0.95, 'strictly inside triangle 0')
    x = (a + al * (b - a) + be * (c - a)).reshape(1, 2)
    y = pwa.apply(x)
    ctx.check_eq('inverse/left-inverse-on-domain', q.apply(y), x)
    ctx.check_eq('frame/source-unchanged', src.points, sp0)
    ctx.check_eq('frame/target-unchanged', tgt.points, tp0)
