"""C15 — labelled groups select exactly what labels say, in deterministic order."""
import itertools
import re
import subprocess
import sys
from collections import OrderedDict

import numpy as np

from vp.registry import contract
from . import builders as B
from .state import state_of, compare_states, independent

TRUSTED = []
ASSUMPTIONS = [
    'G3: a pure re-indexing commutes with every row-wise map (also checked directly with an opaque map)',
    'with_labels is exercised with requests given in the original label order (the statement fixes the result order to the original one; a permuted request is not covered)',
]


def labellers():
    import menpo.landmark as L
    out = []
    for name in sorted(dir(L)):
        f = getattr(L, name)
        if callable(f) and hasattr(f, 'group_label') and '_to_' in name and 'bounding_box' not in name:
            m = re.match(r'^[a-zA-Z_]*?(\d+)[a-zA-Z_0-9]*?_to_', name)
            n = int(re.search(r'_(\d+)(?:_mirrored|_trimesh)?_to_', name).group(1))
            out.append((name, f, n))
    return out


def _lab_cfgs(tier):
    return [dict(name=name, d=d, kind=k) for name, f, n in labellers() for d in (2, 3) for k in ('ndarray', 'PointCloud', 'LabelledPointUndirectedGraph')
            if not (d == 3 and k != 'ndarray' and tier == 'quick')]


def _same_row(ctx, a, b):
    if ctx.sym:
        return all((hasattr(x, 't') and hasattr(y, 't') and x.t.eq(y.t)) or (not hasattr(x, 't') and not hasattr(y, 't') and x == y) for x, y in zip(a, b))
    return bool(np.all(np.asarray(a, dtype=float) == np.asarray(b, dtype=float)))


@contract('C15', 'labellers_only_reindex', configs=_lab_cfgs, functions=[
    'menpo.landmark.labels.base:labeller_func', 'menpo.landmark.labels.base:validate_input',
    'menpo.landmark.labels.base:pcloud_and_lgroup_from_ranges', 'menpo.landmark.labels.base:connectivity_from_array',
    'menpo.shape.labelled:LabelledPointUndirectedGraph.init_from_indices_mapping'])
def labellers_only_reindex(ctx, name, d, kind):
    """every predefined index-based labeller: output points are pairwise
    distinct input points, every output point is labelled, masks/edges are
    well-formed, the labeller commutes with any row-wise transform, rejects
    wrong sizes and leaves its input untouched."""
    import menpo.landmark as L
    from menpo.landmark.exceptions import LabellingError
    from vp.sreal import ENG
    T, S = B.menpo_mods()
    f = getattr(L, name)
    n = [k for nm, _, k in labellers() if nm == name][0]
    X = ctx.reals('x', (n, d))
    if kind == 'ndarray':
        x = np.array(X, dtype=object if ctx.sym else float, copy=True)
        if ctx.sym:
            from vp.proxy import sa
            x = sa(x)
    elif kind == 'PointCloud':
        x = S.PointCloud(X)
    else:
        import scipy.sparse as sp
        x = S.LabelledPointUndirectedGraph.init_with_all_label(np.array(X, copy=True), sp.csr_matrix((n, n), dtype=int))
    snap = state_of(x) if kind != 'ndarray' else np.array(x, dtype=object, copy=True)
    n_dec = len(ENG.decisions) if ctx.sym else 0
    out = f(x)
    if ctx.sym:
        ctx.check_true('value-independent(no-branch-on-coordinates)', len(ENG.decisions) == n_dec)
    P = np.asarray(out.points)
    used = []
    ok = True
    for i in range(P.shape[0]):
        js = [j for j in range(n) if _same_row(ctx, P[i], X[j])]
        if not js:
            ok = False
            break
        used.append(js[0])
    ctx.check_true('output-points-are-input-points', ok)
    ctx.check_true('output-points-pairwise-distinct-input-points', ok and len(set(used)) == len(used))
    is_mesh = type(out).__name__ == 'TriMesh'
    if is_mesh:
        # the *_trimesh labellers attach a triangulation instead of labels
        tl = np.asarray(out.trilist)
        ctx.check_true('trilist-well-formed', tl.ndim == 2 and tl.shape[1] == 3 and tl.min() >= 0 and tl.max() < out.n_points)
        masks, A = [], None
    else:
        masks = list(out._labels_to_masks.values())
        ctx.check_true('every-output-point-labelled', bool(np.all(np.sum(masks, axis=0) > 0)))
        ctx.check_true('masks-well-formed', all(m.dtype == bool and m.shape == (out.n_points,) for m in masks))
        A = out.adjacency_matrix
        ctx.check_true('edges-well-formed', A.shape == (out.n_points, out.n_points) and (abs(A - A.T)).nnz == 0)
        ctx.check_true('is-labelled-graph', type(out).__name__ == 'LabelledPointUndirectedGraph')
    if kind == 'ndarray':
        ctx.check_eq('input-untouched', x, snap)
    else:
        compare_states(ctx, 'input-untouched', state_of(x), snap)
    # commutes with any row-wise map
    F = ctx.opaque('F', d, d)
    if ctx.sym:
        fx = F(np.asarray(X))
        out2 = f(S.PointCloud(fx))
        ctx.check_eq('commutes-with-row-wise-map', out2.points, F(P))
        if is_mesh:
            ctx.check_true('commutes/same-trilist', np.array_equal(out2.trilist, out.trilist))
        else:
            ctx.check_true('commutes/same-labels', list(out2._labels_to_masks) == list(out._labels_to_masks) and
                           all(np.array_equal(a, b) for a, b in zip(out2._labels_to_masks.values(), masks)) and (out2.adjacency_matrix != A).nnz == 0)
    # wrong sizes are rejected
    for wn in sorted({0, 1, n - 1, n + 1, n + 3, max(0, n - 3)} - {n}):
        bad = S.PointCloud(np.zeros((wn, d)))
        ctx.check_true('wrong-size-%d-rejected' % wn, ctx.raises(LabellingError, f, bad))


def _covers(n_points, n_labels):
    """all overlapping label masks that cover all points"""
    masks = [m for m in itertools.product([0, 1], repeat=n_points) if any(m)]
    for combo in itertools.combinations(masks, n_labels):
        if all(any(m[i] for m in combo) for i in range(n_points)):
            yield combo


def _sel_cfgs(tier):
    out = []
    npts = 3
    for nl in (1, 2, 3):
        covers = list(_covers(npts, nl))
        step = 1 if tier != 'quick' else max(1, len(covers) // 8)
        for ci in range(0, len(covers), step):
            for edges in ('none', 'chain', 'triangle'):
                out.append(dict(n_points=npts, cover=[list(m) for m in covers[ci]], edges=edges))
    out.append(dict(n_points=4, cover=[[1, 1, 0, 0], [0, 1, 1, 0], [0, 0, 1, 1]], edges='chain'))
    return out


@contract('C15', 'label_selection', configs=_sel_cfgs, functions=[
    'menpo.shape.labelled:LabelledPointUndirectedGraph.with_labels', 'menpo.shape.labelled:LabelledPointUndirectedGraph.without_labels',
    'menpo.shape.labelled:LabelledPointUndirectedGraph.get_label', 'menpo.shape.labelled:LabelledPointUndirectedGraph.add_label',
    'menpo.shape.labelled:LabelledPointUndirectedGraph.remove_label', 'menpo.shape.labelled:LabelledPointUndirectedGraph._new_group_with_only_labels',
    'menpo.shape.labelled:LabelledPointUndirectedGraph._verify_all_labels_masked', 'menpo.shape.labelled:LabelledPointUndirectedGraph.__init__'])
def label_selection(ctx, n_points, cover, edges):
    """coordinates symbolic; label covers, edge sets and label subsets enumerated."""
    T, S = B.menpo_mods()
    # deliberately not in alphabetical order, and with names that contain one another
    names = ['eyebrow', 'eye', 'brow', 'w'][:len(cover)]
    masks = OrderedDict((nm, np.array(m, dtype=bool)) for nm, m in zip(names, cover))
    E = {'none': np.zeros((0, 2), dtype=int), 'chain': np.array([[i, i + 1] for i in range(n_points - 1)]),
         'triangle': np.array([[0, 1], [1, 2], [0, 2]])}[edges]
    pts = ctx.reals('p', (n_points, 2))
    g0 = S.PointUndirectedGraph.init_from_edges(pts, E)
    lg = S.LabelledPointUndirectedGraph(pts, g0.adjacency_matrix, masks)
    before = state_of(lg)
    adj = g0.adjacency_matrix.toarray() != 0

    def expect(sel_names):
        keep = np.zeros(n_points, dtype=bool)
        for nm in sel_names:
            keep |= masks[nm]
        idx = np.nonzero(keep)[0]
        sub_adj = adj[np.ix_(idx, idx)]
        return keep, idx, sub_adj

    def check_group(tag, got, sel_names):
        keep, idx, sub_adj = expect(sel_names)
        ctx.check_true(tag + '/labels-in-original-order', got.labels == list(sel_names), '%s vs %s' % (got.labels, list(sel_names)))
        ctx.check_eq(tag + '/exactly-the-points-under-the-labels', got.points, np.asarray(pts)[idx])
        independent(ctx, tag + '/result-shares-no-mutable-storage-with-the-receiver', got, lg)
        ctx.check_true(tag + '/induced-edges', np.array_equal(got.adjacency_matrix.toarray() != 0, sub_adj))
        for nm in sel_names:
            if nm in got._labels_to_masks:
                ctx.check_true(tag + '/mask-restricted[%s]' % nm, np.array_equal(got._labels_to_masks[nm], masks[nm][keep]))
        ctx.check_true(tag + '/every-point-labelled', bool(np.all(np.sum(list(got._labels_to_masks.values()), axis=0) > 0)))

    for r in range(1, len(names) + 1):
        for sub in itertools.combinations(names, r):                 # subsets in the original order
            check_group('with_labels%s' % list(sub), lg.with_labels(list(sub)), sub)
            rest = [nm for nm in names if nm not in sub]
            if rest:
                check_group('without_labels%s' % list(sub), lg.without_labels(list(sub)), rest)
            else:
                ctx.check_true('without-all-labels-refused', ctx.raises(Exception, lg.without_labels, list(sub)))
            if len(sub) == 1:
                # a single label may be given as a plain string
                check_group('with_labels(%r)' % sub[0], lg.with_labels(sub[0]), sub)
                if rest:
                    check_group('without_labels(%r)' % sub[0], lg.without_labels(sub[0]), rest)
    # requests listed in another order than the group's own: whatever order the
    # result reports its labels in, every label still selects exactly its own points
    for perm in itertools.permutations(names):
        if list(perm) == names or len(perm) < 2:
            continue
        for r in range(2, len(perm) + 1):
            req = list(perm[:r])
            if req == [nm for nm in names if nm in req]:
                continue
            got = lg.with_labels(req)
            keep, idx, sub_adj = expect(req)
            tag = 'with_labels%s(permuted)' % req
            ctx.check_true(tag + '/same-label-set', sorted(got.labels) == sorted(req), str(got.labels))
            ctx.check_eq(tag + '/exactly-the-points-under-the-labels', got.points, np.asarray(pts)[idx])
            for nm in req:
                ctx.check_true(tag + '/label[%s]-selects-its-own-points' % nm,
                               nm in got._labels_to_masks and np.array_equal(got._labels_to_masks[nm], masks[nm][keep]))
                ctx.check_eq(tag + '/get_label[%s]' % nm, got.get_label(nm).points, np.asarray(pts)[np.nonzero(masks[nm])[0]])
    for nm in names:
        keep, idx, sub_adj = expect([nm])
        one = lg.get_label(nm)
        ctx.check_eq('get_label[%s]/points' % nm, one.points, np.asarray(pts)[idx])
        ctx.check_true('get_label[%s]/edges' % nm, np.array_equal(one.adjacency_matrix.toarray() != 0, sub_adj))
        # removing a label: allowed iff every point stays labelled
        others = [masks[o] for o in names if o != nm]
        still = bool(others) and bool(np.all(np.sum(others, axis=0) > 0))
        if still:
            rm = lg.remove_label(nm)
            ctx.check_true('remove_label[%s]/labels-in-original-order' % nm, rm.labels == [o for o in names if o != nm])
            ctx.check_eq('remove_label[%s]/points-kept' % nm, rm.points, pts)
            ctx.check_true('remove_label[%s]/every-point-labelled' % nm, bool(np.all(np.sum(list(rm._labels_to_masks.values()), axis=0) > 0)))
        else:
            ctx.check_true('remove_label[%s]/refused(would-unlabel-a-point)' % nm, ctx.raises(ValueError, lg.remove_label, nm))
    added = lg.add_label('new', [0, n_points - 1])
    ctx.check_true('add_label/appended-last', added.labels == names + ['new'])
    ctx.check_true('add_label/mask', np.array_equal(added._labels_to_masks['new'], np.array([i in (0, n_points - 1) for i in range(n_points)])))
    ctx.check_eq('add_label/points-kept', added.points, pts)
    ctx.check_true('unknown-label-refused', ctx.raises((ValueError, KeyError), lg.with_labels, ['no-such-label']))
    ctx.check_true('constructor-refuses-unlabelled-point', n_points < 2 or ctx.raises(ValueError, S.LabelledPointUndirectedGraph, pts, g0.adjacency_matrix,
                   OrderedDict([('only', np.array([True] + [False] * (n_points - 1)))])))
    compare_states(ctx, 'receiver-unchanged', state_of(lg), before)


HASH_SCRIPT = r'''
import sys, warnings; warnings.filterwarnings('ignore')
import numpy as np
from collections import OrderedDict
from menpo.shape import LabelledPointUndirectedGraph, PointUndirectedGraph
names = ['zeta','alpha','mid','beta','omega','kappa']
n = 6
masks = OrderedDict((nm, np.array([(i + k) % 3 != 0 for i in range(n)])) for k, nm in enumerate(names))
pts = np.arange(2.0 * n).reshape(n, 2)
g = PointUndirectedGraph.init_from_edges(pts, np.array([[i, i + 1] for i in range(n - 1)]))
lg = LabelledPointUndirectedGraph(pts, g.adjacency_matrix, masks)
out = []
for drop in (['alpha'], ['zeta', 'beta'], ['mid']):
    out.append(lg.without_labels(drop).labels)
    out.append(lg.with_labels([x for x in names if x not in drop]).labels)
print(repr(out))
'''


@contract('C15', 'hash_seed_independence', level='bounded', native_samples=1, configs=[{}],
          functions=['menpo.shape.labelled:LabelledPointUndirectedGraph.without_labels'])
def hash_seed_independence(ctx):
    """bounded stand-in for 'all process hash seeds': the same selection
    program is run in fresh interpreters under 6 different PYTHONHASHSEED
    values; the label order must be the original order in every one."""
    import os
    want = None
    for seed in ('0', '1', '2', '3', '17', '12345'):
        env = dict(os.environ, PYTHONHASHSEED=seed, PYTHONPATH=os.environ.get('VERIF_REPO', '/repo'))
        r = subprocess.run([sys.executable, '-c', HASH_SCRIPT], env=env, capture_output=True, text=True, timeout=120)
        got = r.stdout.strip().splitlines()[-1] if r.stdout.strip() else r.stderr[-300:]
        names = ['zeta', 'alpha', 'mid', 'beta', 'omega', 'kappa']
        exp = []
        for drop in (['alpha'], ['zeta', 'beta'], ['mid']):
            keep = [x for x in names if x not in drop]
            exp += [keep, keep]
        ctx.check_true('seed-%s/original-order' % seed, got == repr(exp), got[:200])
