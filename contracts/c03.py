"""C03 — composition law, closure, class honesty, operands intact."""
import numpy as np

from vp.registry import contract
from . import builders as B

TRUSTED = []
ASSUMPTIONS = [
    'G0: a class invariant preserved by every compose call carries the statement to all finite sequences of calls (induction, paper argument)',
    'alignment operands are generated as (generic member of the base class, generic source, generic target): a superset of the reachable alignment states',
]

FUNCS = [
    'menpo.transform.base.composable:ComposableTransform.compose_before',
    'menpo.transform.base.composable:ComposableTransform.compose_after',
    'menpo.transform.base.composable:ComposableTransform.compose_before_inplace',
    'menpo.transform.base.composable:ComposableTransform.compose_after_inplace',
    'menpo.transform.homogeneous.base:Homogeneous._compose_before',
    'menpo.transform.homogeneous.base:Homogeneous._compose_after',
    'menpo.transform.homogeneous.base:Homogeneous._compose_before_inplace',
    'menpo.transform.homogeneous.base:Homogeneous._compose_after_inplace',
    'menpo.transform.homogeneous.base:Homogeneous._apply',
    'menpo.transform.homogeneous.affine:Affine._apply',
    'menpo.transform.homogeneous.base:HomogFamilyAlignment.copy',
]


def _pairs(tier):
    out = []
    for d in (2, 3):
        for a in B.HOMOG_ALL:
            for b in B.HOMOG_ALL:
                for side in ('before', 'after'):
                    out.append(dict(A=a, B=b, d=d, side=side))
    return out


def _apply_pts(t, x):
    return t.apply(x)


def check_honest(ctx, prefix, obj, d):
    T, S = B.menpo_mods()
    H = obj.h_matrix
    for nm, kind, payload in B.honest_clauses(ctx, type(obj).__name__, H, d):
        ctx.check_eq('%s/honest:%s' % (prefix, nm), payload[0], payload[1])


@contract('C03', 'homog_compose', configs=_pairs, functions=FUNCS)
def homog_compose(ctx, A, B_=None, d=2, side='before', **kw):
    """non-in-place composition inside the homogeneous family: law, closure,
    class honesty, invertibility, operands untouched and not aliased."""
    T, S = B.menpo_mods()
    Bn = kw.get('B', B_)
    a, ia = B.build_any(ctx, A, d, 'a')
    b, ib = B.build_any(ctx, Bn, d, 'b')
    x = ctx.reals('x', (2, d))
    ha, hb = a.h_matrix.copy(), b.h_matrix.copy()
    ida, idb = a.h_matrix, b.h_matrix
    src_a = getattr(a, '_source', None)
    tgt_a = getattr(a, '_target', None)
    if side == 'before':
        c = a.compose_before(b)
        inner, outer = a, b
    else:
        c = a.compose_after(b)
        inner, outer = b, a
    # closure
    ctx.check_true('closure/is-homogeneous', isinstance(c, T.Homogeneous))
    ctx.check_true('closure/not-chain', not isinstance(c, T.TransformChain))
    ctx.check_true('closure/not-alignment', not isinstance(c, T.base.Alignment))
    # law
    if A == 'Homogeneous' or Bn == 'Homogeneous':
        # projective maps: the law is stated where all homogeneous
        # coordinates are non-zero
        pass
    if A == 'Homogeneous' or Bn == 'Homogeneous':
        ix = B.assume_in_domain(ctx, inner, x)
        B.assume_in_domain(ctx, outer, ix)
    y = outer.apply(inner.apply(x))
    if A == 'Homogeneous' or Bn == 'Homogeneous':
        B.assume_in_domain(ctx, c, x)
    ctx.check_eq('law', c.apply(x), y)
    # honesty of the reported class
    check_honest(ctx, 'result', c, d)
    # invertible: det multiplicative (polynomial identity) and both factors non-zero
    dc = B.det(c.h_matrix)
    ctx.check_eq('invertible/det=detA*detB', dc, B.det(ha) * B.det(hb))
    ctx.check('invertible/detA*detB!=0', (B.det(ha) != 0) & (B.det(hb) != 0) if ctx.sym else (B.det(ha) != 0 and B.det(hb) != 0))
    # frame
    ctx.check_true('frame/a-matrix-object-kept', a.h_matrix is ida)
    ctx.check_true('frame/b-matrix-object-kept', b.h_matrix is idb)
    ctx.check_eq('frame/a-unchanged', a.h_matrix, ha)
    ctx.check_eq('frame/b-unchanged', b.h_matrix, hb)
    ctx.check_true('frame/result-not-aliasing-a', not np.shares_memory(c.h_matrix, a.h_matrix))
    ctx.check_true('frame/result-not-aliasing-b', not np.shares_memory(c.h_matrix, b.h_matrix))
    if src_a is not None:
        ctx.check_true('frame/source-target-kept', a._source is src_a and a._target is tgt_a)


# ------------------------------------------------------------------ in-place
def _inplace_cfgs(tier):
    out = []
    for d in (2, 3):
        for a in B.HOMOG_ALL:
            for b in B.HOMOG_ALL:
                for side in ('before', 'after'):
                    out.append(dict(A=a, B=b, d=d, side=side))
    return out


@contract('C03', 'homog_compose_inplace', configs=_inplace_cfgs, functions=FUNCS)
def homog_compose_inplace(ctx, A, d, side, **kw):
    """in-place composition: either refused (ValueError, receiver untouched)
    or the receiver becomes the composed map *and still satisfies the class
    invariant of its own class* (the inductive invariant for sequences)."""
    T, S = B.menpo_mods()
    Bn = kw['B']
    a, ia = B.build_any(ctx, A, d, 'a')
    b, ib = B.build_any(ctx, Bn, d, 'b')
    a0 = a.copy()            # reference copy of the receiver (pre-state)
    x = ctx.reals('x', (2, d))
    ha, hb = a.h_matrix.copy(), b.h_matrix.copy()
    try:
        if side == 'before':
            a.compose_before_inplace(b)
        else:
            a.compose_after_inplace(b)
        accepted = True
    except ValueError:
        accepted = False
    ctx.check_eq('frame/b-unchanged', b.h_matrix, hb)
    if not accepted:
        ctx.check_eq('refused/receiver-unchanged', a.h_matrix, ha)
        ctx.check_true('refused/is-outside-declared-domain', not isinstance(b, a.composes_inplace_with))
        return
    inner, outer = (a0, b) if side == 'before' else (b, a0)
    ix = B.assume_in_domain(ctx, inner, x)
    B.assume_in_domain(ctx, outer, ix)
    B.assume_in_domain(ctx, a, x)
    y = outer.apply(inner.apply(x))
    ctx.check_eq('law', a.apply(x), y)
    check_honest(ctx, 'receiver', a, d)
    ctx.check_eq('invertible/det=detA*detB', B.det(a.h_matrix), B.det(ha) * B.det(hb))
    ctx.check_true('frame/receiver-not-aliasing-b', not np.shares_memory(a.h_matrix, b.h_matrix))


# -------------------------------------------------------------------- chains
def _opaque_transform(ctx, name, d):
    T, S = B.menpo_mods()
    F = ctx.opaque(name, d, d)

    class Opaque(T.Transform):
        """a pure row-wise transform that is not composable natively"""
        n_dims = d

        def _apply(self, x, **kwargs):
            return F(x)
    Opaque.__name__ = 'Opaque_' + name
    return Opaque()


def _chain_cfgs(tier):
    out = []
    kinds = ['Affine', 'Rotation', 'AlignmentSimilarity', 'Homogeneous', 'Opaque', 'Chain']
    for d in (2, 3):
        for a in kinds:
            for b in ['Opaque', 'Chain']:
                for side in ('before', 'after'):
                    out.append(dict(A=a, B=b, d=d, side=side))
        for a in ['Opaque', 'Chain']:
            for b in ['Affine', 'Translation', 'AlignmentRotation']:
                for side in ('before', 'after'):
                    out.append(dict(A=a, B=b, d=d, side=side))
    return out


def _mk(ctx, kind, d, tag):
    T, S = B.menpo_mods()
    if kind == 'Opaque':
        return _opaque_transform(ctx, tag + 'F', d)
    if kind == 'Chain':
        m1 = _opaque_transform(ctx, tag + 'G', d)
        m2, _ = B.build_any(ctx, 'Affine', d, tag + 'm')
        return T.TransformChain([m1, m2])
    return B.build_any(ctx, kind, d, tag)[0]


CHAIN_FUNCS = [
    'menpo.transform.base:Transform.compose_before',
    'menpo.transform.base:Transform.compose_after',
    'menpo.transform.base.composable:TransformChain._apply',
    'menpo.transform.base.composable:TransformChain._compose_before_inplace',
    'menpo.transform.base.composable:TransformChain._compose_after_inplace',
    'menpo.transform.base.composable:ComposableTransform._compose_before',
    'menpo.transform.base.composable:ComposableTransform._compose_after',
    'menpo.base:Copyable.copy',
]


@contract('C03', 'chain_compose', configs=_chain_cfgs, functions=CHAIN_FUNCS)
def chain_compose(ctx, A, d, side, **kw):
    """pairs involving a non-homogeneous operand (opaque pure row-wise map,
    standing for TPS / PWA / WithDims / RBF) or a chain: the result applies the
    fold in the right order; operands and their member lists are untouched and
    not aliased by the result."""
    T, S = B.menpo_mods()
    Bn = kw['B']
    a = _mk(ctx, A, d, 'a')
    b = _mk(ctx, Bn, d, 'b')
    x = ctx.reals('x', (2, d))
    la = list(a.transforms) if isinstance(a, T.TransformChain) else None
    lb = list(b.transforms) if isinstance(b, T.TransformChain) else None
    ida = a.transforms if la is not None else None
    idb = b.transforms if lb is not None else None
    ya, yb = a.apply(x), b.apply(x)
    if side == 'before':
        c = a.compose_before(b)
        y = b.apply(a.apply(x))
    else:
        c = a.compose_after(b)
        y = a.apply(b.apply(x))
    ctx.check_eq('law', c.apply(x), y)
    ctx.check_true('result-is-transform', isinstance(c, T.Transform))
    for nm, o, l0, id0 in (('a', a, la, ida), ('b', b, lb, idb)):
        if l0 is not None:
            ctx.check_true('frame/%s-list-object-kept' % nm, o.transforms is id0)
            ctx.check_true('frame/%s-members-unchanged' % nm, len(o.transforms) == len(l0) and all(p is q for p, q in zip(o.transforms, l0)))
            if isinstance(c, T.TransformChain):
                ctx.check_true('frame/result-list-not-aliasing-%s' % nm, c.transforms is not o.transforms)
    ctx.check_eq('frame/a-same-map', a.apply(x), ya)
    ctx.check_eq('frame/b-same-map', b.apply(x), yb)
    # in-place on a chain receiver
    if isinstance(a, T.TransformChain):
        a2 = a.copy()
        ctx.check_true('copy/list-not-aliased', a2.transforms is not a.transforms)
        if side == 'before':
            a2.compose_before_inplace(b)
        else:
            a2.compose_after_inplace(b)
        ctx.check_eq('inplace/law', a2.apply(x), y)
        ctx.check_true('inplace/original-untouched', len(a.transforms) == len(la))


# ------------------------------------------------------------------ decompose
@contract('C03', 'affine_decompose', configs=[dict(d=2), dict(d=3)],
          functions=['menpo.transform.homogeneous.affine:Affine.decompose', 'menpo.transform.homogeneous.scale:Scale',
                     'menpo.transform.homogeneous.scale:UniformScale.__init__',
                     'menpo.transform.homogeneous.scale:NonUniformScale.__init__',
                     'menpo.transform.homogeneous.rotation:Rotation.__init__',
                     'menpo.transform.homogeneous.translation:Translation.__init__'])
def affine_decompose(ctx, d):
    """the decomposition of an affine transform recomposes to it and every
    part is honest (svd dependency contract)."""
    T, S = B.menpo_mods()
    a, ia = B.build(ctx, 'Affine', d, 'a')
    x = ctx.reals('x', (2, d))
    h0 = a.h_matrix.copy()
    if ctx.sym:
        # singular values of an invertible matrix are positive (consequence of
        # det(L) = +-prod(s), stated as part of the svd dependency contract)
        from vp.sreal import ENG
        s = np.linalg.svd  # noqa
        from vp import stubs
        U, sv, Vt = stubs.svd(a.linear_component)
        for e in sv:
            ctx.assume(e > 0, 'svd: s>0 for invertible input')
    parts = a.decompose()
    ctx.check_true('four-parts', len(parts) == 4)
    y = x
    for p in parts:
        y = p.apply(y)
    ctx.check_eq('recompose/apply', y, a.apply(x))
    c = parts[0]
    for p in parts[1:]:
        c = c.compose_before(p)
    ctx.check_eq('recompose/matrix', c.h_matrix, h0)
    for k, p in enumerate(parts):
        check_honest(ctx, 'part%d' % k, p, d)
    ctx.check_true('classes', type(parts[0]) is T.Rotation and type(parts[2]) is T.Rotation and type(parts[3]) is T.Translation
                   and type(parts[1]) in (T.UniformScale, T.NonUniformScale))
    ctx.check_eq('frame/a-unchanged', a.h_matrix, h0)
