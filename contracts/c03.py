"""C03 — composition law, closure, class honesty, operands intact."""
import numpy as np

from vp.registry import contract
from . import builders as B

TRUSTED = []
ASSUMPTIONS = [
    'G0: a class invariant preserved by every compose call carries the statement to all finite sequences of calls (induction, paper argument)',
    'alignment operands are generated as (generic member of the base class, generic source, generic target): a superset of the reachable alignment states',
]

FUNCS = [
    'menpo.transform.base.composable:ComposableTransform.compose_before',
    'menpo.transform.base.composable:ComposableTransform.compose_after',
    'menpo.transform.base.composable:ComposableTransform.compose_before_inplace',
    'menpo.transform.base.composable:ComposableTransform.compose_after_inplace',
    'menpo.transform.homogeneous.base:Homogeneous._compose_before',
    'menpo.transform.homogeneous.base:Homogeneous._compose_after',
    'menpo.transform.homogeneous.base:Homogeneous._compose_before_inplace',
    'menpo.transform.homogeneous.base:Homogeneous._compose_after_inplace',
    'menpo.transform.homogeneous.base:Homogeneous._apply',
    'menpo.transform.homogeneous.affine:Affine._apply',
    'menpo.transform.homogeneous.base:HomogFamilyAlignment.copy',
]


def _pairs(tier):
    out = []
    for d in (2, 3):
        for a in B.HOMOG_ALL:
            for b in B.HOMOG_ALL:
                for side in ('before', 'after'):
                    out.append(dict(A=a, B=b, d=d, side=side))
    return out


def _apply_pts(t, x):
    return t.apply(x)


def check_honest(ctx, prefix, obj, d):
    T, S = B.menpo_mods()
    H = obj.h_matrix
    for nm, kind, payload in B.honest_clauses(ctx, type(obj).__name__, H, d):
        ctx.check_eq('%s/honest:%s' % (prefix, nm), payload[0], payload[1])


@contract('C03', 'homog_compose', configs=_pairs, functions=FUNCS)
def homog_compose(ctx, A, B_=None, d=2, side='before', **kw):
    """non-in-place composition inside the homogeneous family: law, closure,
    class honesty, invertibility, operands untouched and not aliased."""
    T, S = B.menpo_mods()
    Bn = kw.get('B', B_)
    a, ia = B.build_any(ctx, A, d, 'a')
    b, ib = B.build_any(ctx, Bn, d, 'b')
    x = ctx.reals('x', (2, d))
    ha, hb = a.h_matrix.copy(), b.h_matrix.copy()
    ida, idb = a.h_matrix, b.h_matrix
    src_a = getattr(a, '_source', None)
    tgt_a = getattr(a, '_target', None)
    if side == 'before':
        c = a.compose_before(b)
        inner, outer = a, b
    else:
        c = a.compose_after(b)
        inner, outer = b, a
    # closure
    ctx.check_true('closure/is-homogeneous', isinstance(c, T.Homogeneous))
    ctx.check_true('closure/not-chain', not isinstance(c, T.TransformChain))
    ctx.check_true('closure/not-alignment', not isinstance(c, T.base.Alignment))
    # law
    if A == 'Homogeneous' or Bn == 'Homogeneous':
        # projective maps: the law is stated where all homogeneous
        # coordinates are non-zero
        pass
    y = outer.apply(inner.apply(x))
    ctx.check_eq('law', c.apply(x), y)
    # honesty of the reported class
    check_honest(ctx, 'result', c, d)
    # invertible: det multiplicative (polynomial identity) and both factors non-zero
    dc = B.det(c.h_matrix)
    ctx.check_eq('invertible/det=detA*detB', dc, B.det(ha) * B.det(hb))
    ctx.check('invertible/detA*detB!=0', (B.det(ha) != 0) & (B.det(hb) != 0) if ctx.sym else (B.det(ha) != 0 and B.det(hb) != 0))
    # frame
    ctx.check_true('frame/a-matrix-object-kept', a.h_matrix is ida)
    ctx.check_true('frame/b-matrix-object-kept', b.h_matrix is idb)
    ctx.check_eq('frame/a-unchanged', a.h_matrix, ha)
    ctx.check_eq('frame/b-unchanged', b.h_matrix, hb)
    ctx.check_true('frame/result-not-aliasing-a', not np.shares_memory(c.h_matrix, a.h_matrix))
    ctx.check_true('frame/result-not-aliasing-b', not np.shares_memory(c.h_matrix, b.h_matrix))
    if src_a is not None:
        ctx.check_true('frame/source-target-kept', a._source is src_a and a._target is tgt_a)
