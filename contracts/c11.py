"""C11 — incremental model updates equal the batch model on the concatenated data."""
import itertools

import numpy as np

from vp.registry import contract
from . import builders as B

TRUSTED = []
ASSUMPTIONS = [
    'G0: the Gaussian state is a function of the sufficient statistics (n, sum x, sum x x^T); each increment re-establishes that relation for symbolic n, hence the final state depends only on the multiset of samples, not on the chunking (induction)',
    'incremental PCA (QR + SVD of data-dependent size) and the GMRF precision re-assembly are only covered by bounded contracts',
]


@contract('C11', 'gaussian_sufficient_statistics', configs=[dict(r=r, f=f, bias=b) for r in (1, 2, 3) for f in (1, 2) for b in (0, 1)],
          functions=['menpo.model.gmrf:_increment_multivariate_gaussian_mean', 'menpo.model.gmrf:_increment_multivariate_gaussian_cov'])
def gaussian_sufficient_statistics(ctx, r, f, bias):
    """symbolic old sample count n, symbolic statistics: one increment with r
    new rows maps (n, s/n, (Q - n m m^T)/(n-1+bias)) to the same expressions
    of (n+r, s+sum x, Q+sum x x^T)."""
    from menpo.model.gmrf import _increment_multivariate_gaussian_mean, _increment_multivariate_gaussian_cov
    n = ctx.real('n', lo=2.0, hi=1e6)
    s = ctx.reals('s', f)
    Qh = ctx.reals('Q', (f, f))
    Q = (np.asarray(Qh) + np.asarray(Qh).T) / 2
    X = ctx.reals('x', (r, f))
    m = np.asarray(s) / n
    k = n - 1 + bias
    S = (Q - n * np.outer(m, m)) / k
    new_m = _increment_multivariate_gaussian_mean(X, m, n)
    s2 = np.asarray(s) + np.sum(np.asarray(X), axis=0)
    ctx.check_eq('mean==(s+sum x)/(n+r)', new_m, s2 / (n + r))
    nm, new_S = _increment_multivariate_gaussian_cov(X, m, S, n, bias=bias)
    Q2 = Q + np.asarray(X).T.dot(np.asarray(X))
    want = (Q2 - (n + r) * np.outer(s2 / (n + r), s2 / (n + r))) / (n + r - 1 + bias)
    ctx.check_eq('cov==(Q+sum xx^T-(n+r) m m^T)/(n+r-1+bias)', new_S, want)
    ctx.check_eq('cov-call-returns-the-same-mean', nm, s2 / (n + r))


def _compositions(n, max_parts):
    for k in range(1, max_parts + 1):
        for cuts in itertools.combinations(range(1, n), k - 1):
            parts = [b - a for a, b in zip((0,) + cuts, cuts + (n,))]
            yield parts


@contract('C11', 'pca_increment_native', level='bounded', native_samples=2, tol=1e-6,
          configs=[dict(n=n, d=d, centre=c, backed=b, precentred=pc, lowered_active=la) for (n, d) in ((6, 3), (7, 10), (9, 4)) for c in (True, False)
                   for b in ('vector', 'pointcloud') for pc in (False, True) for la in (False, True) if not (pc and not c) and not (la and pc)],
          functions=['menpo.math.decomposition:ipca', 'menpo.model.pca:PCAVectorModel.increment'])
def pca_increment_native(ctx, n, d, centre, backed, precentred, lowered_active=False):
    """bounded stand-in: every composition of n samples into an initial batch
    (>= 2 samples) plus increments gives the batch model: sample count, mean,
    eigenvalues, principal subspace."""
    from menpo.model import PCAVectorModel, PCAModel
    T, S = B.menpo_mods()
    rs = ctx.nprng
    X = rs.randn(n, d) * np.linspace(3, 0.7, d) + rs.randn(d) * 2
    if backed == 'pointcloud' and d % 2:
        X = np.hstack([X, rs.randn(n, 1)])
    dd = X.shape[1]
    wrap = (lambda rows: [S.PointCloud(x.reshape(-1, 2)) for x in rows]) if backed == 'pointcloud' else (lambda rows: rows.copy())
    cls = PCAModel if backed == 'pointcloud' else PCAVectorModel
    batch = cls(wrap(X), centre=centre)
    count = 0
    for parts in _compositions(n, 4):
        if parts[0] < 2 or len(parts) < 2:
            continue
        count += 1
        if count > 12:
            break
        if precentred:
            # the caller mean-normalised the first batch: its mean is rounding noise, not exactly zero
            X = X.copy()
            X[:parts[0]] -= X[:parts[0]].mean(0)
            batch = cls(wrap(X), centre=centre)
        m = cls(wrap(X[:parts[0]]), centre=centre)
        if lowered_active and m.n_components > 1:
            # fewer components active than stored (nothing trimmed): increments must still update the whole stored model
            m.n_active_components = 1
        pos = parts[0]
        tag = 'split%s' % parts
        for p in parts[1:]:
            if centre and not np.any(np.asarray(m._mean)):
                # signature of the recorded known finding: a CENTRED model whose mean is exactly 0.0 before an increment
                ctx.drawn['centred_model_mean_exactly_zero_before_increment/' + tag] = 1.0
            m.increment(wrap(X[pos:pos + p]))
            pos += p
        ctx.check_true(tag + '/n_samples', m.n_samples == n)
        ctx.check_eq(tag + '/mean', m._mean, batch._mean)
        k = min(len(m._eigenvalues), len(batch._eigenvalues))
        ctx.check_true(tag + '/same-number-of-components', len(m._eigenvalues) == len(batch._eigenvalues), '%d vs %d' % (len(m._eigenvalues), len(batch._eigenvalues)))
        ctx.check_eq(tag + '/eigenvalues', m._eigenvalues[:k], batch._eigenvalues[:k])
        Pm = m._components[:k].T.dot(m._components[:k])
        Pb = batch._components[:k].T.dot(batch._components[:k])
        ctx.check_eq(tag + '/principal-subspace(projector)', Pm, Pb, tol=1e-5)


def _graphs():
    from menpo.shape import UndirectedGraph, DirectedGraph, Tree
    g = {}
    g['edgeless4'] = UndirectedGraph.init_from_edges(np.zeros((0, 2), dtype=int), 4)
    g['chain4'] = UndirectedGraph.init_from_edges(np.array([[0, 1], [1, 2], [2, 3]]), 4)
    g['cycle4'] = UndirectedGraph.init_from_edges(np.array([[0, 1], [1, 2], [2, 3], [3, 0]]), 4)
    g['tree5'] = Tree.init_from_edges(np.array([[0, 1], [0, 2], [2, 3], [2, 4]]), 5, root_vertex=0)
    g['isolated6'] = UndirectedGraph.init_from_edges(np.array([[0, 1], [1, 2], [2, 5]]), 6)
    g['directed4'] = DirectedGraph.init_from_edges(np.array([[0, 1], [2, 1], [2, 3]]), 4)
    return g


@contract('C11', 'gmrf_increment_native', level='bounded', native_samples=1, tol=1e-6,
          configs=[dict(graph=g, mode=m, sparse=s, bias=b, fpv=fpv, backed=bk) for g in ('edgeless4', 'chain4', 'cycle4', 'tree5', 'isolated6', 'directed4')
                   for m in ('concatenation', 'subtraction') for s in (False, True) for b in (0, 1) for fpv in (1, 2) for bk in ('vector', 'pointcloud')
                   if not (bk == 'pointcloud' and (fpv != 2 or b == 1))],
          functions=['menpo.model.gmrf:GMRFVectorModel.increment', 'menpo.model.gmrf:GMRFVectorModel.__init__'])
def gmrf_increment_native(ctx, graph, mode, sparse, bias, fpv=2, backed='vector'):
    """bounded stand-in: feeding the data in several chunkings gives the mean
    and precision of the batch model - for the vector model and for the
    object-backed GMRFModel (whose increment goes through its own method)."""
    from menpo.model import GMRFVectorModel, GMRFModel
    from menpo.shape import PointCloud
    rs = ctx.nprng
    G = _graphs()[graph]
    n = 14
    X = rs.randn(n, G.n_vertices * fpv) + rs.randn(G.n_vertices * fpv)
    X = X + 0.5 * np.roll(X, 1, axis=1)
    if backed == 'vector':
        wrap = lambda rows: rows.copy()
        build = lambda rows: GMRFVectorModel(wrap(rows), G, mode=mode, sparse=sparse, dtype=np.float64, bias=bias, incremental=True)
        mean_of = lambda m: m.mean()
    else:
        wrap = lambda rows: [PointCloud(r.reshape(G.n_vertices, fpv).copy()) for r in rows]
        build = lambda rows: GMRFModel(wrap(rows), G, mode=mode, sparse=sparse, dtype=np.float64, bias=bias, incremental=True)
        mean_of = lambda m: m.mean().as_vector()
    batch = build(X)
    Pb = batch.precision.toarray() if sparse else batch.precision
    for parts in ([7, 7], [5, 4, 5], [8, 1, 1, 4], [6, 8]):
        m = build(X[:parts[0]])
        pos = parts[0]
        for p in parts[1:]:
            m.increment(wrap(X[pos:pos + p]))
            pos += p
        P = m.precision.toarray() if sparse else m.precision
        tag = 'split%s' % parts
        ctx.check_true(tag + '/n_samples', m.n_samples == n)
        ctx.check_eq(tag + '/mean', mean_of(m), mean_of(batch))
        ctx.check_eq(tag + '/precision', P, Pb, tol=1e-5)
