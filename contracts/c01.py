"""C01 — image geometry ops keep landmarks and mask registered to pixel content."""
import numpy as np

from vp.registry import contract
from . import builders as B
from .state import state_of, compare_states, independent
from .c03 import _opaque_transform

TRUSTED = [
    'callee contract BooleanImage.warp_to_shape(shape, T, mode, cval) = "mask sampled (order 0) at T(q)": proved for grid-point transforms (C01/boolean ops, C13/crop), natively checked otherwise; MaskedImage ops are proved to call it with the same shape/transform/mode as the pixel warp',
]
ASSUMPTIONS = [
    '"gives the value the original image had" is read as equality of the sampled image functions under the same interpolator: out[q] = Sample(src, T(q)); the numerical interpolation error of order-1/3 splines is not part of the claim',
    'result image sides are concretised per path (bounded by the parameter ranges given in each contract)',
]


def grid(shape, ctx):
    idx = np.array(list(np.ndindex(*shape)), dtype=float)
    return B_objarr(idx) if ctx.sym else idx


def B_objarr(a):
    from vp.proxy import objarr
    return objarr(a)


class mask_spy(object):
    """sym mode: BooleanImage.warp_to_shape is replaced by its contract stub
    (records the call, returns an all-true mask of the template shape)."""

    def __init__(self, ctx, active=True):
        self.ctx, self.calls, self.active = ctx, [], active

    def __enter__(self):
        from menpo.image import BooleanImage
        self.cls = BooleanImage
        self.orig = BooleanImage.warp_to_shape
        if self.ctx.sym and self.active:
            spy = self

            def stub(mask_self, template_shape, transform, warp_landmarks=True, mode='constant', cval=False, order=None,
                     batch_size=None, return_transform=False):
                spy.calls.append(dict(mask=mask_self, shape=tuple(int(x) for x in template_shape), transform=transform, mode=mode, cval=cval))
                r = BooleanImage.init_blank(tuple(int(x) for x in template_shape), fill=True)
                return (r, transform) if return_transform else r
            BooleanImage.warp_to_shape = stub
        return self

    def __exit__(self, *a):
        self.cls.warp_to_shape = self.orig


def registration(ctx, name, src, res, T, order, mode, cval, spy=None, mask_mode=None):
    """the three registration clauses for one op result"""
    from vp import imagestub
    C = src.n_channels
    shape = tuple(res.shape)
    idx = grid(shape, ctx)
    pts = T.apply(idx)
    if ctx.sym:
        exp = imagestub.sample_stub(np.asarray(src.pixels) if src.pixels.dtype != bool else src.pixels, pts, mode=mode, order=order, cval=cval)
    else:
        exp = src.sample(pts, order=order, mode=mode, cval=cval)
    ctx.check_true(name + '/class-kept', type(res) is type(src))
    independent(ctx, name + '/result-shares-no-mutable-storage-with-the-source-image', res, src)
    ctx.check_eq(name + '/pixels[q]==Sample(src, T(q))', np.asarray(res.pixels).reshape(C, -1), np.asarray(exp))
    ctx.check_true(name + '/landmark-groups-kept', list(res.landmarks) == list(src.landmarks))
    for g in src.landmarks:
        ctx.check_eq(name + '/T(result landmarks)==source landmarks[%s]' % g, T.apply(np.asarray(res.landmarks[g].points)),
                     np.asarray(src.landmarks[g].points), tol=1e-6)
    if type(src).__name__ == 'MaskedImage' and spy is not None:
        mm = mask_mode or mode
        if ctx.sym and len(spy.calls) == 0 and src.mask.all_true():
            # the mask warp may be skipped for a full mask only if the result is
            # still the sampled mask: all-true where T(q) falls inside the source
            rm = np.asarray(res.mask.pixels).reshape(-1)
            if mm == 'constant':
                for k in range(len(rm)):
                    if rm[k]:
                        for a in range(len(shape)):
                            ctx.check(name + '/mask/true-only-where-T(q)-inside-source[%d]' % k,
                                      (pts[k, a] >= -0.5) & (pts[k, a] <= src.shape[a] - 0.5))
            else:
                ctx.check_true(name + '/mask/full-mask-stays-full(nearest)', bool(rm.all()))
        elif ctx.sym:
            ctx.check_true(name + '/mask-warped-exactly-once', len(spy.calls) == 1, '%d calls' % len(spy.calls))
            if len(spy.calls) == 1:
                c = spy.calls[0]
                q = ctx.reals('mq', (2, len(shape)))
                ctx.check_true(name + '/mask/same-template-shape', c['shape'] == shape)
                ctx.check_true(name + '/mask/is-the-source-mask', c['mask'] is src.mask)
                ctx.check_eq(name + '/mask/same-mapping', c['transform'].apply(q), T.apply(q))
                ctx.check_true(name + '/mask/same-boundary-mode', c['mode'] == mm, '%s vs %s' % (c['mode'], mm))
        else:
            expm = src.mask.sample(pts, mode=mm, cval=False)
            ctx.check_true(name + '/mask[q]==Sample0(src.mask, T(q))', np.array_equal(np.asarray(res.mask.pixels).reshape(-1), np.asarray(expm).reshape(-1)))


def make_image(ctx, cls, shape, ch=1, lms=1):
    m = None
    if cls == 'MaskedImageAllTrue':
        return B.image(ctx, 'MaskedImage', shape, ch, mask=None, landmarks=lms)
    if cls == 'MaskedImage':
        m = (np.arange(int(np.prod(shape))).reshape(shape) % 4 != 1)
    if cls == 'BooleanImage':
        m = (np.arange(int(np.prod(shape))).reshape(shape) % 3 != 1)
    return B.image(ctx, cls, shape, ch, mask=m, landmarks=lms)


IMG_FUNCS = ['menpo.image.base:Image.warp_to_shape', 'menpo.image.base:Image._build_warp_to_shape', 'menpo.image.base:Image.sample',
             'menpo.image.masked:MaskedImage.warp_to_shape', 'menpo.image.boolean:BooleanImage.warp_to_shape']


@contract('C01', 'warp_to_shape', configs=[dict(cls=c, tr=t, d=d) for c in ('Image', 'MaskedImage') for t in ('Affine', 'Opaque', 'Homogeneous')
                                           for d in (2, 3) if not (t == 'Homogeneous' and d == 3)] + [dict(cls='MaskedImageAllTrue', tr='Affine', d=2)] +
          [dict(cls='BooleanImage', tr='IntTranslation', d=2)], functions=IMG_FUNCS)
def warp_to_shape(ctx, cls, tr, d):
    """the single funnel: any (well-conditioned affine / projective / opaque
    row-wise) template->source transform."""
    T, S = B.menpo_mods()
    shape = (3, 4) if d == 2 else (2, 2, 2)
    src = make_image(ctx, cls, shape, 2 if cls == 'Image' else 1, lms=2)
    cls = 'MaskedImage' if cls.startswith('MaskedImage') else cls
    before = state_of(src)
    if tr == 'Opaque':
        t = _opaque_transform(ctx, 'W', d)
        G = ctx.opaque('Winv', d, d)

        class Inv(type(t)):
            def _apply(self, x, **k):
                return G(x)
        inv = Inv()
        t.pseudoinverse = lambda: inv
        # callee contract of the transform: pseudoinverse inverts on the landmark points
        for g in src.landmarks:
            F = ctx.opaque('W', d, d)
            ctx.assume_eq(F(G(np.asarray(src.landmarks[g].points))), np.asarray(src.landmarks[g].points), 'T(T^-1(l)) = l (C04 contract of the transform)') if ctx.sym else None
        if not ctx.sym:
            return      # the generic native opaque map has no inverse; the sym run covers this configuration
    elif tr == 'IntTranslation':
        t = T.Translation(np.array([1.0, -1.0]))
    else:
        t, _ = B.build(ctx, tr, d, 't')
    tshape = (2, 3) if d == 2 else (2, 1, 2)
    if tr == 'Homogeneous':
        B.assume_in_domain(ctx, t, grid(tshape, ctx))
    for order, mode, cval in ((1, 'constant', 0.0), (0, 'nearest', 0.0)) if cls != 'BooleanImage' else ((0, 'constant', False),):
        if tr == 'Homogeneous':
            pinv = t.pseudoinverse()
            for g in src.landmarks:
                B.assume_in_domain(ctx, pinv, np.asarray(src.landmarks[g].points))
        with mask_spy(ctx, cls.startswith('MaskedImage')) as spy:
            kw = dict(order=order) if cls != 'BooleanImage' else {}
            res, rt = src.warp_to_shape(tshape, t, warp_landmarks=True, mode=mode, cval=cval, return_transform=True, **kw)
            ctx.check_true('o%d/returned-transform-is-the-applied-one' % order, rt is t)
            ctx.check_true('o%d/shape' % order, tuple(res.shape) == tshape)
            if tr == 'Homogeneous':
                for g in src.landmarks:
                    B.assume_in_domain(ctx, t, np.asarray(res.landmarks[g].points))
            registration(ctx, 'o%d' % order, src, res, rt, order, mode, cval, spy)
            res2 = src.warp_to_shape(tshape, t, warp_landmarks=True, mode=mode, cval=cval, **kw)
            compare_states(ctx, 'o%d/return_transform-flag-irrelevant' % order, state_of(res2), state_of(res))
    compare_states(ctx, 'source-unchanged', state_of(src), before)


def _op_cfgs(tier):
    out = []
    for cls in ('Image', 'MaskedImage'):
        for op in ('rescale:ceil', 'rescale:floor', 'rescale:round', 'resize', 'zoom', 'mirror0', 'mirror1', 'rotate:retain',
                   'about_centre:affine', 'rescale_to_diagonal', 'warp_to_mask'):
            out.append(dict(cls=cls, op=op))
    out += [dict(cls='BooleanImage', op='mirror0'), dict(cls='BooleanImage', op='mirror1')]
    out += [dict(cls='MaskedImageAllTrue', op=o) for o in ('rotate:retain', 'about_centre:affine', 'zoom', 'rescale:round')]
    out += [dict(cls='Image', op='mirror3d'), dict(cls='Image', op='rescale3d')]
    return out


@contract('C01', 'ops', configs=_op_cfgs, max_paths=400, budget_s=900, functions=IMG_FUNCS + [
    'menpo.image.base:Image.rescale', 'menpo.image.base:Image.resize', 'menpo.image.base:Image.zoom', 'menpo.image.base:Image.mirror',
    'menpo.image.base:Image.rotate_ccw_about_centre', 'menpo.image.base:Image.transform_about_centre', 'menpo.image.base:Image.rescale_to_diagonal',
    'menpo.image.base:Image.rescale_to_pointcloud', 'menpo.image.base:Image.warp_to_mask', 'menpo.image.base:Image._build_warp_to_mask',
    'menpo.image.masked:MaskedImage.warp_to_mask', 'menpo.image.base:round_image_shape'])
def ops(ctx, cls, op):
    """every re-framing op, its numeric parameters symbolic: registration of
    pixels, landmarks and mask w.r.t. the returned transform."""
    T, S = B.menpo_mods()
    from menpo.image import BooleanImage
    d = 3 if op.endswith('3d') else 2
    shape = (3, 4) if d == 2 else (2, 3, 2)
    src = make_image(ctx, cls, shape, 1, lms=1)
    cls = 'MaskedImage' if cls.startswith('MaskedImage') else cls
    before = state_of(src)
    order = 1 if cls != 'BooleanImage' else 0
    kw = dict(order=order) if cls != 'BooleanImage' else {}
    mode, cval = 'nearest', 0.0
    with mask_spy(ctx, cls.startswith('MaskedImage')) as spy:
        if op.startswith('rescale:') or op == 'rescale3d':
            rnd = op.split(':')[1] if ':' in op else 'ceil'
            s = ctx.reals('s', d, lo=0.45, hi=1.45)
            res, rt = src.rescale(list(s) if ctx.sym else s, round=rnd, return_transform=True, **kw)
            if ctx.sym:
                from vp.sreal import sfloor, sceil, srint
                f = dict(ceil=sceil, floor=sfloor, round=srint)[rnd]
                want = tuple(int(f(s[a] * shape[a])) for a in range(d))
            else:
                want = tuple(int(getattr(np, rnd)(s[a] * shape[a])) for a in range(d))
            ctx.check_true('shape==round(scale*shape)', tuple(res.shape) == want, '%s vs %s' % (res.shape, want))
        elif op == 'resize':
            want = (4, 3)
            res, rt = src.resize(want, return_transform=True, **kw)
            ctx.check_true('shape==requested', tuple(res.shape) == want)
        elif op == 'zoom':
            z = ctx.real('z', lo=0.3, hi=3.0)
            res, rt = src.zoom(z, return_transform=True, **kw)
            ctx.check_true('shape-kept', tuple(res.shape) == shape)
        elif op.startswith('mirror'):
            ax = int(op[6]) if op != 'mirror3d' else 2
            res, rt = src.mirror(axis=ax, return_transform=True, **kw)
            ctx.check_true('shape-kept', tuple(res.shape) == shape)
            # mirror is its own registration: pixel q comes from the flipped index
            flip = [slice(None)] * (d + 1)
            flip[ax + 1] = slice(None, None, -1)
            ctx.check_eq('mirror/pixel-exact-flip', np.asarray(res.pixels), np.asarray(src.pixels)[tuple(flip)])
        elif op.startswith('rotate'):
            retain = op.endswith('retain')
            th = ctx.real('theta', lo=-20.0, hi=20.0) if not retain else ctx.real('theta', lo=-400.0, hi=400.0)
            mode, cval = 'constant', 0.0
            res, rt = src.rotate_ccw_about_centre(th, degrees=True, retain_shape=retain, return_transform=True, **kw)
            if retain:
                ctx.check_true('shape-kept', tuple(res.shape) == shape)
        elif op == 'about_centre:affine':
            a, _ = B.build(ctx, 'Affine', 2, 'a')
            mode, cval = 'constant', 0.0
            res, rt = src.transform_about_centre(a, retain_shape=True, return_transform=True, **kw)
            ctx.check_true('shape-kept', tuple(res.shape) == shape)
        elif op == 'rescale_to_diagonal':
            dg = ctx.real('diag', lo=2.6, hi=6.9)
            res, rt = src.rescale_to_diagonal(dg, return_transform=True)
            with mask_spy(ctx, cls.startswith('MaskedImage')):
                ref, rt2 = src.rescale(dg / src.diagonal(), return_transform=True)
            compare_states(ctx, 'delegates-to-rescale', state_of(res), state_of(ref))
        elif op == 'rescale_to_pointcloud':
            g = list(src.landmarks)[0]
            k = ctx.real('k', lo=0.5, hi=1.4)
            tgt = S.PointCloud(np.asarray(src.landmarks[g].points) * k)
            pts = np.asarray(src.landmarks[g].points)
            c = pts - np.sum(pts, axis=0) / pts.shape[0]
            ctx.assume(np.sum(c * c) != 0, 'landmark group not collapsed')
            res, rt = src.rescale_to_pointcloud(tgt, group=g, return_transform=True)
        elif op == 'warp_to_mask':
            tm = BooleanImage(np.array([[1, 0, 1], [0, 1, 1]], dtype=bool))
            a, _ = B.build(ctx, 'Affine', 2, 'a')
            mode, cval = 'constant', 0.0
            res, rt = src.warp_to_mask(tm, a, warp_landmarks=True, return_transform=True, **kw)
            ctx.check_true('warp_to_mask/result-mask-is-template', np.array_equal(res.mask.mask, tm.mask))
            ctx.check_true('warp_to_mask/transform-returned', rt is a)
            idx = tm.true_indices().astype(float)
            pts = rt.apply(B_objarr(idx) if ctx.sym else idx)
            from vp import imagestub
            exp = imagestub.sample_stub(np.asarray(src.pixels), pts, mode=mode, order=order, cval=cval) if ctx.sym else src.sample(pts, order=order, mode=mode, cval=cval)
            ctx.check_eq('warp_to_mask/masked-pixels[k]==Sample(src, T(q_k))', np.asarray(res.as_vector(keep_channels=True)), np.asarray(exp))
            outside = np.asarray(res.pixels)[..., ~tm.mask]
            ctx.check_eq('warp_to_mask/zero-outside-template', outside, np.zeros(outside.shape, dtype=int))
            for g in src.landmarks:
                ctx.check_eq('warp_to_mask/T(result landmarks)==source landmarks[%s]' % g, rt.apply(np.asarray(res.landmarks[g].points)),
                             np.asarray(src.landmarks[g].points), tol=1e-6)
            compare_states(ctx, 'source-unchanged', state_of(src), before)
            return
        else:
            raise KeyError(op)
        registration(ctx, op, src, res, rt, order, mode, cval, spy)
    compare_states(ctx, 'source-unchanged', state_of(src), before)


@contract('C01', 'delegating_ops', configs=[dict(cls=c, op=o) for c in ('Image', 'MaskedImage', 'BooleanImage')
                                            for o in ('crop_to_pointcloud', 'crop_to_landmarks', 'crop_to_pointcloud_proportion',
                                                      'crop_to_landmarks_proportion', 'pyramid')
                                            if not (c == 'BooleanImage' and o == 'pyramid')] + [dict(cls='MaskedImage', op='crop_to_true_mask')],
          max_paths=300, functions=['menpo.image.base:Image.crop_to_pointcloud', 'menpo.image.base:Image.crop_to_landmarks',
                                    'menpo.image.base:Image.crop_to_pointcloud_proportion', 'menpo.image.base:Image.crop_to_landmarks_proportion',
                                    'menpo.image.base:Image.pyramid', 'menpo.image.masked:MaskedImage.crop_to_true_mask'])
def delegating_ops(ctx, cls, op):
    """ops that only compute parameters and delegate: their result is exactly
    the result of the op they delegate to (whose registration contract is
    C13/crop resp. C01/ops rescale), for all landmark positions."""
    T, S = B.menpo_mods()
    shape = (4, 5) if op != 'pyramid' else (5, 6)
    src = make_image(ctx, cls, shape, 1, lms=0)
    pts = np.empty((2, 2), dtype=object if ctx.sym else float)
    pts[0, 0] = ctx.real('lm_0_0', lo=0.6, hi=1.4); pts[0, 1] = ctx.real('lm_0_1', lo=0.6, hi=1.4)
    pts[1, 0] = ctx.real('lm_1_0', lo=2.6, hi=3.4); pts[1, 1] = ctx.real('lm_1_1', lo=3.6, hi=4.4)
    if ctx.sym:
        from vp.proxy import sa
        pts = sa(pts)
    pc = S.PointCloud(pts)
    src.landmarks['g'] = pc
    before = state_of(src)
    lo = np.array([pts[0, 0], pts[0, 1]], dtype=object if ctx.sym else float)
    hi = np.array([pts[1, 0], pts[1, 1]], dtype=object if ctx.sym else float)
    if op in ('crop_to_pointcloud', 'crop_to_landmarks'):
        b = ctx.real('b', lo=0.0, hi=0.7)
        got = src.crop_to_pointcloud(pc, boundary=b, return_transform=True) if op == 'crop_to_pointcloud' else src.crop_to_landmarks(group='g', boundary=b, return_transform=True)
        ref = src.crop(lo - b, hi + b, constrain_to_boundary=True, return_transform=True)
    elif op.endswith('proportion'):
        p = ctx.real('p', lo=0.0, hi=0.3)
        rng = hi - lo
        from vp.sreal import smin
        bnd = p * (smin(rng[0], rng[1]) if ctx.sym else min(rng))
        got = src.crop_to_pointcloud_proportion(pc, p, return_transform=True) if op == 'crop_to_pointcloud_proportion' else src.crop_to_landmarks_proportion(p, group='g', return_transform=True)
        ref = src.crop(lo - bnd, hi + bnd, constrain_to_boundary=True, return_transform=True)
    elif op == 'crop_to_true_mask':
        got = src.crop_to_true_mask(return_transform=True)
        mlo, mhi = src.mask.bounds_true()
        ref = src.crop(mlo, mhi, constrain_to_boundary=True, return_transform=True)
    else:
        levels = list(src.pyramid(n_levels=3, downscale=2))
        ctx.check_true('pyramid/n_levels', len(levels) == 3)
        compare_states(ctx, 'pyramid/level0-is-a-copy', state_of(levels[0]), before)
        ctx.check_true('pyramid/level0-not-the-source', levels[0] is not src)
        prev = src
        for k in (1, 2):
            r = prev.rescale(0.5)
            compare_states(ctx, 'pyramid/level%d==rescale(level%d, 1/2)' % (k, k - 1), state_of(levels[k]), state_of(r))
            prev = levels[k]
        compare_states(ctx, 'source-unchanged', state_of(src), before)
        return
    compare_states(ctx, 'result==delegate-result', state_of(got[0]), state_of(ref[0]))
    q = ctx.reals('q', (1, 2))
    ctx.check_eq('returned-transform==delegate-transform', got[1].apply(q), ref[1].apply(q))
    compare_states(ctx, 'source-unchanged', state_of(src), before)


# --------------------------------------------------------------- bounded
NATIVE_OPS = ['rescale', 'resize', 'zoom', 'mirror', 'rotate', 'rotate_retain', 'about_centre', 'about_centre_retain', 'rescale_to_diagonal',
              'rescale_to_pointcloud', 'rescale_landmarks_to_diagonal_range', 'warp_to_shape', 'crop', 'pyramid', 'gaussian_pyramid']


@contract('C01', 'ops_native', level='bounded', native_samples=3, tol=1e-6,
          configs=[dict(cls=c, op=o, dtype=dt, nd=nd) for c in ('Image', 'MaskedImage', 'BooleanImage') for o in NATIVE_OPS
                   for dt in (('float64', 'float32', 'uint8') if c != 'BooleanImage' else ('bool',))
                   for nd in ((2, 3) if o in ('rescale', 'resize', 'mirror', 'warp_to_shape', 'crop') else (2,))
                   if not (c == 'BooleanImage' and o in ('gaussian_pyramid',))],
          functions=IMG_FUNCS + ['menpo.image.base:Image.gaussian_pyramid', 'menpo.image.base:Image.rescale_landmarks_to_diagonal_range'])
def ops_native(ctx, cls, op, dtype, nd):
    """bounded stand-in (real scipy sampler, real dtypes, 1-4 channels, all
    rounding modes, random parameters): result pixels are bit-identical to
    sampling the source at T(grid) with the op's interpolation settings, the
    mask likewise (order 0), and T maps the result landmarks onto the source landmarks."""
    from menpo.image import Image, MaskedImage, BooleanImage
    T, S = B.menpo_mods()
    rs = ctx.nprng
    shape = tuple(rs.randint(5, 10, size=nd))
    ch = rs.randint(1, 5)
    if cls == 'BooleanImage':
        src = BooleanImage(rs.rand(*shape) > 0.4)
    else:
        data = (rs.rand(ch, *shape) * 200).astype(dtype)
        src = Image(data) if cls == 'Image' else MaskedImage(data, mask=(rs.rand(*shape) > 0.25) if rs.rand() < 0.6 else None)
    lm = np.array([rs.uniform(1, s - 2, size=4) for s in shape]).T
    src.landmarks['a'] = S.PointCloud(lm)
    src.landmarks['b'] = S.PointCloud(lm[:2] + 0.3)
    kw = {} if cls == 'BooleanImage' else dict(order=int(rs.choice([0, 1, 3])))
    order = kw.get('order', 0)
    mode, cval = 'nearest', 0.0
    if op == 'rescale':
        res, rt = src.rescale(list(rs.uniform(0.4, 1.8, size=nd)), round=str(rs.choice(['ceil', 'floor', 'round'])), return_transform=True, **kw)
    elif op == 'resize':
        res, rt = src.resize(tuple(rs.randint(3, 12, size=nd)), return_transform=True, **kw)
    elif op == 'zoom':
        res, rt = src.zoom(rs.uniform(0.4, 2.5), return_transform=True, **kw)
    elif op == 'mirror':
        res, rt = src.mirror(axis=int(rs.randint(0, nd)), return_transform=True, **kw)
    elif op in ('rotate', 'rotate_retain'):
        mode = 'constant'
        res, rt = src.rotate_ccw_about_centre(rs.uniform(-400, 400), retain_shape=op.endswith('retain'), round=str(rs.choice(['ceil', 'floor', 'round'])),
                                              return_transform=True, **kw)
    elif op in ('about_centre', 'about_centre_retain'):
        mode = 'constant'
        A = T.Affine(np.vstack([np.hstack([np.eye(2) + 0.3 * rs.randn(2, 2), rs.randn(2, 1)]), [0, 0, 1]]))
        res, rt = src.transform_about_centre(A, retain_shape=op.endswith('retain'), return_transform=True, **kw)
    elif op == 'rescale_to_diagonal':
        order = 1
        res, rt = src.rescale_to_diagonal(src.diagonal() * rs.uniform(0.5, 1.7), return_transform=True)
    elif op == 'rescale_to_pointcloud':
        res, rt = src.rescale_to_pointcloud(S.PointCloud(lm * rs.uniform(0.6, 1.6)), group='a', return_transform=True, **kw)
    elif op == 'rescale_landmarks_to_diagonal_range':
        res, rt = src.rescale_landmarks_to_diagonal_range(rs.uniform(3, 12), group='a', return_transform=True, **kw)
    elif op == 'warp_to_shape':
        mode = 'constant'
        M = np.eye(nd + 1)
        M[:nd, :nd] += 0.25 * rs.randn(nd, nd)
        M[:nd, nd] = rs.randn(nd)
        A = T.Affine(M)
        if cls == 'BooleanImage':
            res, rt = src.warp_to_shape(tuple(rs.randint(3, 8, size=nd)), A, return_transform=True)
        else:
            res, rt = src.warp_to_shape(tuple(rs.randint(3, 8, size=nd)), A, warp_landmarks=True, return_transform=True, **kw)
    elif op == 'crop':
        order = 0
        mode = 'constant'
        lo = np.array([rs.uniform(-1, s / 2) for s in shape])
        hi = np.array([rs.uniform(s / 2 + 1, s + 1) for s in shape])
        res, rt = src.crop(lo, hi, constrain_to_boundary=True, return_transform=True)
    elif op in ('pyramid', 'gaussian_pyramid'):
        levels = list(getattr(src, op)(n_levels=3, downscale=2))
        ctx.check_true('n_levels', len(levels) == 3)
        prev = src
        for k in (1, 2):
            if op == 'pyramid':
                ref = prev.rescale(0.5)
            else:
                from menpo.feature import gaussian_filter
                ref = gaussian_filter(prev, 2 / 3.0).rescale(0.5)
            ctx.check_true('level%d==rescale(previous)' % k, np.array_equal(ref.pixels, levels[k].pixels) and type(levels[k]) is type(src))
            ctx.check_eq('level%d/landmarks' % k, levels[k].landmarks['a'].points, ref.landmarks['a'].points)
            prev = levels[k]
        return
    idx = np.array(list(np.ndindex(*res.shape)), dtype=float)
    pts = rt.apply(idx)
    exp = src.sample(pts, order=order, mode=mode, cval=cval) if cls != 'BooleanImage' else src.sample(pts, mode=mode, cval=False)
    ctx.check_true('class-kept', type(res) is type(src))
    ctx.check_true('dtype-kept', res.pixels.dtype == src.pixels.dtype)
    got = np.asarray(res.pixels).reshape(exp.shape)
    ctx.check_true('pixels[q]==Sample(src, T(q)) bitwise', np.array_equal(np.nan_to_num(got), np.nan_to_num(exp)))
    for g in ('a', 'b'):
        ctx.check_eq('T(result landmarks)==source landmarks[%s]' % g, rt.apply(res.landmarks[g].points), src.landmarks[g].points)
    if cls == 'MaskedImage':
        expm = src.mask.sample(pts, mode=mode, cval=False)
        ctx.check_true('mask[q]==Sample0(src.mask, T(q))', np.array_equal(np.asarray(res.mask.pixels).reshape(-1), np.asarray(expm).reshape(-1)))
