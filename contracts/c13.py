"""C13 — crops and patches are pixel-exact and honour their boundary contract."""
import numpy as np

from vp.registry import contract
from . import builders as B
from .state import state_of, compare_states, independent

TRUSTED = []
ASSUMPTIONS = [
    'pixel identity: result pixels are compared as symbols with the source pixel leaves (bit-for-bit == same leaf); dtype preservation is covered by the bounded dtype contract',
]


def _crop_cfgs(tier):
    """bounds: 'axisK' - axis K ranges over everything (inside, partially and
    wholly outside, each side separately) while the other axes stay fractional
    but inside; 'corners' - every axis within +-1.5 of its border on both
    sides at once (all combinations of overflow across axes)."""
    full3d = tier != 'quick'
    out = []
    for cls in ('Image', 'MaskedImage', 'BooleanImage'):
        for shape in ([3, 4],) + (([2, 2, 2],) if cls == 'Image' else ()):
            for constrain in (False, True):
                for region in ['axis%d' % a for a in range(len(shape))] + ['corners']:
                    if len(shape) == 3 and not full3d and region not in ('axis1', 'corners'):
                        continue
                    out.append(dict(cls=cls, shape=shape, constrain=constrain, region=region))
    return out


@contract('C13', 'crop', configs=_crop_cfgs, max_paths=1500, budget_s=900, functions=[
    'menpo.image.base:Image.crop', 'menpo.image.base:Image.constrain_points_to_bounds', 'menpo.image.base:Image.warp_to_shape',
    'menpo.image.base:Image._build_warp_to_shape', 'menpo.image.base:Image.sample', 'menpo.image.boolean:BooleanImage.warp_to_shape',
    'menpo.image.masked:MaskedImage.warp_to_shape', 'menpo.image.base:ImageBoundaryError.__init__'])
def crop(ctx, cls, shape, constrain, region):
    """all real crop bounds: exact block between floor(min) and ceil(max)
    (clipped to the image only when constraining is allowed), landmarks shifted
    by the minimum, ImageBoundaryError otherwise - never a silently altered crop."""
    from menpo.image.base import ImageBoundaryError
    shape = tuple(shape)
    d = len(shape)
    m = None
    if cls == 'MaskedImage':
        m = (np.arange(int(np.prod(shape))).reshape(shape) % 3 != 1)
    if cls == 'BooleanImage':
        m = (np.arange(int(np.prod(shape))).reshape(shape) % 3 != 1)
    img = B.image(ctx, cls, shape, 1 if cls != 'Image' else 2, mask=m, landmarks=1)
    before = state_of(img)
    lo_r, hi_r = [], []
    for a in range(d):
        if region == 'corners':
            lo_r.append(ctx.real('min_%d' % a, lo=-0.99, hi=0.99))
            hi_r.append(ctx.real('max_%d' % a, lo=shape[a] - 0.99, hi=shape[a] + 0.99))
        elif region == 'axis%d' % a:
            lo_r.append(ctx.real('min_%d' % a, lo=-2.5, hi=shape[a] + 2.5))
            hi_r.append(ctx.real('max_%d' % a, lo=-2.5, hi=shape[a] + 2.5))
        else:
            lo_r.append(ctx.real('min_%d' % a, lo=0.1, hi=0.9))
            hi_r.append(ctx.real('max_%d' % a, lo=shape[a] - 0.9, hi=shape[a] - 0.1))
    if ctx.sym:
        from vp.sreal import sfloor, sceil
        lo = [sfloor(x) for x in lo_r]
        hi = [sceil(x) for x in hi_r]
    else:
        lo = [int(np.floor(x)) for x in lo_r]
        hi = [int(np.ceil(x)) for x in hi_r]
    outcome = 'ok'
    try:
        res, tr = img.crop(np.array(lo_r, dtype=object if ctx.sym else float), np.array(hi_r, dtype=object if ctx.sym else float),
                           constrain_to_boundary=constrain, return_transform=True)
    except ImageBoundaryError as e:
        outcome = 'boundary'
        err = e
    except ValueError:
        outcome = 'value'
    # decide the case on this path (the comparisons are already fixed by the path)
    ordered = all(bool(h > l) for l, h in zip(lo, hi))
    inside = all(bool(l >= 0) for l in lo) and all(bool(h <= s) for h, s in zip(hi, shape))
    if not ordered:
        ctx.check_true('max<=min => ValueError', outcome == 'value')
        compare_states(ctx, 'receiver-unchanged', state_of(img), before)
        return
    lo_c = [int(l) for l in lo]
    hi_c = [int(h) for h in hi]
    lo_b = [min(max(l, 0), s) for l, s in zip(lo_c, shape)]
    hi_b = [min(max(h, 0), s) for h, s in zip(hi_c, shape)]
    nonempty = all(h > l for l, h in zip(lo_b, hi_b))
    if not inside and not constrain:
        ctx.check_true('outside+no-constraining => ImageBoundaryError (never a silently altered crop)', outcome == 'boundary',
                       'outcome=%s lo=%s hi=%s' % (outcome, lo_c, hi_c))
        if outcome == 'boundary':
            ctx.check_true('error/requested-bounds', [int(x) for x in err.requested_min] == lo_c and [int(x) for x in err.requested_max] == hi_c)
            ctx.check_true('error/snapped-bounds', [int(x) for x in err.snapped_min] == lo_b and [int(x) for x in err.snapped_max] == hi_b)
        compare_states(ctx, 'receiver-unchanged', state_of(img), before)
        return
    if not nonempty:
        ctx.note('empty intersection with the image: no clause (the statement speaks about the intersection)')
        return
    ctx.check_true('returns-normally', outcome == 'ok', outcome)
    if outcome != 'ok':
        return
    want_shape = tuple(h - l for l, h in zip(lo_b, hi_b))
    ctx.check_true('class-kept', type(res) is type(img))
    ctx.check_true('shape==ceil(max)-floor(min) clipped', tuple(res.shape) == want_shape, '%s vs %s' % (res.shape, want_shape))
    if tuple(res.shape) != want_shape:
        return
    sl = (slice(None),) + tuple(slice(l, h) for l, h in zip(lo_b, hi_b))
    src_px = np.asarray(img.pixels)
    ctx.check_eq('pixel-exact-block', np.asarray(res.pixels), src_px[sl])
    if cls == 'MaskedImage':
        ctx.check_true('mask-carried', np.array_equal(res.mask.mask, img.mask.mask[sl[1:]]))
    for g in img.landmarks:
        ctx.check_eq('landmarks-shifted-by-min[%s]' % g, res.landmarks[g].points, np.asarray(img.landmarks[g].points) - np.array(lo_b))
    q = ctx.reals('q', (1, d))
    ctx.check_eq('returned-transform: result coords -> source coords', tr.apply(q), np.asarray(q) + np.array(lo_b))
    compare_states(ctx, 'receiver-unchanged', state_of(img), before)
    independent(ctx, 'crop-shares-no-mutable-storage-with-the-source-image', res, img)
    res2 = img.crop(np.array(lo_r, dtype=object if ctx.sym else float), np.array(hi_r, dtype=object if ctx.sym else float),
                    constrain_to_boundary=constrain)
    compare_states(ctx, 'return_transform-flag-irrelevant', state_of(res2), state_of(res))


# ------------------------------------------------------------------- patches
PATCH_SHAPES = [(1, 1), (2, 2), (3, 3), (2, 3), (3, 2), (4, 3)]
OFFSET_SETS = {'none': None, 'zero': [[0, 0]], 'two': [[0, 0], [1, -1]], 'three': [[-2, 0], [0, 2], [1, 1]]}


def _patch_cfgs(tier):
    out = []
    chans = (1, 2, 3, 5) if tier == 'quick' else (1, 2, 3, 4, 5)
    for ch in chans:
        for ps in PATCH_SHAPES:
            for off in OFFSET_SETS:
                if tier == 'quick' and ch in (2, 5) and off in ('two',):
                    continue
                out.append(dict(ch=ch, ps=list(ps), off=off, frac=False))
    for ps in PATCH_SHAPES:
        out.append(dict(ch=2, ps=list(ps), off='zero', frac=True))
    return out


def window_reference(px, centre, ps, cval):
    """the documented window: rows c_r - ph//2 ... (ph rows), cols likewise;
    cval outside the image."""
    C, H, W = px.shape
    ph, pw = ps
    out = np.empty((C, ph, pw), dtype=object)
    r0, c0 = centre[0] - ph // 2, centre[1] - pw // 2
    for c in range(C):
        for r in range(ph):
            for s in range(pw):
                R, S = r0 + r, c0 + s
                out[c, r, s] = px[c, R, S] if (0 <= R < H and 0 <= S < W) else cval
    return out


@contract('C13', 'patches', configs=_patch_cfgs, max_paths=40, functions=[
    'menpo.image.base:Image.extract_patches', 'menpo.image.base:Image.set_patches',
    'menpo.image.patches:extract_patches_with_slice', 'menpo.image.patches:extract_patches_by_sampling',
    'menpo.image.patches:_centered_patch', 'menpo.image.patches:set_patches'])
def patches(ctx, ch, ps, off, frac):
    """pixel values universal, geometry enumerated: shape, content, agreement
    of the slicing and the resampling path, write-back."""
    from menpo.image import Image
    from menpo.image.patches import extract_patches_by_sampling
    T, S = B.menpo_mods()
    H, W = 5, 6
    ps = tuple(ps)
    img = B.image(ctx, 'Image', (H, W), ch)
    px = np.asarray(img.pixels)
    rows = [-3, -1, 0, 2, H - 1, H, H + 2]
    cols = [-3, -1, 0, 3, W - 1, W, W + 2]
    centres = np.array([[r, c] for r in rows for c in cols], dtype=float)
    if frac:
        # fractional centres away from rounding ties: same window as the integer centre
        rows, cols = [0, 2, H], [-1, 3, W - 1]
        centres = np.array([[r, c] for r in rows for c in cols], dtype=float)
        dl = ctx.reals('delta', 2, lo=-0.49, hi=0.49)
        pts = centres + np.asarray(dl) if not ctx.sym else np.asarray(centres, dtype=object) + np.asarray(dl)
    else:
        pts = centres
    offsets = OFFSET_SETS[off]
    offs = None if offsets is None else np.array(offsets, dtype=float)
    pc = S.PointCloud(pts)
    cval = 0.0
    got = img.extract_patches(pc, patch_shape=ps, sample_offsets=offs, order=0, mode='constant', cval=cval)
    n_off = 1 if offs is None else len(offsets)
    want_shape = (len(centres), n_off, ch) + ps
    ctx.check_true('shape==(centres,offsets,channels,ph,pw)', tuple(got.shape) == want_shape, '%s vs %s' % (got.shape, want_shape))
    got2 = extract_patches_by_sampling(img.pixels, pc.points, ps, offsets=offs, order=0, mode='constant', cval=cval)
    ctx.check_true('sampling-path/shape', tuple(got2.shape) == want_shape, '%s vs %s' % (got2.shape, want_shape))
    for i, cen in enumerate(centres):
        for j in range(n_off):
            o = (0, 0) if offs is None else offsets[j]
            ref = window_reference(px, (int(cen[0] + o[0]), int(cen[1] + o[1])), ps, 0)
            if tuple(got.shape) == want_shape:
                ctx.check_eq('slicing-path/content[%d,%d]' % (i, j), np.asarray(got[i, j]), ref)
            if tuple(got2.shape) == want_shape and not frac:
                # (fractional centres: scipy's 'constant' mode already treats a
                # coordinate of -0.3 as outside, the slicing path rounds first;
                # the statement compares the two paths at integer centres only)
                ctx.check_eq('sampling-path/content[%d,%d]' % (i, j), np.asarray(got2[i, j]), ref)
    if frac or off != 'zero':
        return
    # write-back at interior, non-overlapping centres
    interior = np.array([[ps[0] // 2, ps[1] // 2], [H - 1 - (ps[0] - 1) // 2 if ps[0] <= 2 else ps[0] // 2, W - 1 - (ps[1] - 1 - ps[1] // 2)]], dtype=float)
    ipc = S.PointCloud(interior)
    ext = img.extract_patches(ipc, patch_shape=ps, order=0, mode='constant')
    back = img.set_patches(ext, ipc)
    ctx.check_eq('write-back/restores-the-image', np.asarray(back.pixels), px)
    new = ctx.reals('new', ext.shape)
    mod = img.set_patches(new, ipc)
    mp = np.asarray(mod.pixels)
    inside = np.zeros((H, W), dtype=bool)
    for k, cen in enumerate(interior):
        r0, c0 = int(cen[0]) - ps[0] // 2, int(cen[1]) - ps[1] // 2
        inside[r0:r0 + ps[0], c0:c0 + ps[1]] = True
    ctx.check_eq('write-back/touches-nothing-outside-the-windows', mp[:, ~inside], px[:, ~inside])
    last = len(interior) - 1
    r0, c0 = int(interior[last][0]) - ps[0] // 2, int(interior[last][1]) - ps[1] // 2
    ctx.check_eq('write-back/window-holds-the-patch', mp[:, r0:r0 + ps[0], c0:c0 + ps[1]], np.asarray(new)[last, 0])
    ctx.check_eq('write-back/source-image-unchanged', np.asarray(img.pixels), px)


@contract('C13', 'dtype_personas', level='bounded', native_samples=4, tol=0.0,
          configs=[dict(cls=c, dtype=dt, nd=nd) for c in ('Image', 'MaskedImage', 'BooleanImage') for dt in ('uint8', 'float32', 'float64', 'int32')
                   for nd in (2, 3) if not (c == 'BooleanImage' and dt != 'uint8')],
          functions=['menpo.image.base:Image.crop', 'menpo.image.base:Image.extract_patches'])
def dtype_personas(ctx, cls, dtype, nd):
    """bounded stand-in for what the object persona cannot see: same dtype and
    bit-identical values through the real scipy sampler; patches keep dtype."""
    from menpo.image import Image, MaskedImage, BooleanImage
    T, S = B.menpo_mods()
    rs = ctx.nprng
    shape = tuple(rs.randint(3, 7, size=nd))
    ch = rs.randint(1, 5)
    if cls == 'BooleanImage':
        img = BooleanImage(rs.rand(*shape) > 0.4)
    else:
        data = (rs.rand(ch, *shape) * 200).astype(dtype)
        img = Image(data) if cls == 'Image' else MaskedImage(data, mask=rs.rand(*shape) > 0.3)
    lo = np.array([rs.uniform(-1.5, s - 1.2) for s in shape])
    hi = np.array([rs.uniform(l + 1.0, s + 1.5) for l, s in zip(lo, shape)])
    res = img.crop(lo, hi, constrain_to_boundary=True)
    l = np.clip(np.floor(lo), 0, shape).astype(int)
    h = np.clip(np.ceil(hi), 0, shape).astype(int)
    sl = (slice(None),) + tuple(slice(a, b) for a, b in zip(l, h))
    ctx.check_true('crop/dtype-kept', res.pixels.dtype == img.pixels.dtype, '%s vs %s' % (res.pixels.dtype, img.pixels.dtype))
    ctx.check_true('crop/bit-identical-block', np.array_equal(res.pixels, img.pixels[sl]))
    if cls == 'MaskedImage':
        ctx.check_true('crop/mask-block', np.array_equal(res.mask.mask, img.mask.mask[sl[1:]]))
    if nd == 2 and cls != 'BooleanImage':
        pc = S.PointCloud(np.array([[1.0, 1.0], [shape[0] - 1.0, shape[1] - 2.0]]))
        p1 = img.extract_patches(pc, patch_shape=(2, 3), order=0, mode='constant')
        ctx.check_true('patches/dtype-kept', p1.dtype == img.pixels.dtype)
        from menpo.image.patches import extract_patches_by_sampling
        p2 = extract_patches_by_sampling(img.pixels, pc.points, (2, 3), order=0, mode='constant')
        ctx.check_true('patches/paths-agree-bitwise', p2.shape == p1.shape and np.array_equal(p1, p2))
