"""C12 — GMRF precision: storage-independent, graph-sparse, symmetric PSD, exact."""
import itertools

import numpy as np

from vp.registry import contract
from . import builders as B
from .c11 import _graphs

TRUSTED = ['PSD of the assembled precision follows from PSD of every embedded inverse covariance block (G2-style paper lemma); natively eigenvalues are checked (bounded)']
ASSUMPTIONS = ['np.cov by its closed form, np.linalg.inv by adjugate/det; block-sparse storage (scipy bsr_matrix) cannot hold symbolic leaves: bounded only']

SMALL_GRAPHS = {
    'edge2': (2, [[0, 1]]), 'chain3': (3, [[0, 1], [1, 2]]), 'triangle3': (3, [[0, 1], [1, 2], [0, 2]]),
    'isolated3': (3, [[0, 2]]), 'star4': (4, [[0, 1], [0, 2], [0, 3]]), 'edgeless3': (3, []),
}


@contract('C12', 'dense_assembly', configs=[dict(graph=g, mode=m, bias=b) for g in SMALL_GRAPHS for m in ('concatenation', 'subtraction') for b in (0, 1)
                                            if not (g == 'edgeless3' and m == 'subtraction')], max_paths=8, functions=[
    'menpo.model.gmrf:_create_dense_precision', 'menpo.model.gmrf:_create_dense_diagonal_precision', 'menpo.model.gmrf:_covariance_matrix_inverse',
    'menpo.model.gmrf:GMRFVectorModel.__init__', 'menpo.model.gmrf:GMRFVectorModel._mahalanobis_distance', 'menpo.model.gmrf:GMRFVectorModel.mean'])
def dense_assembly(ctx, graph, mode, bias):
    """symbolic data (one feature per vertex): the dense precision is the sum
    over edges (vertices if edgeless) of the inverted sample covariances of the
    edge's feature block placed at that block; symmetric; zero between
    vertices the graph does not join; Mahalanobis distance is the quadratic
    form, zero at the mean, batched == single; mean is the sample mean."""
    from menpo.model import GMRFVectorModel
    from menpo.shape import UndirectedGraph
    nv, edges = SMALL_GRAPHS[graph]
    modular = ctx.sym and graph != 'edge2'
    G = UndirectedGraph.init_from_edges(np.array(edges, dtype=int).reshape(-1, 2), nv)
    n = 3
    X = ctx.reals('x', (n, nv))
    Xa = np.asarray(X)

    def cov(D):
        if modular:
            from vp import stubs
            return stubs.opaque_symmetric('Cov_b%d' % bias, list(np.asarray(D).flat), D.shape[1])
        mu = np.sum(D, axis=0) / n
        C = D - mu
        return C.T.dot(C) / (n - 1 + bias)

    def inv(M):
        if modular:
            from vp import stubs
            return stubs.opaque_symmetric('Inv', list(np.asarray(M).flat), M.shape[0])
        if M.shape == (1, 1):
            ctx.assume(M[0, 0] != 0, 'block covariance non-singular')
            return np.array([[1 / M[0, 0]]], dtype=object)
        d = M[0, 0] * M[1, 1] - M[0, 1] * M[1, 0]
        ctx.assume(d != 0, 'block covariance non-singular')
        return np.array([[M[1, 1], -M[0, 1]], [-M[1, 0], M[0, 0]]], dtype=object) / d

    want = np.zeros((nv, nv), dtype=object)
    want[...] = 0
    if not edges:
        for v in range(nv):
            want[v, v] = inv(cov(Xa[:, [v]]))[0, 0]
    else:
        for a, b in edges:
            if mode == 'concatenation':
                P = inv(cov(Xa[:, [a, b]]))
                want[a, a] = want[a, a] + P[0, 0]; want[b, b] = want[b, b] + P[1, 1]
                want[a, b] = want[a, b] + P[0, 1]; want[b, a] = want[b, a] + P[1, 0]
            else:
                P = inv(cov((Xa[:, a] - Xa[:, b]).reshape(-1, 1)))[0, 0]
                want[a, a] = want[a, a] + P; want[b, b] = want[b, b] + P
                want[a, b] = want[a, b] - P; want[b, a] = want[b, a] - P
    import menpo.model.gmrf as GM
    from vp import stubs
    orig_inv = GM._covariance_matrix_inverse
    if modular:
        # modular step: cov / block inverse replaced by their (functional,
        # symmetric) contracts; their bodies are verified on 'edge2'
        stubs.OPAQUE['cov'] = True
        # (callee contract: accepts the 0-d covariance numpy returns for a
        # single feature as well as a k x k block, returns a k x k block)
        GM._covariance_matrix_inverse = lambda cm, nc: stubs.opaque_symmetric('Inv', list(np.asarray(cm).flat), np.atleast_2d(cm).shape[0])
    try:
        m = GMRFVectorModel(np.array(Xa, copy=True), G, mode=mode, sparse=False, dtype=object if ctx.sym else np.float64, bias=bias)
    finally:
        stubs.OPAQUE['cov'] = False
        GM._covariance_matrix_inverse = orig_inv
    P = np.asarray(m.precision)
    ctx.check_eq('precision==sum-of-embedded-inverse-block-covariances', P, want, tol=1e-5)
    ctx.check_eq('symmetric', P, P.T, tol=1e-6)
    joined = {(a, b) for a, b in edges} | {(b, a) for a, b in edges}
    for a in range(nv):
        for b in range(nv):
            if a != b and (a, b) not in joined:
                ctx.check_eq('graph-sparse[%d,%d]' % (a, b), P[a, b], 0)
    mu = np.sum(Xa, axis=0) / n
    ctx.check_eq('mean==sample-mean', m.mean(), mu)
    q = ctx.reals('q', (2, nv))
    dq = np.asarray(q) - mu
    dist = m.mahalanobis_distance(np.array(q, copy=True))
    ctx.check_eq('mahalanobis==quadratic-form', dist, np.array([dq[i].dot(want).dot(dq[i]) for i in range(2)], dtype=object), tol=1e-5)
    ctx.check_eq('mahalanobis/single==batched', m.mahalanobis_distance(np.array(q[0], copy=True)), dist[0], tol=1e-6)
    ctx.check_eq('mahalanobis/zero-at-the-mean', m.mahalanobis_distance(np.array(mu, copy=True)), 0, tol=1e-7)


@contract('C12', 'storage_and_psd_native', level='bounded', native_samples=2, tol=1e-5,
          configs=[dict(graph=g, mode=m, bias=b, dtype=dt, ncomp=nc, fpv=fpv, backed=bk) for g in ('edgeless4', 'chain4', 'cycle4', 'tree5', 'isolated6', 'directed4')
                   for m in ('concatenation', 'subtraction') for b in (0, 1) for dt in ('float64', 'float32') for nc in (None, 2) for fpv in (1, 2, 3)
                   for bk in ('vector', 'pointcloud')
                   if not (nc == 2 and (dt == 'float32' or fpv != 2)) and not (fpv == 3 and (dt == 'float32' or b == 1))
                   and not (bk == 'pointcloud' and (fpv != 2 or g in ('cycle4', 'tree5')))],
          functions=['menpo.model.gmrf:_create_sparse_precision', 'menpo.model.gmrf:_create_sparse_diagonal_precision',
                     'menpo.model.gmrf:GMRFVectorModel.mahalanobis_distance'])
def storage_and_psd_native(ctx, graph, mode, bias, dtype, ncomp, fpv=2, backed='vector'):
    """bounded stand-in: sparse == dense storage, == independent edge-sum
    reference, symmetric, PSD (eigenvalues >= -eps), graph-sparse, Mahalanobis
    non-negative / zero at mean / sparse == dense / single == batched, mean."""
    from menpo.model import GMRFVectorModel, GMRFModel
    from menpo.shape import PointCloud
    rs = ctx.nprng
    G = _graphs()[graph]
    n = 25
    nf = G.n_vertices * fpv
    X = rs.randn(n, nf) + rs.randn(nf)
    X = (X + 0.4 * np.roll(X, 1, axis=1)).astype(dtype)
    tol = 1e-5 if dtype == 'float64' else 2e-2
    kw = dict(mode=mode, dtype=np.dtype(dtype).type, bias=bias, n_components=ncomp)
    if backed == 'vector':
        md = GMRFVectorModel(X.copy(), G, sparse=False, **kw)
        ms = GMRFVectorModel(X.copy(), G, sparse=True, **kw)
    else:
        # the object-backed model: same contract through instances (point clouds)
        class _Backed(object):
            def __init__(self, m):
                self.m, self.precision = m, m.precision

            def mahalanobis_distance(self, q):
                q = np.asarray(q)
                if q.ndim == 1:
                    return self.m.mahalanobis_distance(PointCloud(q.reshape(-1, fpv).copy()))
                return self.m.mahalanobis_distance([PointCloud(r.reshape(-1, fpv).copy()) for r in q])

            def mean(self):
                return self.m.mean().as_vector()
        wrap = lambda: [PointCloud(r.reshape(-1, fpv).copy()) for r in X]
        md = _Backed(GMRFModel(wrap(), G, sparse=False, **kw))
        ms = _Backed(GMRFModel(wrap(), G, sparse=True, **kw))
    Pd, Ps = np.asarray(md.precision, dtype=float), np.asarray(ms.precision.toarray(), dtype=float)
    ctx.check_eq('sparse==dense', Ps, Pd, tol=tol)
    ctx.check_eq('symmetric', Pd, Pd.T, tol=tol)
    # independent reference (float64)
    Xd = X.astype(float)
    ref = np.zeros((nf, nf))
    E = np.asarray(G.edges) if G.n_edges else np.zeros((0, 2), dtype=int)

    def pinv_rank(C):
        if ncomp is None:
            return np.linalg.inv(C)
        s, v, d = np.linalg.svd(C)
        return s[:, :ncomp].dot(np.diag(1 / v[:ncomp])).dot(d[:ncomp])
    if G.n_edges == 0:
        for v in range(G.n_vertices):
            sl = slice(v * fpv, (v + 1) * fpv)
            ref[sl, sl] = pinv_rank(np.atleast_2d(np.cov(Xd[:, sl], rowvar=0, bias=bias)))
    else:
        for a, b in E:
            sa, sb = slice(a * fpv, (a + 1) * fpv), slice(b * fpv, (b + 1) * fpv)
            if mode == 'concatenation':
                P = pinv_rank(np.cov(np.hstack([Xd[:, sa], Xd[:, sb]]), rowvar=0, bias=bias))
                ref[sa, sa] += P[:fpv, :fpv]; ref[sb, sb] += P[fpv:, fpv:]; ref[sa, sb] += P[:fpv, fpv:]; ref[sb, sa] += P[fpv:, :fpv]
            else:
                P = pinv_rank(np.atleast_2d(np.cov(Xd[:, sa] - Xd[:, sb], rowvar=0, bias=bias)))
                ref[sa, sa] += P; ref[sb, sb] += P; ref[sa, sb] -= P; ref[sb, sa] -= P
    if dtype == 'float64':
        ctx.check_eq('==edge-sum-reference', Pd, ref, tol=1e-5)
    joined = {(a, b) for a, b in E} | {(b, a) for a, b in E}
    ok = True
    for a in range(G.n_vertices):
        for b in range(G.n_vertices):
            if a != b and (a, b) not in joined:
                ok = ok and not np.any(Ps[a * fpv:(a + 1) * fpv, b * fpv:(b + 1) * fpv]) and not np.any(Pd[a * fpv:(a + 1) * fpv, b * fpv:(b + 1) * fpv])
    ctx.check_true('couples-only-joined-vertices', ok)
    w = np.linalg.eigvalsh((Pd + Pd.T) / 2)
    ctx.check_true('positive-semi-definite', bool(w.min() >= -tol * max(1.0, abs(w).max())), 'min eig %g' % w.min())
    Q = (rs.randn(4, nf) * 2).astype(dtype)
    dd, ds = np.asarray(md.mahalanobis_distance(Q), dtype=float), np.asarray(ms.mahalanobis_distance(Q), dtype=float)
    ctx.check_eq('mahalanobis/sparse==dense', ds, dd, tol=tol)
    ctx.check_true('mahalanobis/non-negative', bool(np.all(dd >= -tol * (1 + np.abs(dd).max()))))
    ctx.check_eq('mahalanobis/single==batched', float(md.mahalanobis_distance(Q[1])), dd[1], tol=tol)
    ctx.check_eq('mahalanobis/zero-at-the-mean', float(ms.mahalanobis_distance(ms.mean())), 0.0, tol=tol)
    ctx.check_eq('mean==sample-mean', md.mean(), X.mean(0), tol=tol)
