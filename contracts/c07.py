"""C07 — alignments recover exact maps, fit optimally where promised, interpolate."""
import numpy as np

from vp.registry import contract
from . import builders as B
from .c04 import pwa_setup, tps_coefficients_contract, distinct, cross2
from .state import state_of, compare_states
from .c08 import ALIGN_CFGS, construct, clouds, non_degenerate

TRUSTED = [
    'G1: a stationary point of a convex quadratic is its global minimum (least squares <=> normal equations / zero-sum residual) - paper argument',
    'G5 (Kabsch/Umeyama): optimality of U.diag(1,..,+-1).Vt over SO(d)/O(d) - paper argument; the code-level facts (orthogonal, det, built from the svd of target^T.source) are proved or checked natively',
]
ASSUMPTIONS = []


@contract('C07', 'aligned_source_and_error', configs=ALIGN_CFGS, max_paths=64, functions=[
    'menpo.transform.base.alignment:Alignment.aligned_source', 'menpo.transform.base.alignment:Alignment.alignment_error',
    'menpo.transform.base.alignment:Alignment.__init__', 'menpo.transform.base.alignment:Alignment._verify_source_and_target'])
def aligned_source_and_error(ctx, cls, d, opts):
    """for every alignment class: aligned_source == apply(source); the
    alignment error is the distance between that and the given target;
    mismatching source/target are rejected."""
    T, S = B.menpo_mods()
    src, tgt = clouds(ctx, cls, d, ['src', 'tgt'])
    non_degenerate(ctx, cls, src, [tgt])
    with tps_coefficients_contract(ctx):
        a = construct(ctx, cls, src, tgt, opts)
        ctx.check_true('source/target-are-the-given-ones', a.source is src and a.target is tgt)
        al = a.aligned_source()
        ctx.check_eq('aligned_source==apply(source.points)', al.points, a.apply(np.asarray(src.points)))
        ctx.check_true('aligned_source/class', type(al) is type(src))
        err = a.alignment_error()
        diff = np.asarray(tgt.points) - np.asarray(al.points)
        ctx.check_eq('alignment_error^2==sum-of-squares', err * err, np.sum(diff * diff), tol=1e-6)
        ctx.check('alignment_error>=0', err >= 0)
        # inspecting an alignment (its inverse, a copy, its queries) does not change it
        first = a.apply(np.asarray(src.points))
        before = state_of(a)
        if cls in ('ThinPlateSplines', 'PiecewiseAffine'):
            a.pseudoinverse()     # (homogeneous family: receiver-untouched is a clause of C04; symbolic inverse of a fitted 3-D matrix explodes)
        a.copy()
        a.aligned_source()
        a.alignment_error()
        compare_states(ctx, 'inspection-leaves-the-alignment-unchanged', state_of(a), before)
        ctx.check_eq('same-map-after-inspection', a.apply(np.asarray(src.points)), first)
        bad_n = S.PointCloud(ctx.reals('bn', (src.n_points + 1, d)))
        bad_d = S.PointCloud(ctx.reals('bd', (src.n_points, d + 1)))
        ctx.check_true('reject/other-n_points', ctx.raises(ValueError, lambda: construct(ctx, cls, src, bad_n, opts)))
        ctx.check_true('reject/other-n_dims', ctx.raises(ValueError, lambda: construct(ctx, cls, src, bad_d, opts)))


@contract('C07', 'translation_scale_affine', configs=[dict(cls=c, d=d) for c in ('AlignmentTranslation', 'AlignmentAffine')
                                                     for d in (2, 3)], functions=[
    'menpo.transform.homogeneous.translation:AlignmentTranslation.__init__', 'menpo.transform.homogeneous.scale:AlignmentUniformScale.__init__',
    'menpo.transform.homogeneous.affine:AlignmentAffine.__init__', 'menpo.transform.homogeneous.affine:AlignmentAffine._build_alignment_h_matrix',
    'menpo.shape.pointcloud:PointCloud.centre', 'menpo.shape.pointcloud:PointCloud.norm', 'menpo.shape.pointcloud:PointCloud.h_points'])
def translation_scale_affine(ctx, cls, d):
    """exact recovery of a family member and the optimality certificate."""
    T, S = B.menpo_mods()
    n = d + 1 if cls != 'AlignmentAffine' else d + 2
    src = B.cloud(ctx, 'src', n, d, scale=3.0)
    P = np.asarray(src.points)
    non_degenerate(ctx, cls, src, [])
    # ---- arbitrary target: optimality certificate
    tgt = B.cloud(ctx, 'tgt', n, d, scale=3.0)
    non_degenerate(ctx, cls, src, [tgt] if cls != 'AlignmentAffine' else [])
    a = getattr(T, cls)(src, tgt)
    res = np.asarray(tgt.points) - np.asarray(a.aligned_source().points)
    if cls == 'AlignmentTranslation':
        ctx.check_eq('optimal/residual-sums-to-zero', np.sum(res, axis=0), np.zeros(d, dtype=int))
        ctx.check_eq('optimal/translation==centroid-difference', a.translation_component,
                     np.sum(np.asarray(tgt.points), axis=0) / n - np.sum(P, axis=0) / n)
    elif cls == 'AlignmentAffine':
        hs = np.vstack([P.T, np.ones((1, n), dtype=int)])
        ctx.check_eq('optimal/normal-equations', res.T.dot(hs.T), np.zeros((d, d + 1), dtype=int))
    else:
        al = a.aligned_source()
        ctx.check_eq('size/norm(aligned)^2==norm(target)^2', al.norm() * al.norm(), tgt.norm() * tgt.norm(), tol=1e-6)
        ctx.check('size/scale-positive', a.scale > 0)
    # ---- target synthesised by a member of the family: recovered exactly
    if cls == 'AlignmentTranslation':
        t = ctx.reals('g_t', d)
        g = S.PointCloud(P + t)
        b = T.AlignmentTranslation(src, g)
        ctx.check_eq('recover/translation', b.translation_component, t)
    elif cls == 'AlignmentUniformScale':
        k = ctx.real('g_k', lo=0.01, hi=100.0)
        g = S.PointCloud(P * k)
        b = T.AlignmentUniformScale(src, g)
        ctx.check_eq('recover/scale', b.scale, k, tol=1e-6)
    else:
        m, _ = B.build(ctx, 'Affine', d, 'g')
        g = S.PointCloud(m.apply(P))
        b = T.AlignmentAffine(src, g)
        ctx.check_eq('recover/affine-matrix', b.h_matrix, m.h_matrix, tol=1e-5)
    ctx.check_eq('recover/zero-error', np.asarray(b.aligned_source().points), np.asarray(g.points), tol=1e-5)


@contract('C07', 'rotation_is_proper_orthogonal', configs=[dict(d=d, allow_mirror=am) for d in (2,) for am in (False, True)],
          max_paths=16, functions=['menpo.transform.homogeneous.rotation:optimal_rotation_matrix',
                                   'menpo.transform.homogeneous.rotation:AlignmentRotation.__init__'])
def rotation_is_proper_orthogonal(ctx, d, allow_mirror):
    """with the svd dependency contract: the fitted rotation is orthogonal, is
    U.E.Vt for the svd of target^T.source with E = diag(1..1, +-1), and is never a
    reflection unless mirroring was allowed."""
    T, S = B.menpo_mods()
    n = d + 1
    src = B.cloud(ctx, 'src', n, d, scale=3.0)
    tgt = B.cloud(ctx, 'tgt', n, d, scale=3.0)
    a = T.AlignmentRotation(src, tgt, allow_mirror=allow_mirror)
    R = a.rotation_matrix
    I = np.zeros((d, d), dtype=object); I[...] = 0
    for i in range(d):
        I[i, i] = 1
    ctx.check_eq('orthogonal', R.T.dot(R), I, tol=1e-7)
    ctx.check_eq('no-translation', a.translation_component, np.zeros(d, dtype=int))
    if ctx.sym:
        from vp import stubs
        U, s, Vt = stubs.svd(np.asarray(tgt.points).T.dot(np.asarray(src.points)))
    else:
        U, s, Vt = np.linalg.svd(tgt.points.T.dot(src.points))
    dUV = B.det(U.dot(Vt))
    E = I.copy()
    if not allow_mirror:
        if (dUV < 0):
            E[d - 1, d - 1] = -1
    ctx.check_eq('built-from-svd:R==U.E.Vt', R, U.dot(E).dot(Vt), tol=1e-7)
    if not allow_mirror:
        ctx.check('never-a-reflection:det(R)>=0', B.det(R) >= 0)


@contract('C07', 'uniform_scale_native', level='bounded', native_samples=10, tol=1e-7,
          configs=[dict(d=d, noise=nz) for d in (2, 3) for nz in (0.0, 0.5)],
          functions=['menpo.transform.homogeneous.scale:AlignmentUniformScale.__init__', 'menpo.shape.pointcloud:PointCloud.norm'])
def uniform_scale_native(ctx, d, noise):
    """bounded stand-in (the sqrt-of-sum goals do not discharge within budget,
    so per DESIGN 10 they are demoted): exact recovery of a uniform scale and
    reproduction of the target's overall size."""
    T, S = B.menpo_mods()
    rs = ctx.nprng
    n = rs.randint(d + 1, 9)
    P = rs.randn(n, d) * 3 + rs.randn(d)
    k = rs.uniform(0.05, 20)
    G = k * P + noise * rs.randn(n, d)
    src, tgt = S.PointCloud(P), S.PointCloud(G)
    a = T.AlignmentUniformScale(src, tgt)
    ctx.check_eq('size/norm(aligned)==norm(target)', a.aligned_source().norm(), tgt.norm())
    ctx.check_true('scale-positive', a.scale > 0)
    if noise == 0.0:
        ctx.check_eq('recover/scale', a.scale, k)
        ctx.check_eq('recover/zero-error', a.aligned_source().points, G)
    ctx.check_eq('is-uniform-scale-about-origin', a.apply(P), a.scale * P)


def _kabsch(src, tgt, allow_mirror):
    U, s, Vt = np.linalg.svd(tgt.T.dot(src))
    E = np.eye(src.shape[1])
    if not allow_mirror and np.linalg.det(U.dot(Vt)) < 0:
        E[-1, -1] = -1
    return U.dot(E).dot(Vt)


@contract('C07', 'rotation_similarity_native', level='bounded', native_samples=10, tol=1e-6,
          configs=[dict(cls=c, d=d, am=am, rot=r, noise=nz, mirrored=mi) for c in ('AlignmentRotation', 'AlignmentSimilarity') for d in (2, 3)
                   for am in (False, True) for r in ((True, False) if c == 'AlignmentSimilarity' else (True,)) for nz in (0.0, 0.3)
                   for mi in (False, True)] +
          [dict(cls=c, d=3, am=False, rot=True, noise=0.0, mirrored=False, flat=f) for c in ('AlignmentRotation', 'AlignmentSimilarity') for f in ('plane', 'three-points')],
          functions=['menpo.transform.homogeneous.similarity:procrustes_alignment', 'menpo.transform.homogeneous.rotation:optimal_rotation_matrix'])
def rotation_similarity_native(ctx, cls, d, am, rot, noise, mirrored, flat=None):
    """bounded stand-in (svd of data-dependent matrices): exact recovery of a
    rotation / similarity, least-squares optimality against an independent
    Kabsch reference and against random family members, centroid and size."""
    T, S = B.menpo_mods()
    rs = ctx.nprng
    n = rs.randint(d + 1, 9)
    P = rs.randn(n, d) * 3 + rs.randn(d)
    if flat:
        # non-degenerate 3-D point sets that span only a plane (a planar landmark set, or exactly three points): the correlation
        # matrix is rank-deficient, the proper rotation is still unique
        n = 3 if flat == 'three-points' else rs.randint(4, 8)
        P2 = np.hstack([rs.randn(n, 2) * 3, np.zeros((n, 1))])
        W0, _ = np.linalg.qr(rs.randn(3, 3))
        if np.linalg.det(W0) < 0:
            W0[:, 0] *= -1
        P = P2.dot(W0.T) + (rs.randn(3) if flat == 'plane' else 0)
    q = rs.randn(d, d)
    Q, _ = np.linalg.qr(q)
    if np.linalg.det(Q) < 0:
        Q[:, 0] *= -1
    if mirrored:
        Q[:, 0] *= -1                     # the data are a mirrored copy (the best orthogonal fit is a reflection)
    recoverable = noise == 0.0 and (am or not mirrored)
    src = S.PointCloud(P)
    if cls == 'AlignmentRotation':
        G = P.dot(Q.T) + noise * rs.randn(n, d)
        a = T.AlignmentRotation(src, S.PointCloud(G), allow_mirror=am)
        Rref = _kabsch(P, G, am)
        ctx.check_eq('optimal/==kabsch-reference', a.rotation_matrix, Rref)
        ctx.check_eq('orthogonal', a.rotation_matrix.T.dot(a.rotation_matrix), np.eye(d))
        if recoverable:
            ctx.check_eq('recover/rotation', a.rotation_matrix, Q, tol=1e-6)
        e0 = np.linalg.norm(G - a.apply(P))
        for _ in range(20):
            W, _r = np.linalg.qr(rs.randn(d, d))
            if not am and np.linalg.det(W) < 0:
                W[:, 0] *= -1
            ctx.check_true('optimal/no-better-random-member', e0 <= np.linalg.norm(G - P.dot(W.T)) + 1e-9)
        if not am:
            ctx.check_true('proper', np.linalg.det(a.rotation_matrix) > 0)
    else:
        k = rs.uniform(0.3, 3)
        t = rs.randn(d) * 2
        Qm = Q if rot else np.eye(d)
        G = k * P.dot(Qm.T) + t + noise * rs.randn(n, d)
        tg = S.PointCloud(G)
        a = T.AlignmentSimilarity(src, tg, rotation=rot, allow_mirror=am)
        al = a.aligned_source()
        ctx.check_eq('centroid', al.centre(), tg.centre())
        ctx.check_eq('size', al.norm(), tg.norm())
        if recoverable or (noise == 0.0 and not rot and not mirrored):
            if rot or not mirrored:
                ctx.check_eq('recover/similarity', al.points, G, tol=1e-6)
        if rot:
            Pc = (P - P.mean(0)) * (tg.norm() / src.norm())
            Rref = _kabsch(Pc, G - G.mean(0), am)
            L = a.linear_component / (tg.norm() / src.norm())
            ctx.check_eq('least-squares-rotation==kabsch', L, Rref, tol=1e-6)
        else:
            ctx.check_eq('no-rotation', a.linear_component, np.eye(d) * (tg.norm() / src.norm()), tol=1e-9)


@contract('C07', 'pwa_affine_and_continuous', configs=[dict(n_tris=1), dict(n_tris=2)], max_paths=200, functions=[
    'menpo.transform.piecewiseaffine.base:alpha_beta', 'menpo.transform.piecewiseaffine.base:barycentric_vectors',
    'menpo.transform.piecewiseaffine.base:AbstractPWA._apply', 'menpo.transform.piecewiseaffine.base:AbstractPWA._rebuild_target_vectors'])
def pwa_affine_and_continuous(ctx, n_tris):
    """vertices go to target vertices; inside a source triangle the map is the
    affine map of that triangle; across a shared edge the two triangles'
    affine maps agree (continuity)."""
    T, S = B.menpo_mods()
    from menpo.transform.piecewiseaffine.base import alpha_beta
    src, tgt, trilist = pwa_setup(ctx, n_tris)
    pwa = T.PiecewiseAffine(src, tgt)
    sp, tp = np.asarray(src.points), np.asarray(tgt.points)
    ctx.check_eq('vertices->target-vertices', pwa.apply(sp.copy()), tp)

    def tri_affine(k, x):
        """the affine map of triangle k evaluated through the real alpha_beta()"""
        al, be = alpha_beta(pwa.s, pwa.sij, pwa.sik, x)
        return pwa.ti[k] + al[:, k][:, None] * pwa.tij[k] + be[:, k][:, None] * pwa.tik[k]
    # affine inside: barycentric combination of the source triangle goes to the same combination of the target triangle
    for k in range(n_tris):
        i, j, l = trilist[k]
        u = ctx.real('u%d' % k); v = ctx.real('v%d' % k)
        x = (sp[i] + u * (sp[j] - sp[i]) + v * (sp[l] - sp[i])).reshape(1, 2)
        ctx.check_eq('triangle%d/affine-map' % k, tri_affine(k, x), (tp[i] + u * (tp[j] - tp[i]) + v * (tp[l] - tp[i])).reshape(1, 2))
    if n_tris == 1:
        al = ctx.real('al', lo=0.05, hi=0.9); be = ctx.real('be', lo=0.05, hi=0.9)
        ctx.assume(al + be < 0.95, 'inside')
        x = (sp[0] + al * (sp[1] - sp[0]) + be * (sp[2] - sp[0])).reshape(1, 2)
        ctx.check_eq('apply==triangle-affine-map-inside', pwa.apply(x), tri_affine(0, x))
    else:
        lam = ctx.real('lam')
        e = (sp[1] + lam * (sp[2] - sp[1])).reshape(1, 2)        # a point of the shared edge (1,2)
        ctx.check_eq('continuous-across-shared-edge', tri_affine(0, e), tri_affine(1, e))
