"""C06 — copies are equal and fully independent; attached landmarks are owned copies."""
from collections import OrderedDict

import numpy as np
import scipy.sparse as sp

from vp.registry import contract
from . import builders as B
from .state import state_of, compare_states, shared_storage, storage_of
from .c03 import _opaque_transform
from .c04 import pwa_setup, tps_coefficients_contract, distinct

TRUSTED = []
ASSUMPTIONS = [
    'G4: disjoint reachable mutable storage => nothing done to one object is visible in the other (paper argument); additionally cross-checked by writing into every reachable array of each side',
    'copy() contains no value-dependent branch (certified per run: no fork occurs), so one symbolic-valued run per configuration covers all values',
]

COPY_KINDS = (['shape:%s' % c for c in B.SHAPE_CLASSES] + ['image:Image', 'image:MaskedImage', 'image:MaskedImagePartial', 'image:BooleanImage',
              'LandmarkManager'] + ['homog:%s' % c for c in B.HOMOG_ALL] +
              ['TransformChain', 'ThinPlateSplines', 'PiecewiseAffine', 'R2LogR2RBF', 'WithDims',
               'LinearVectorModel', 'MeanLinearVectorModel', 'PCAVectorModel', 'PCAVectorModel:trimmed', 'PCAModel', 'LazyList'])


def make(ctx, kind, d):
    T, S = B.menpo_mods()
    shared_ok = ()
    if kind.startswith('shape:'):
        o = B.shape(ctx, kind[6:], d, 's', landmarks=2)
    elif kind.startswith('image:'):
        cls = kind[6:]
        shape = (2, 3) if d == 2 else (2, 2, 2)
        m = None
        if cls == 'MaskedImagePartial':
            m = (np.arange(int(np.prod(shape))).reshape(shape) % 2 == 0)
        o = B.image(ctx, cls.replace('Partial', ''), shape, 2, mask=m, landmarks=2)
    elif kind == 'LandmarkManager':
        o = B.shape(ctx, 'PointCloud', d, 's', landmarks=3).landmarks
    elif kind.startswith('homog:'):
        o, _ = B.build_any(ctx, kind[6:], d, 't')
        if kind[6:].startswith('Alignment'):
            shared_ok = ('_source', '_target')      # documented sharing
    elif kind == 'TransformChain':
        a, _ = B.build(ctx, 'Affine', d, 'ta')
        o = T.TransformChain([a, _opaque_transform(ctx, 'G', d)])
        shared_ok = ('transforms',)                  # members shared by design (the list object is checked separately)
    elif kind == 'ThinPlateSplines':
        src = B.cloud(ctx, 'src', 3, 2, scale=3.0)
        tgt = B.cloud(ctx, 'tgt', 3, 2, scale=3.0)
        distinct(ctx, src.points)
        with tps_coefficients_contract(ctx):
            o = T.ThinPlateSplines(src, tgt)
        shared_ok = ('_source', '_target')
    elif kind == 'PiecewiseAffine':
        src, tgt, _ = pwa_setup(ctx, 2)
        o = T.PiecewiseAffine(src, tgt)
        shared_ok = ('_source', '_target', '_applied_points', '_iab')
    elif kind == 'R2LogR2RBF':
        o = T.R2LogR2RBF(ctx.reals('c', (3, d)))
    elif kind == 'WithDims':
        o = T.WithDims(np.array([1, 0]))
    elif kind in ('LinearVectorModel', 'MeanLinearVectorModel'):
        from menpo.model import LinearVectorModel, MeanLinearVectorModel
        C = ctx.reals('C', (2, 4))
        o = LinearVectorModel(C) if kind == 'LinearVectorModel' else MeanLinearVectorModel(C, ctx.reals('mu', 4))
    elif kind.startswith('PCAVectorModel'):
        from menpo.model import PCAVectorModel
        o = PCAVectorModel.init_from_components(ctx.reals('C', (3, 4)), ctx.reals('e', 3, lo=0.1), ctx.reals('mu', 4), 7, True)
        if kind.endswith('trimmed'):
            o.trim_components(2)
    elif kind == 'PCAModel':
        from menpo.model import PCAModel
        tmpl = B.cloud(ctx, 'tmpl', 2, d)
        o = PCAModel.init_from_components(ctx.reals('C', (3, 2 * d)), ctx.reals('e', 3, lo=0.1), tmpl, 7, True)
    elif kind == 'LazyList':
        from menpo.base import LazyList
        o = LazyList.init_from_iterable([1, 2, 3])
    else:
        raise KeyError(kind)
    return o, shared_ok


def _cfgs(tier):
    out = []
    for k in COPY_KINDS:
        for d in (2, 3):
            if d == 3 and k in ('ThinPlateSplines', 'PiecewiseAffine', 'WithDims', 'LazyList', 'LinearVectorModel',
                                'MeanLinearVectorModel', 'PCAVectorModel', 'PCAVectorModel:trimmed'):
                continue
            out.append(dict(kind=k, d=d))
    return out


def _poke(arr):
    """overwrite one element of an array / sparse part with a different value."""
    if arr.size == 0 or not arr.flags.writeable:
        return False
    flat = arr.reshape(-1) if arr.flags.c_contiguous else None
    if flat is None:
        return False
    if arr.dtype == bool:
        flat[0] = not flat[0]
    elif arr.dtype == object:
        flat[0] = 12345
    else:
        flat[0] = flat[0] + 7
    return True


@contract('C06', 'copy_equal_and_separate', configs=_cfgs, functions=[
    'menpo.base:Copyable.copy', 'menpo.landmark.base:LandmarkManager.copy', 'menpo.shape.labelled:LabelledPointUndirectedGraph.copy',
    'menpo.transform.homogeneous.base:HomogFamilyAlignment.copy', 'menpo.base:LazyList.copy'])
def copy_equal_and_separate(ctx, kind, d):
    from vp.sreal import ENG
    o, shared_ok = make(ctx, kind, d)
    before = state_of(o)
    n_dec = len(ENG.decisions) if ctx.sym else 0
    c = o.copy()
    if ctx.sym:
        ctx.check_true('copy/no-value-dependent-branch', len(ENG.decisions) == n_dec)
    ctx.check_true('copy/new-object', c is not o and type(c) is type(o))
    compare_states(ctx, 'copy/equal', state_of(c), before)
    compare_states(ctx, 'copy/original-unchanged', state_of(o), before)
    bad = shared_storage(c, o, shared_ok=shared_ok)
    ctx.check_true('copy/storage-disjoint', not bad, 'shared: %s' % bad[:4])
    if kind == 'TransformChain':
        ctx.check_true('copy/chain-list-object-separate', c.transforms is not o.transforms)
        c.transforms.append(o.transforms[0])
        ctx.check_true('copy/chain-append-not-visible', len(o.transforms) == 2)
        c.transforms.pop()
    if kind == 'LazyList':
        ctx.check_true('copy/list-object-separate', c._callables is not o._callables)
    # cross-check: write into every reachable array of the copy, original must not move (and vice versa)
    for side, (x, y) in (('copy', (c, o)), ('original', (o, c))):
        ref = state_of(y)
        n = 0
        for path, st in storage_of(x, shared_ok=shared_ok):
            if isinstance(st, np.ndarray):
                n += bool(_poke(st))
        compare_states(ctx, 'write-into-%s/other-side-unchanged' % side, state_of(y), ref)
        ctx.check_true('write-into-%s/something-was-written' % side, n > 0 or kind in ('LazyList', 'WithDims', 'TransformChain'))


# ------------------------------------------------------------ public mutators
@contract('C06', 'mutators_do_not_leak', configs=[dict(case=c) for c in
          ('inplace-compose', 'set_target', 'landmark-assign', 'landmark-delete', 'trim', 'n_active', 'components-setter', 'from_vector_inplace')],
          functions=['menpo.base:Copyable.copy', 'menpo.landmark.base:LandmarkManager.__setitem__', 'menpo.landmark.base:LandmarkManager.__delitem__',
                     'menpo.model.pca:PCAVectorModel.trim_components', 'menpo.model.linear:LinearVectorModel.components'])
def mutators_do_not_leak(ctx, case):
    """public mutators applied to a copy are invisible in the original, and vice versa."""
    T, S = B.menpo_mods()
    if case == 'inplace-compose':
        o, _ = B.build(ctx, 'Affine', 2, 't')
        m, _ = B.build(ctx, 'Affine', 2, 'm')
        act = lambda z: z.compose_before_inplace(m)
    elif case == 'set_target':
        o, _ = B.build_any(ctx, 'AlignmentTranslation', 2, 't')
        nt = B.cloud(ctx, 'nt', 3, 2)
        act = lambda z: z.set_target(nt)
    elif case in ('landmark-assign', 'landmark-delete'):
        o = B.shape(ctx, 'TriMesh', 2, 's', landmarks=2)
        g = B.cloud(ctx, 'g', 2, 2)
        if case == 'landmark-assign':
            act = lambda z: z.landmarks.__setitem__('new', g)
        else:
            act = lambda z: z.landmarks.__delitem__(list(z.landmarks)[0])
    elif case in ('trim', 'n_active', 'components-setter'):
        from menpo.model import PCAVectorModel
        o = PCAVectorModel.init_from_components(ctx.reals('C', (3, 4)), ctx.reals('e', 3, lo=0.1), ctx.reals('mu', 4), 7, True)
        if case == 'trim':
            act = lambda z: z.trim_components(2)
        elif case == 'n_active':
            def act(z):
                z.n_active_components = 1
        else:
            newc = ctx.reals('N', (3, 4))

            def act(z):
                z.components = newc
    else:
        o = B.shape(ctx, 'PointCloud', 2, 's', landmarks=1)
        w = ctx.reals('w', 8)
        act = lambda z: z._from_vector_inplace(w)
    for side in ('copy', 'original'):
        c = o.copy()
        x, y = (c, o) if side == 'copy' else (o, c)
        ref = state_of(y)
        act(x)
        compare_states(ctx, '%s/mutate-%s/other-side-unchanged' % (case, side), state_of(y), ref)


# ------------------------------------------------------- landmark manager ops
def _mgr(ctx, k, d=2):
    """a landmarkable owner with k groups of rotating classes"""
    return B.shape(ctx, 'PointCloud', d, 'own', n=3, landmarks=k)


def view(m):
    return [(g, state_of(m._landmark_groups[g])) for g in m._landmark_groups]


@contract('C06', 'landmark_manager_ops', configs=[dict(k=k, op=op) for k in (0, 1, 2, 3) for op in
          ('set-new', 'set-existing', 'set-None', 'set-wrong-dim', 'set-non-shape', 'get-None', 'get', 'delete', 'iterate', 'copy',
           'assign-to-owner', 'assign-own-manager-back', 'assign-to-owner-with-landmarks', 'assign-wrong-dim-to-owner', 'transform-owner')],
          functions=['menpo.landmark.base:LandmarkManager.__setitem__', 'menpo.landmark.base:LandmarkManager.__getitem__',
                     'menpo.landmark.base:LandmarkManager.__delitem__', 'menpo.landmark.base:LandmarkManager.__iter__',
                     'menpo.landmark.base:LandmarkManager.__len__', 'menpo.landmark.base:LandmarkManager.n_dims',
                     'menpo.landmark.base:LandmarkManager.copy', 'menpo.landmark.base:LandmarkManager._transform_inplace',
                     'menpo.landmark.base:Landmarkable.landmarks'])
def landmark_manager_ops(ctx, k, op):
    """per-operation contract over the abstract view (ordered keys -> group
    state, all groups owned copies, one dimensionality).  Each operation
    re-establishes the invariant, so the statement extends to every finite
    history (G0)."""
    T, S = B.menpo_mods()
    owner = _mgr(ctx, k)
    m = owner.landmarks
    v0 = view(m)
    keys0 = [g for g, _ in v0]

    def inv(mm, tag):
        ctx.check_true(tag + '/inv/one-dimensionality', len({g.n_dims for g in mm._landmark_groups.values()}) <= 1)
        ctx.check_true(tag + '/inv/ordered-dict', isinstance(mm._landmark_groups, OrderedDict))
    inv(m, 'pre')
    if op in ('set-new', 'set-existing'):
        if op == 'set-existing' and k == 0:
            return
        key = 'fresh' if op == 'set-new' else keys0[0]
        val = B.shape(ctx, 'PointUndirectedGraph', 2, 'val', n=3, landmarks=1)
        vstate = state_of(val)
        m[key] = val
        want_keys = keys0 + ['fresh'] if op == 'set-new' else keys0
        ctx.check_true('keys-insertion-order', list(m) == want_keys, '%s vs %s' % (list(m), want_keys))
        compare_states(ctx, 'stored-equals-assigned', state_of(m[key]), vstate)
        ctx.check_true('stored-is-a-copy', m[key] is not val and not shared_storage(m[key], val))
        for g, st in v0:
            if g != key:
                compare_states(ctx, 'others-untouched[%s]' % g, state_of(m[g]), st)
        # later edits of the assigned value do not reach the stored group
        stored = state_of(m[key])
        for path, st in storage_of(val):
            if isinstance(st, np.ndarray):
                _poke(st)
        val.landmarks['extra'] = B.cloud(ctx, 'extra', 2, 2)
        compare_states(ctx, 'later-edit-of-assigned-value-invisible', state_of(m[key]), stored)
    elif op == 'set-None':
        val = B.cloud(ctx, 'val', 2, 2)
        ctx.check_true('None-key-refused', ctx.raises(ValueError, m.__setitem__, None, val))
        ctx.check_true('state-unchanged', [g for g in m] == keys0)
    elif op == 'set-wrong-dim':
        val = B.cloud(ctx, 'val', 2, 3)
        if k == 0:
            m['x'] = val          # empty manager adopts any dimensionality
            ctx.check_true('empty-manager-accepts', list(m) == ['x'])
        else:
            ctx.check_true('dimension-mismatch-refused', ctx.raises(ValueError, m.__setitem__, 'x', val))
            ctx.check_true('state-unchanged', [g for g in m] == keys0)
            for g, st in v0:
                compare_states(ctx, 'others-untouched[%s]' % g, state_of(m[g]), st)
    elif op == 'set-non-shape':
        ctx.check_true('non-shape-refused', ctx.raises((ValueError, AttributeError), m.__setitem__, 'x', np.zeros((2, 2))))
        ctx.check_true('state-unchanged', [g for g in m] == keys0)
    elif op == 'get-None':
        if k == 1:
            ctx.check_true('None-resolves-to-the-single-group', m[None] is m[keys0[0]])
        else:
            ctx.check_true('None-refused-unless-exactly-one-group', ctx.raises(ValueError, m.__getitem__, None))
    elif op == 'get':
        for g, st in v0:
            compare_states(ctx, 'get[%s]' % g, state_of(m[g]), st)
        ctx.check_true('missing-key-raises', ctx.raises(KeyError, m.__getitem__, 'no-such-group'))
        ctx.check_true('len', len(m) == k and m.n_groups == k)
    elif op == 'delete':
        if k == 0:
            ctx.check_true('delete-missing-raises', ctx.raises(KeyError, m.__delitem__, 'no-such-group'))
            return
        del m[keys0[-1 if k < 3 else 1]]
        gone = keys0[-1 if k < 3 else 1]
        ctx.check_true('keys-order-kept', list(m) == [g for g in keys0 if g != gone])
        for g, st in v0:
            if g != gone:
                compare_states(ctx, 'others-untouched[%s]' % g, state_of(m[g]), st)
    elif op == 'iterate':
        ctx.check_true('iteration-order', list(iter(m)) == keys0 and list(m.keys()) == keys0 and m.group_labels == keys0)
        ctx.check_true('n_dims', m.n_dims == (2 if k else None))
    elif op == 'copy':
        c = m.copy()
        ctx.check_true('copy/keys-order', list(c) == keys0)
        for g, st in v0:
            compare_states(ctx, 'copy/group[%s]' % g, state_of(c[g]), st)
        ctx.check_true('copy/separate', not shared_storage(c, m))
    elif op == 'assign-to-owner':
        other = B.shape(ctx, 'TriMesh', 2, 'oth', n=3)
        other.landmarks = m
        ctx.check_true('owner-gets-a-copy', other.landmarks is not m and not shared_storage(other.landmarks, m))
        ctx.check_true('owner/keys-order', list(other.landmarks) == keys0)
        for g, st in v0:
            compare_states(ctx, 'owner/group[%s]' % g, state_of(other.landmarks[g]), st)
        if k:
            # editing the assigned manager afterwards is invisible to the owner
            snap = view(other.landmarks)
            m['later'] = B.cloud(ctx, 'later', 2, 2)
            del m[keys0[0]]
            ctx.check_true('owner/later-edit-invisible', [g for g, _ in view(other.landmarks)] == [g for g, _ in snap])
    elif op == 'assign-own-manager-back':
        # the value assigned is the very manager the owner holds (obj.landmarks = obj.landmarks,
        # copy_landmarks_and_path(obj, obj), a kept reference): nothing may be lost
        kept_ref = owner.landmarks
        owner.landmarks = kept_ref
        ctx.check_true('own-manager/keys-order-kept', list(owner.landmarks) == keys0, '%s vs %s' % (list(owner.landmarks), keys0))
        for g, st in v0:
            if g in owner.landmarks:
                compare_states(ctx, 'own-manager/group[%s]' % g, state_of(owner.landmarks[g]), st)
        inv(owner.landmarks, 'own-manager')
    elif op == 'assign-to-owner-with-landmarks':
        # the receiving object already has groups of its own: they are replaced, not merged
        other = B.shape(ctx, 'TriMesh', 2, 'oth', n=3, landmarks=2)
        other.landmarks = m
        ctx.check_true('replaced/keys-are-the-assigned-ones', list(other.landmarks) == keys0, '%s vs %s' % (list(other.landmarks), keys0))
        ctx.check_true('replaced/owner-gets-a-copy', other.landmarks is not m and not shared_storage(other.landmarks, m))
        for g, st in v0:
            compare_states(ctx, 'replaced/group[%s]' % g, state_of(other.landmarks[g]), st)
        ctx.check_true('replaced/assigned-manager-untouched', [g for g, _ in view(m)] == keys0)
    elif op == 'assign-wrong-dim-to-owner':
        other = B.shape(ctx, 'PointCloud', 3, 'oth', n=3)
        if k == 0:
            other.landmarks = m
            ctx.check_true('empty-manager-accepted', other.landmarks.n_groups == 0)
        else:
            def setit():
                other.landmarks = m
            ctx.check_true('dimension-mismatch-refused', ctx.raises(ValueError, setit))
            ctx.check_true('owner-still-without-landmarks', not other.has_landmarks)
    elif op == 'transform-owner':
        t = _opaque_transform(ctx, 'F', 2)
        F = ctx.opaque('F', 2, 2)
        r = t.apply(owner)
        ctx.check_true('transform/keys-order', list(r.landmarks) == keys0 if k else not r.has_landmarks)
        for g, st in v0:
            ctx.check_eq('transform/group[%s]-moved' % g, r.landmarks[g].points, F(np.asarray(owner.landmarks[g].points)))
            compare_states(ctx, 'transform/original-group[%s]-unchanged' % g, state_of(m[g]), st)
    inv(m, 'post')
