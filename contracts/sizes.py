"""Bounded contracts: the same laws *at scale*.

The symbolic engine fixes array sizes per configuration (a handful of points,
2x2 .. 8x8 images, graphs of <= 5 vertices, sequences of <= 3 operations),
and most bounded contracts were written at similar sizes.  A change that is
right on small inputs and wrong above a size threshold (a blocked / chunked
fast path, a narrow integer type, a buffer sized for the common case, a
threshold chosen by size) is invisible to all of them.  The contracts here
re-state one clause per property against an independent reference on inputs
that cross the usual thresholds: sizes just below / at / above powers of two
from 8 up to 2**16, depending on what the operation costs.

All are level='bounded' (run-time contracts on concrete inputs); none is
counted as proved.
"""
import os
import tempfile

import numpy as np

from vp.registry import contract
from . import builders as B
from .personas import close

SIZES_SMALL = (9, 17, 33, 65)              # just above 8, 16, 32, 64
SIZES_BYTE = (255, 256, 257, 300, 513)     # around one byte / two bytes of index


def _grid(n_side, rs, jitter=0.2, d=2):
    g = np.stack(np.meshgrid(np.arange(n_side, dtype=float), np.arange(n_side, dtype=float), indexing='ij'), -1).reshape(-1, 2)
    g = g + rs.uniform(-jitter, jitter, size=g.shape)
    return g


def _smooth_warp(p):
    """a smooth non-affine deformation of the plane"""
    q = p.copy()
    q[:, 0] = p[:, 0] * 1.1 + 0.3 * np.sin(p[:, 1] / 3.0) + 0.5
    q[:, 1] = p[:, 1] * 0.9 + 0.2 * np.cos(p[:, 0] / 2.0) - 0.25
    return q


def _bary_points(src, trilist, rs, per_tri=1):
    """points strictly inside the given triangles, and the triangle of each"""
    a, b, c = src[trilist[:, 0]], src[trilist[:, 1]], src[trilist[:, 2]]
    out, owner = [], []
    for k in range(per_tri):
        w = rs.dirichlet([3, 3, 3], size=len(trilist))
        out.append(w[:, :1] * a + w[:, 1:2] * b + w[:, 2:] * c)
        owner.append(np.arange(len(trilist)))
    return np.vstack(out), np.concatenate(owner), None


# ---------------------------------------------------------------- C02 / C07 / C09: piecewise affine on large triangulations
@contract('C07', 'large_triangulations', level='bounded', native_samples=1, configs=[dict(side=s) for s in (5, 12, 14, 19)],
          functions=['menpo.transform.piecewiseaffine.base:AbstractPWA.__init__', 'menpo.transform.piecewiseaffine.base:CachedPWA._apply',
                     'menpo.transform.piecewiseaffine.base:containment_from_alpha_beta', 'menpo.transform.piecewiseaffine.base:alpha_beta'])
def c07_large_pwa(ctx, side):
    """piecewise-affine alignments on triangulations of 32 .. 648 triangles:
    source landmarks go onto target landmarks, the alignment error is zero,
    and a point inside triangle k is mapped with triangle k's affine map."""
    T, S = B.menpo_mods()
    rs = ctx.nprng
    src = _grid(side, rs)
    tgt = _smooth_warp(src)
    sm = S.TriMesh(src)
    tl = sm.trilist
    t = T.PiecewiseAffine(sm, S.TriMesh(tgt, trilist=tl.copy()))
    ctx.case('triangles=%d' % len(tl), True)
    close(ctx, 'n_tris=%d/source-landmarks-onto-target-landmarks' % len(tl), t.apply(src.copy()), tgt, 1e-8)
    close(ctx, 'n_tris=%d/aligned_source==target' % len(tl), t.aligned_source().points, tgt, 1e-8)
    close(ctx, 'n_tris=%d/alignment_error==0' % len(tl), t.alignment_error(), 0.0, 1e-8)
    x, owner, _ = _bary_points(src, tl, rs)
    a, b, c = src[tl[owner, 0]], src[tl[owner, 1]], src[tl[owner, 2]]
    # barycentric coordinates in the source triangle carry over to the target triangle
    M = np.stack([b - a, c - a], -1)
    w = np.linalg.solve(M, (x - a)[..., None])[..., 0]
    ta, tb, tc = tgt[tl[owner, 0]], tgt[tl[owner, 1]], tgt[tl[owner, 2]]
    want = ta + w[:, :1] * (tb - ta) + w[:, 1:] * (tc - ta)
    close(ctx, 'n_tris=%d/interior-points-use-their-own-triangle' % len(tl), t.apply(x.copy()), want, 1e-8)
    # the same rows, few at a time (a dtype or path chosen by the number of points must not matter)
    for k in (1, 7, 200):
        sel = rs.choice(len(x), size=min(k, len(x)), replace=False)
        close(ctx, 'n_tris=%d/%d-points-alone==same-rows-of-the-full-call' % (len(tl), len(sel)), t.apply(x[sel].copy()), want[sel], 1e-8)


@contract('C02', 'large_piecewise_affine_moves_landmarks_with_points', level='bounded', native_samples=1, configs=[dict(side=s) for s in (6, 14, 18)],
          functions=['menpo.transform.base:Transform.apply', 'menpo.transform.piecewiseaffine.base:containment_from_alpha_beta'])
def c02_large_pwa(ctx, side):
    """a big shape (hundreds of points) with small landmark groups that are
    subsets of its points, through a piecewise-affine warp with many
    triangles: every landmark lands where the corresponding point lands."""
    T, S = B.menpo_mods()
    rs = ctx.nprng
    src = _grid(side, rs)
    tgt = _smooth_warp(src)
    sm = S.TriMesh(src)
    t = T.PiecewiseAffine(sm, S.TriMesh(tgt, trilist=sm.trilist.copy()))
    x, _, _ = _bary_points(src, sm.trilist, rs, per_tri=2)
    pc = S.PointCloud(x.copy())
    groups = {}
    for k in (1, 8, 100, 254, 255, 256):
        if k <= len(x):
            sel = np.sort(rs.choice(len(x), size=k, replace=False))
            groups['g%d' % k] = sel
            pc.landmarks['g%d' % k] = S.PointCloud(x[sel].copy())
    before = x.copy()
    r = t.apply(pc)
    for nm, sel in groups.items():
        close(ctx, 'n_tris=%d/landmark-group[%s]-moved-like-its-points' % (sm.n_tris, nm), r.landmarks[nm].points, r.points[sel], 1e-9)
    close(ctx, 'n_tris=%d/bare-array-agrees' % sm.n_tris, t.apply(x.copy()), r.points, 1e-12)
    ctx.check_true('input-unchanged', np.array_equal(pc.points, before))


@contract('C09', 'batching_many_points', level='bounded', native_samples=1, configs=[dict(which=w) for w in ('pwa-delaunay', 'pwa-overlapping', 'tps', 'affine', 'chain')],
          functions=['menpo.transform.base:Transform._apply_batched', 'menpo.transform.piecewiseaffine.base:CachedPWA._apply_batched',
                     'menpo.transform.piecewiseaffine.base:containment_from_alpha_beta'])
def c09_batching_many(ctx, which):
    """hundreds of points - including points on shared edges and vertices of
    the triangulation - applied whole, in batches of every size around the
    usual thresholds, and slice by slice: the same numbers."""
    T, S = B.menpo_mods()
    rs = ctx.nprng
    src = _grid(6, rs, jitter=0.0)
    tgt = _smooth_warp(src)
    if which.startswith('pwa'):
        sm = S.TriMesh(src)
        tl = sm.trilist
        if which == 'pwa-overlapping':
            # a user-supplied triangulation with overlapping triangles (two fans over the same square)
            src = np.array([[0., 0.], [4., 0.], [4., 4.], [0., 4.], [2., 2.]])
            tgt = _smooth_warp(src) + np.array([[0, 0], [0.3, 0], [0, 0.4], [-0.2, 0.1], [0.5, -0.5]])
            tl = np.array([[0, 1, 2], [0, 2, 3], [0, 1, 4], [1, 2, 4], [2, 3, 4], [3, 0, 4]])
            sm = S.TriMesh(src, trilist=tl)
        t = T.PiecewiseAffine(sm, S.TriMesh(tgt, trilist=tl.copy()))
        lo, hi = src.min(0), src.max(0)
        inner = lo + (hi - lo) * rs.uniform(0.02, 0.98, size=(300, 2))
        edge_mid = (src[tl[:, 0]] + src[tl[:, 1]]) / 2.0
        x = np.vstack([inner, edge_mid, src.copy()])
    else:
        if which == 'tps':
            t = T.ThinPlateSplines(S.PointCloud(src[::3]), S.PointCloud(tgt[::3]))
        elif which == 'affine':
            t = T.Affine(np.array([[1.1, 0.2, 0.5], [-0.3, 0.9, 1.5], [0, 0, 1.0]]))
        else:
            t = T.TransformChain([T.Translation([0.5, -1.5]), T.ThinPlateSplines(S.PointCloud(src[::3]), S.PointCloud(tgt[::3])), T.Rotation.init_from_2d_ccw_angle(33)])
        x = rs.uniform(-1, 6, size=(341, 2))
    tol = 1e-9
    whole = t.apply(x.copy())
    for bs in (1, 7, 63, 64, 65, 100, 255, 256, 257, 340, 341, 342, 1000):
        close(ctx, 'batch_size=%d==unbatched' % bs, t.apply(x.copy(), batch_size=bs), whole, tol)
    for k in (1, 10, 64, 65):
        rows = np.vstack([t.apply(x[i:i + k].copy()) for i in range(0, len(x), k)])
        close(ctx, 'slices-of-%d==whole' % k, rows, whole, tol)
    xi = np.round(x).astype(np.int64)
    want = t.apply(xi.astype(np.float64))
    for bs in (None, 64, 100, 400):
        close(ctx, 'integer-points/batch_size=%s==float-points' % bs, t.apply(xi.copy(), batch_size=bs), want, tol)


# ------------------------------------------------------------------------ C01: warps of templates larger than a batch
@contract('C01', 'large_batched_warps', level='bounded', native_samples=1, configs=[dict(cls=c) for c in ('Image', 'MaskedImage')],
          functions=['menpo.image.base:Image.warp_to_shape', 'menpo.image.base:Image.warp_to_mask', 'menpo.transform.base:Transform._apply_batched'])
def c01_large_batched(ctx, cls):
    """templates of 24x28 .. 70x66 pixels warped whole and in batches smaller
    than, equal to and larger than the template: same pixels, mask and
    landmarks; a linear ramp is reproduced exactly under the landmarks."""
    from menpo.image import Image, MaskedImage, BooleanImage
    T, S = B.menpo_mods()
    rs = ctx.nprng
    for shape in ((24, 28), (70, 66)):
        H, W = 90, 80
        yy, xx = np.meshgrid(np.arange(H, dtype=float), np.arange(W, dtype=float), indexing='ij')
        pix = np.stack([0.5 * yy + 0.25 * xx + 3.0, yy - 0.5 * xx])
        img = Image(pix.copy()) if cls == 'Image' else MaskedImage(pix.copy(), mask=rs.rand(H, W) > 0.1)
        lm = np.array([[10.5, 12.25], [30.0, 40.5], [50.75, 20.0]])
        img.landmarks['l'] = S.PointCloud(lm.copy())
        t = T.Affine(np.array([[1.07, 0.12, 4.3], [-0.09, 0.95, 6.6], [0, 0, 1.0]]))
        ref = img.warp_to_shape(shape, t, warp_landmarks=True)
        n = shape[0] * shape[1]
        for bs in (1000000, n, n - 1, 200, 64, 63):
            r = img.warp_to_shape(shape, t, warp_landmarks=True, batch_size=bs)
            close(ctx, 'shape=%s/batch_size=%s/pixels==unbatched' % (shape, 'n' if bs == n else 'n-1' if bs == n - 1 else bs), r.pixels, ref.pixels, 1e-10)
            close(ctx, 'shape=%s/batch_size=%s/landmarks==unbatched' % (shape, 'n' if bs == n else 'n-1' if bs == n - 1 else bs), r.landmarks['l'].points, ref.landmarks['l'].points, 1e-12)
            if cls == 'MaskedImage':
                ctx.check_true('shape=%s/batch_size=%s/mask==unbatched' % (shape, bs), np.array_equal(r.mask.mask, ref.mask.mask))
        # exactness on a linear ramp: the result at q equals the source at T(q)
        q = np.stack(np.meshgrid(np.arange(shape[0], dtype=float), np.arange(shape[1], dtype=float), indexing='ij'), -1).reshape(-1, 2)
        Tq = t.apply(q)
        inside = np.all((Tq >= 1) & (Tq <= np.array([H - 2, W - 2])), axis=1)
        want0 = 0.5 * Tq[:, 0] + 0.25 * Tq[:, 1] + 3.0
        r = img.warp_to_shape(shape, t, batch_size=200)
        close(ctx, 'shape=%s/batched/result(q)==source(T(q))-on-a-linear-ramp' % (shape,), r.pixels[0].reshape(-1)[inside], want0[inside], 1e-9)
        rm = img.warp_to_mask(BooleanImage.init_blank(shape), t, batch_size=64)
        rm0 = img.warp_to_mask(BooleanImage.init_blank(shape), t)
        close(ctx, 'shape=%s/warp_to_mask/batch_size=64==unbatched' % (shape,), rm.pixels, rm0.pixels, 1e-10)


# ------------------------------------------------------------------------ C03: long chains
@contract('C03', 'long_chains', level='bounded', native_samples=2, configs=[dict(d=2)],
          functions=['menpo.transform.base.composable:TransformChain._compose_before_inplace', 'menpo.transform.base.composable:TransformChain._compose_after_inplace',
                     'menpo.transform.base.composable:ComposableTransform.compose_before', 'menpo.transform.base.composable:ComposableTransform.compose_after'])
def c03_long_chains(ctx, d):
    """chains grown link by link up to 20 links, on either side, in place and
    not: the composition law holds at every length, operands stay intact."""
    T, S = B.menpo_mods()
    rs = ctx.nprng
    src = rs.randn(6, 2) * 3
    mk = [lambda: T.Rotation.init_from_2d_ccw_angle(rs.uniform(10, 80)), lambda: T.Translation(rs.randn(2)), lambda: T.NonUniformScale(rs.uniform(0.5, 2, 2)),
          lambda: T.ThinPlateSplines(S.PointCloud(src), S.PointCloud(src + rs.randn(6, 2) * 0.3)), lambda: T.Affine(np.vstack([np.hstack([np.eye(2) + rs.randn(2, 2) * 0.2, rs.randn(2, 1)]), [0, 0, 1]])),
          lambda: T.UniformScale(rs.uniform(0.5, 2), 2)]
    x = rs.randn(5, 2) * 2
    for start_kind in (3, 0):
        chain = mk[start_kind]().compose_before(mk[(start_kind + 1) % 6]())
        f = lambda p, c=chain: c.apply(p)
        links = [chain]
        cur = chain
        ref = lambda p, c=chain: c.apply(p)
        for n in range(3, 21):
            b = mk[rs.randint(0, 6)]()
            side = ('before', 'after')[n % 2]
            inplace = bool((n // 2) % 2)
            prev = cur
            prev_out = prev.apply(x.copy())
            b_out = b.apply(x.copy())
            if side == 'before':
                want = b.apply(prev.apply(x.copy()))
                if inplace and isinstance(prev, T.TransformChain):
                    cur = prev.copy()
                    cur.compose_before_inplace(b)
                else:
                    cur = prev.compose_before(b)
            else:
                want = prev.apply(b.apply(x.copy()))
                if inplace and isinstance(prev, T.TransformChain):
                    cur = prev.copy()
                    cur.compose_after_inplace(b)
                else:
                    cur = prev.compose_after(b)
            nl = len(cur.transforms) if isinstance(cur, T.TransformChain) else 1
            tag = 'start=%s/step%d(%s%s,%s)' % (('tps', 'rotation')[start_kind == 0], n, side, '_inplace' if inplace else '', type(b).__name__)
            close(ctx, tag + '/law', cur.apply(x.copy()), want, 1e-8, 'links=%d' % nl)
            close(ctx, tag + '/left-operand-unchanged', prev.apply(x.copy()), prev_out, 0)
            close(ctx, tag + '/right-operand-unchanged', b.apply(x.copy()), b_out, 0)


# ------------------------------------------------------------------------ C04: thin-plate splines with many landmarks
@contract('C04', 'many_landmark_warps', level='bounded', native_samples=1, configs=[dict(kernel=k) for k in ('default', 'R2LogR2RBF', 'R2LogRRBF')],
          functions=['menpo.transform.thinplatesplines:ThinPlateSplines._build_coefficients', 'menpo.transform.thinplatesplines:ThinPlateSplines.pseudoinverse'])
def c04_many_landmarks(ctx, kernel):
    """thin-plate-spline alignments fitted to 4 .. 129 landmarks: the warp
    interpolates its landmarks, the pseudoinverse swaps source and target and
    sends the target landmarks back onto the source landmarks."""
    T, S = B.menpo_mods()
    rs = ctx.nprng
    for n in (4, 9, 16, 17, 33, 68, 129):
        for scale in (1.0, 100.0):
            side = int(np.ceil(np.sqrt(n)))
            src = (_grid(side, rs, jitter=0.25)[:n]) * scale
            tgt = _smooth_warp(src / scale) * scale
            kw = {} if kernel == 'default' else dict(kernel=getattr(T, kernel)(src))
            t = T.ThinPlateSplines(S.PointCloud(src), S.PointCloud(tgt), **kw)
            tol = 1e-6 * scale
            tag = 'n=%d/scale=%g' % (n, scale)
            ctx.check_true(tag + '/interpolates-its-landmarks', bool(np.abs(t.apply(src.copy()) - tgt).max() <= tol), 'max err %g' % np.abs(t.apply(src.copy()) - tgt).max())
            inv = t.pseudoinverse()
            ctx.check_true(tag + '/pseudoinverse-swaps-source-and-target', np.array_equal(inv.source.points, tgt) and np.array_equal(inv.target.points, src))
            e = np.abs(inv.apply(tgt.copy()) - src).max()
            ctx.check_true(tag + '/pseudoinverse-maps-target-landmarks-onto-source', bool(e <= tol), 'max err %g' % e)


# ------------------------------------------------------------------------ C05: masked images with more than a block of pixels
@contract('C05', 'large_masked_images', level='bounded', native_samples=1, configs=[dict(where=w) for w in ('tail', 'head', 'scattered', 'last-pixel')],
          functions=['menpo.image.masked:MaskedImage.as_vector', 'menpo.image.masked:MaskedImage.from_vector', 'menpo.image.boolean:BooleanImage.all_true',
                     'menpo.image.boolean:BooleanImage.n_true'])
def c05_large_masked(ctx, where):
    """masked images of 31x33 .. 70x66 pixels whose few masked-out pixels sit
    in one corner of the raster order: the vector has one entry per unmasked
    pixel and channel, from_vector(as_vector) is the identity, pixels outside
    the mask stay untouched (zero) in a rebuilt image."""
    from menpo.image import MaskedImage
    rs = ctx.nprng
    for shape in ((31, 33), (32, 32), (40, 50), (48, 48), (64, 64), (70, 66)):
        m = np.ones(shape, dtype=bool)
        flat = m.reshape(-1)
        if where == 'tail':
            flat[-3:] = False
        elif where == 'head':
            flat[:3] = False
        elif where == 'last-pixel':
            flat[-1] = False
        else:
            flat[rs.choice(flat.size, size=5, replace=False)] = False
        img = MaskedImage(rs.randn(2, *shape), mask=m.copy())
        n_true = int(m.sum())
        tag = 'shape=%s' % (shape,)
        ctx.check_true(tag + '/mask-is-not-all-true', not img.mask.all_true())
        ctx.check_true(tag + '/n_true', img.mask.n_true() == n_true)
        v = img.as_vector()
        ctx.check_true(tag + '/vector-length==unmasked-pixels*channels', v.shape == (2 * n_true,), str(v.shape))
        ctx.check_true(tag + '/n_parameters', img.n_parameters == 2 * n_true)
        ctx.check_true(tag + '/vector==unmasked-pixels', np.array_equal(v, img.pixels[:, m].reshape(-1)))
        w = rs.randn(2 * n_true)
        try:
            r = img.from_vector(w.copy())
        except Exception as e:
            ctx.check_true(tag + '/from_vector-accepts-a-vector-of-the-right-length', False, '%s: %s' % (type(e).__name__, e))
            continue
        ctx.check_true(tag + '/from_vector(w).as_vector()==w', np.array_equal(r.as_vector(), w))
        ctx.check_true(tag + '/outside-the-mask-stays-zero', not np.any(r.pixels[:, ~m]))
        ctx.check_true(tag + '/mask-kept', np.array_equal(r.mask.mask, m))


# ------------------------------------------------------------------------ C08: generalized procrustes on many shapes
@contract('C08', 'procrustes_on_many_shapes', level='bounded', native_samples=1, configs=[dict(n_points=p) for p in (5, 40)],
          functions=['menpo.transform.groupalign.procrustes:GeneralizedProcrustesAnalysis.__init__',
                     'menpo.transform.groupalign.procrustes:GeneralizedProcrustesAnalysis._recursive_procrustes'])
def c08_gpa_many(ctx, n_points):
    """GPA on 2 .. 33 noisy shapes: every returned transform is exactly the
    similarity alignment of its shape to the common target GPA reports, and
    owns its target."""
    T, S = B.menpo_mods()
    rs = ctx.nprng
    base = rs.randn(n_points, 2) * 4
    for n_shapes in (2, 3, 8, 9, 12, 17, 33):
        shapes = []
        for i in range(n_shapes):
            a = rs.uniform(0, 2 * np.pi)
            R = np.array([[np.cos(a), -np.sin(a)], [np.sin(a), np.cos(a)]])
            shapes.append(S.PointCloud((base + rs.randn(n_points, 2) * 0.15).dot(R.T) * rs.uniform(0.5, 2) + rs.randn(2) * 3))
        originals = [s.points.copy() for s in shapes]
        gpa = T.GeneralizedProcrustesAnalysis(shapes)
        tag = 'shapes=%d' % n_shapes
        ctx.check_true(tag + '/sources-unchanged', all(np.array_equal(s.points, o) for s, o in zip(shapes, originals)))
        worst = 0.0
        for s, tr in zip(shapes, gpa.transforms):
            fresh = T.AlignmentSimilarity(s, gpa.target)
            worst = max(worst, float(np.abs(tr.h_matrix - fresh.h_matrix).max()))
        ctx.check_true(tag + '/transforms==fresh-alignments-to-the-reported-target', worst <= 1e-9, 'max diff %g' % worst)
        ctx.check_true(tag + '/every-transform-targets-the-reported-target', all(np.allclose(tr.target.points, gpa.target.points, atol=1e-12) for tr in gpa.transforms))
        snap = gpa.target.points.copy()
        gpa.transforms[0].target.points[0, 0] += 0.0  # touch
        ctx.check_true(tag + '/target-stable', np.array_equal(gpa.target.points, snap))
        mean_aligned = np.mean([tr.aligned_source().points for tr in gpa.transforms], axis=0)
        close(ctx, tag + '/target-is-the-(rescaled)-mean-of-the-aligned-shapes/direction',
              mean_aligned / np.linalg.norm(mean_aligned - mean_aligned.mean(0)), gpa.target.points / np.linalg.norm(gpa.target.points - gpa.target.points.mean(0)), 1e-3)


# ------------------------------------------------------------------------ C10: PCA with more than a hundred components
@contract('C10', 'many_components', level='bounded', native_samples=1, configs=[dict(n=n, d=d, centre=c) for (n, d) in ((130, 160), (119, 130), (300, 120), (140, 180)) for c in (True, False)],
          functions=['menpo.math.decomposition:pca', 'menpo.math.linalg:dot_inplace_right', 'menpo.math.linalg:dot_inplace_left', 'menpo.model.pca:PCAVectorModel.__init__'])
def c10_many_components(ctx, n, d, centre):
    """data sets whose model has 100 .. 180 components, on both sides of
    n = d: orthonormal components, eigenvalues == variance along components,
    training samples reconstructed, project(instance(w)) == w."""
    from menpo.model import PCAVectorModel, PCAModel
    T, S = B.menpo_mods()
    rs = ctx.nprng
    X = rs.randn(n, d) * np.linspace(3.0, 0.5, d) + rs.randn(d)
    for backed in ('vector', 'pointcloud'):
        if backed == 'vector':
            m = PCAVectorModel(X.copy(), centre=centre)
        else:
            m = PCAModel([S.PointCloud(x.reshape(-1, 2).copy()) for x in X], centre=centre)
        C, ev = m._components, m._eigenvalues
        k = C.shape[0]
        tag = backed
        ctx.check_true(tag + '/n_components==rank', k == min(n - (1 if centre else 0), d), str(k))
        close(ctx, tag + '/orthonormal-components', C.dot(C.T), np.eye(k), 1e-8)
        mean = X.mean(0) if centre else np.zeros(d)
        Xc = X - mean
        close(ctx, tag + '/eigenvalues==variance-along-components', ev, (Xc.dot(C.T) ** 2).sum(0) / (n - 1), 1e-8)
        ctx.check_true(tag + '/eigenvalues-descending', bool(np.all(np.diff(ev) <= 1e-12)))
        if k == min(n - (1 if centre else 0), d) and k >= (n - 1 if centre else min(n, d)):
            rec = mean + Xc[:5].dot(C.T).dot(C)
            close(ctx, tag + '/training-samples-reconstructed', rec, X[:5], 1e-7)
        w = rs.randn(k)
        if backed == 'vector':
            close(ctx, tag + '/project(instance(w))==w', m.project(m.instance(w)), w, 1e-8)
        else:
            close(ctx, tag + '/project(instance(w))==w', m.project(m.instance(w)), w, 1e-8)


# ------------------------------------------------------------------------ C11: long increments
@contract('C11', 'long_increments', level='bounded', native_samples=1, configs=[dict(model=m, centre=c) for m in ('pca', 'pca-pointcloud', 'gmrf') for c in (True, False) if not (m == 'gmrf' and not c)],
          functions=['menpo.model.pca:PCAVectorModel.increment', 'menpo.math.decomposition:ipca', 'menpo.model.gmrf:GMRFVectorModel.increment'])
def c11_long_increments(ctx, model, centre):
    """increments of 33 .. 200 samples in one call (and many small ones):
    sample count, mean and second-order statistics equal the batch model's."""
    from menpo.model import PCAVectorModel, PCAModel, GMRFVectorModel
    T, S = B.menpo_mods()
    rs = ctx.nprng
    d = 6
    N = 260
    X = rs.randn(N, d) * np.linspace(2.0, 0.6, d) + rs.randn(d)
    if model == 'gmrf':
        from .c11 import _graphs
        G = _graphs()['chain4']
        d = G.n_vertices * 2
        X = rs.randn(N, d) + rs.randn(d)
        X = X + 0.5 * np.roll(X, 1, axis=1)
    for cuts in ([10, 50], [10, 33], [10, 32, 18], [40, 200], [5] + [3] * 40, [10, 64, 65, 100]):
        n = sum(cuts)
        data = X[:n]
        if model == 'gmrf':
            mk = lambda rows: GMRFVectorModel(rows.copy(), G, mode='concatenation', sparse=False, dtype=np.float64, incremental=True)
            feed = lambda rows: rows.copy()
        elif model == 'pca':
            mk = lambda rows: PCAVectorModel(rows.copy(), centre=centre)
            feed = lambda rows: rows.copy()
        else:
            mk = lambda rows: PCAModel([S.PointCloud(r.reshape(-1, 2).copy()) for r in rows], centre=centre)
            feed = lambda rows: [S.PointCloud(r.reshape(-1, 2).copy()) for r in rows]
        batch = mk(data)
        m = mk(data[:cuts[0]])
        pos = cuts[0]
        for c in cuts[1:]:
            m.increment(feed(data[pos:pos + c]))
            pos += c
        tag = 'cuts=%s' % (cuts if len(cuts) < 6 else '[5,3x40]')
        ctx.check_true(tag + '/n_samples', m.n_samples == n, '%s vs %s' % (m.n_samples, n))
        if model == 'gmrf':
            close(ctx, tag + '/mean', m.mean(), batch.mean(), 1e-8)
            close(ctx, tag + '/precision', m.precision, batch.precision, 1e-5)
        else:
            close(ctx, tag + '/mean', m._mean, batch._mean, 1e-8)
            close(ctx, tag + '/eigenvalues', m._eigenvalues, batch._eigenvalues, 1e-7)
            k = len(batch._eigenvalues)
            close(ctx, tag + '/same-principal-subspace', m._components[:k].T.dot(m._components[:k]), batch._components.T.dot(batch._components), 1e-6)


# ------------------------------------------------------------------------ C12: many queries at once
@contract('C12', 'many_queries', level='bounded', native_samples=1, configs=[dict(sparse=s, graph=g) for s in (True, False) for g in ('chain4', 'edgeless4')],
          functions=['menpo.model.gmrf:GMRFVectorModel.mahalanobis_distance', 'menpo.model.gmrf:GMRFVectorModel._mahalanobis_distance'])
def c12_many_queries(ctx, sparse, graph):
    """batches of 1 .. 1000 queries: each answer equals the single-query
    answer and the quadratic form; zero at the mean also inside a big batch."""
    from menpo.model import GMRFVectorModel
    from .c11 import _graphs
    rs = ctx.nprng
    G = _graphs()[graph]
    nf = G.n_vertices * 2
    X = rs.randn(60, nf) + rs.randn(nf)
    X = X + 0.4 * np.roll(X, 1, axis=1)
    m = GMRFVectorModel(X.copy(), G, mode='concatenation', sparse=sparse, dtype=np.float64)
    P = m.precision.toarray() if sparse else np.asarray(m.precision)
    mu = np.asarray(m.mean())
    for nq in (1, 2, 31, 32, 33, 64, 65, 257, 1000):
        Q = rs.randn(nq, nf) * 2 + mu
        Q[nq // 2] = mu
        want = np.einsum('ij,jk,ik->i', Q - mu, P, Q - mu)
        got = np.asarray(m.mahalanobis_distance(Q.copy()), dtype=float).reshape(-1)
        close(ctx, 'queries=%d/batched==quadratic-form' % nq, got, want, 1e-8)
        close(ctx, 'queries=%d/zero-at-the-mean-inside-the-batch' % nq, got[nq // 2], 0.0, 1e-9)
        if nq <= 65:
            close(ctx, 'queries=%d/batched==single' % nq, got, [float(m.mahalanobis_distance(q.copy())) for q in Q], 1e-9)
        got2 = np.asarray(m.mahalanobis_distance(Q.copy(), subtract_mean=False), dtype=float).reshape(-1)
        close(ctx, 'queries=%d/subtract_mean=False' % nq, got2, np.einsum('ij,jk,ik->i', Q, P, Q), 1e-8)


# ------------------------------------------------------------------------ C13: big crops and many patches
@contract('C13', 'large_crops_and_patch_sets', level='bounded', native_samples=1, configs=[dict(cls=c) for c in ('Image', 'MaskedImage')],
          functions=['menpo.image.base:Image.crop', 'menpo.image.base:Image.extract_patches', 'menpo.image.interpolation:scipy_interpolation'])
def c13_large(ctx, cls):
    """crops of more than 2**16 pixels and patch sets whose total size exceeds
    it are still the source pixels, exactly; both extraction paths agree."""
    from menpo.image import Image, MaskedImage
    T, S = B.menpo_mods()
    rs = ctx.nprng
    H, W = 400, 360
    pix = rs.randint(0, 255, size=(1, H, W)).astype(np.float64)
    img = Image(pix.copy()) if cls == 'Image' else MaskedImage(pix.copy(), mask=rs.rand(H, W) > 0.05)
    for (lo, hi) in (((10, 20), (260, 270)), ((50, 40), (350, 320)), ((0, 0), (257, 256)), ((3, 5), (259, 261)), ((0, 0), (400, 360))):
        c = img.crop(np.array(lo), np.array(hi))
        tag = 'crop[%s:%s]' % (lo, hi)
        ctx.check_true(tag + '/pixels-are-the-source-block', np.array_equal(c.pixels, pix[:, lo[0]:hi[0], lo[1]:hi[1]]), 'area %d' % ((hi[0] - lo[0]) * (hi[1] - lo[1])))
        if cls == 'MaskedImage':
            ctx.check_true(tag + '/mask-is-the-source-block', np.array_equal(c.mask.mask, img.mask.mask[lo[0]:hi[0], lo[1]:hi[1]]))
    centres = S.PointCloud(np.stack([rs.randint(20, H - 20, size=300), rs.randint(20, W - 20, size=300)], 1).astype(float))
    for ps in ((16, 16), (15, 17)):
        a = img.extract_patches(centres, patch_shape=ps, as_single_array=True)
        b = img.extract_patches(centres, patch_shape=ps, as_single_array=True, order=0, mode='nearest')
        ctx.check_true('patches%s/300-centres/slicing==sampling' % (ps,), np.array_equal(np.asarray(a), np.asarray(b)), 'total %d' % np.asarray(a).size)
        k = 7
        c0 = centres.points[k].astype(int)
        want = pix[:, c0[0] - ps[0] // 2:c0[0] - ps[0] // 2 + ps[0], c0[1] - ps[1] // 2:c0[1] - ps[1] // 2 + ps[1]]
        ctx.check_true('patches%s/are-the-source-pixels-around-the-centre' % (ps,), np.array_equal(np.asarray(a)[k, 0], want))
        ctx.check_true('patches%s/last-patch-too' % (ps,), np.array_equal(np.asarray(b)[-1, 0], np.asarray(a)[-1, 0]))


# ------------------------------------------------------------------------ C14: graphs with tens of vertices
def _uf_components(n, edges):
    parent = list(range(n))

    def find(a):
        while parent[a] != a:
            parent[a] = parent[parent[a]]
            a = parent[a]
        return a
    cyc = False
    for a, b in edges:
        ra, rb = find(a), find(b)
        if ra == rb:
            cyc = True
        else:
            parent[ra] = rb
    return len({find(i) for i in range(n)}), cyc


@contract('C14', 'graphs_with_tens_of_vertices', level='bounded', native_samples=2, configs=[dict(kind=k) for k in ('undirected', 'point-undirected', 'tree')],
          functions=['menpo.shape.graph:Graph.has_cycles', 'menpo.shape.graph:Graph.is_tree', 'menpo.shape.graph:UndirectedGraph.minimum_spanning_tree',
                     'menpo.shape.graph:Tree.depth_of_vertex', 'menpo.shape.graph:Tree.vertices_at_depth'])
def c14_larger_graphs(ctx, kind):
    """graphs of 9 .. 70 vertices - forests, forests plus one cycle, sparse
    disconnected graphs, dense graphs - against union-find / Kruskal / BFS
    references."""
    import scipy.sparse as sp
    T, S = B.menpo_mods()
    rs = ctx.nprng
    for n in (9, 16, 17, 18, 33, 40, 70):
        families = []
        # triangle plus a separate path: a cycle with fewer edges than vertices
        families.append(('triangle+path', [(0, 1), (1, 2), (2, 0)] + [(i, i + 1) for i in range(3, n - 1)]))
        families.append(('path', [(i, i + 1) for i in range(n - 1)]))
        par = [rs.randint(0, i) for i in range(1, n)]
        families.append(('random-tree', [(par[i - 1], i) for i in range(1, n)]))
        families.append(('tree-minus-edge-plus-chord', [(par[i - 1], i) for i in range(1, n - 1)] + [(0, 1) if par[0] != 0 or True else (0, 2), (1, 2) if (par[1] != 1 and par[0] == 0 and par[1] == 0) else (2, 3)]))
        m = rs.randint(n, 3 * n)
        dense = {tuple(sorted(e)) for e in rs.randint(0, n, size=(m, 2)) if e[0] != e[1]}
        families.append(('random', sorted(dense)))
        for fname, edges in families:
            edges = sorted({tuple(sorted(e)) for e in edges if e[0] != e[1]})
            comps, cyc = _uf_components(n, edges)
            is_tree = (not cyc) and comps == 1 and len(edges) == n - 1
            tag = 'n=%d/%s' % (n, fname)
            if kind == 'tree':
                if not is_tree:
                    continue
                root = int(rs.randint(0, n))
                # orient away from the root
                adj = {i: [] for i in range(n)}
                for a, b in edges:
                    adj[a].append(b); adj[b].append(a)
                depth = {root: 0}
                order = [root]
                A = np.zeros((n, n))
                for v in order:
                    for w in adj[v]:
                        if w not in depth:
                            depth[w] = depth[v] + 1
                            A[v, w] = 1
                            order.append(w)
                t = S.Tree(sp.csr_matrix(A), root)
                ctx.check_true(tag + '/depth_of_vertex==bfs', all(t.depth_of_vertex(v) == depth[v] for v in range(n)))
                md = max(depth.values())
                ctx.check_true(tag + '/maximum_depth', t.maximum_depth == md)
                for dd in range(md + 1):
                    want = sorted(v for v in range(n) if depth[v] == dd)
                    ctx.check_true(tag + '/vertices_at_depth(%d)' % dd, sorted(t.vertices_at_depth(dd)) == want)
                    ctx.check_true(tag + '/n_vertices_at_depth(%d)' % dd, t.n_vertices_at_depth(dd) == len(want))
                ctx.check_true(tag + '/leaves', sorted(t.leaves) == sorted(v for v in range(n) if not A[v].any()))
                continue
            W = np.zeros((n, n))
            wts = rs.permutation(len(edges)) + 1.0
            for (a, b), w in zip(edges, wts):
                W[a, b] = W[b, a] = w
            if kind == 'undirected':
                g = S.UndirectedGraph(sp.csr_matrix(W))
            else:
                g = S.PointUndirectedGraph(rs.randn(n, 2), sp.csr_matrix(W))
            ctx.check_true(tag + '/has_cycles==union-find', bool(g.has_cycles()) == cyc)
            ctx.check_true(tag + '/is_tree==union-find', bool(g.is_tree()) == is_tree)
            ctx.check_true(tag + '/n_edges', g.n_edges == len(edges))
            if comps == 1:
                # Kruskal reference (distinct weights: the minimum spanning tree is unique)
                _, _ = None, None
                parent = list(range(n))

                def find(a):
                    while parent[a] != a:
                        parent[a] = parent[parent[a]]
                        a = parent[a]
                    return a
                mst = set()
                for w, (a, b) in sorted(zip(wts, edges)):
                    ra, rb = find(a), find(b)
                    if ra != rb:
                        parent[ra] = rb
                        mst.add((a, b))
                root = int(rs.randint(0, n))
                tr = g.minimum_spanning_tree(root)
                got = {tuple(sorted(map(int, e))) for e in np.asarray(tr.edges)}
                ctx.check_true(tag + '/minimum_spanning_tree==kruskal', got == mst)
                ctx.check_true(tag + '/mst-keeps-the-weights', all(tr.adjacency_matrix[a, b] == W[a, b] or tr.adjacency_matrix[b, a] == W[a, b] for a, b in mst))


# ------------------------------------------------------------------------ C15: hundreds of labels
@contract('C15', 'hundreds_of_labels', level='bounded', native_samples=1, configs=[dict(n_tags=n) for n in (3, 100, 255, 256, 257, 512)],
          functions=['menpo.shape.labelled:LabelledPointUndirectedGraph._new_group_with_only_labels', 'menpo.shape.labelled:LabelledPointUndirectedGraph.with_labels',
                     'menpo.shape.labelled:LabelledPointUndirectedGraph.without_labels'])
def c15_many_labels(ctx, n_tags):
    """a group with four part labels and hundreds of tag labels that all
    share one hub point: selections keep exactly the union of the selected
    labels' points, their edges, the label order and each label's points."""
    from collections import OrderedDict
    T, S = B.menpo_mods()
    rs = ctx.nprng
    n = 12
    P = rs.randn(n, 2)
    edges = np.array([[i, (i + 1) % n] for i in range(n)])
    masks = OrderedDict()
    for k in range(4):
        mk = np.zeros(n, bool); mk[3 * k:3 * k + 3] = True
        masks['part%d' % k] = mk
    tags = []
    for j in range(n_tags):
        mk = np.zeros(n, bool); mk[5] = True; mk[(j % 3) + 6] = True
        masks['tag%03d' % j] = mk
        tags.append('tag%03d' % j)
    g = S.LabelledPointUndirectedGraph.init_from_indices_mapping(P, edges, OrderedDict((k, np.flatnonzero(v)) for k, v in masks.items()))
    before = g.points.copy()
    for name, sel in (('with_labels(tags)', g.with_labels(tags)), ('without_labels(parts)', g.without_labels(['part0', 'part1', 'part2', 'part3']))):
        keep = np.zeros(n, bool)
        for tname in tags:
            keep |= masks[tname]
        idx = np.flatnonzero(keep)
        ctx.check_true(name + '/points==union-of-the-selected-labels', sel.n_points == len(idx) and np.array_equal(sel.points, P[idx]), '%d vs %d points' % (sel.n_points, len(idx)))
        ctx.check_true(name + '/labels-in-order', list(sel.labels) == tags)
        if sel.n_points == len(idx):
            ok = all(np.array_equal(sel.get_label(tname).points, P[np.flatnonzero(masks[tname])]) for tname in tags[:5] + tags[-5:])
            ctx.check_true(name + '/each-label-keeps-its-points', ok)
            want_e = {(int(np.searchsorted(idx, a)), int(np.searchsorted(idx, b))) for a, b in edges if keep[a] and keep[b]}
            got_e = {tuple(map(int, e)) for e in np.asarray(sel.edges)}
            ctx.check_true(name + '/edges-among-kept-points', {tuple(sorted(e)) for e in got_e} == {tuple(sorted(e)) for e in want_e})
    ctx.check_true('receiver-unchanged', np.array_equal(g.points, before) and len(g.labels) == 4 + n_tags)


# ------------------------------------------------------------------------ C16: landmark files of hundreds of kilobytes
@contract('C16', 'large_landmark_files', level='bounded', native_samples=1, configs=[dict(n_points=n) for n in (68, 400, 623, 1500, 5000)],
          functions=['menpo.io.output.landmark:ljson_exporter', 'menpo.io.input.landmark:ljson_importer', 'menpo.io.output.landmark:pts_exporter'])
def c16_large_files(ctx, n_points):
    """labelled graphs of 68 .. 5000 points (files of 10 KiB .. 1 MiB) through
    export and import: identical coordinates (missing values included), same
    edges, same labels in order, same masks."""
    from collections import OrderedDict
    import menpo.io as mio
    T, S = B.menpo_mods()
    rs = ctx.nprng
    P = rs.randn(n_points, 2) * 100
    P[n_points // 2, 1] = np.nan
    edges = np.array([[i, i + 1] for i in range(n_points - 1)])
    third = n_points // 3
    mapping = OrderedDict([('zeta', np.arange(0, third + 1)), ('été-漢', np.arange(third, 2 * third + 1)), ('alpha', np.arange(2 * third, n_points))])
    g = S.LabelledPointUndirectedGraph.init_from_indices_mapping(P, edges, mapping)
    with tempfile.TemporaryDirectory() as td:
        p = os.path.join(td, 'big.ljson')
        mio.export_landmark_file(g, p)
        size = os.path.getsize(p)
        ctx.case('ljson %d KiB' % (size // 1024), True)
        try:
            back = mio.import_landmark_file(p)
        except Exception as e:
            ctx.check_true('exported-file-imports', False, '%s: %s (file of %d bytes)' % (type(e).__name__, str(e)[:80], size))
            return
        if isinstance(back, dict):
            back = list(back.values())[0]
        elif hasattr(back, 'n_groups'):
            back = back[None]
        ctx.check_true('coordinates-identical(missing-values-included)', np.array_equal(back.points, P, equal_nan=True))
        A = g.adjacency_matrix.toarray() != 0
        Bm = back.adjacency_matrix.toarray() != 0
        ctx.check_true('same-undirected-edges', np.array_equal(Bm | Bm.T, A | A.T))
        ctx.check_true('labels-same-order', list(back.labels) == list(g.labels))
        ctx.check_true('label-masks', all(np.array_equal(back._labels_to_masks[l], g._labels_to_masks[l]) for l in g.labels if l in back.labels))
        p2 = os.path.join(td, 'big.pts')
        mio.export_landmark_file(S.PointCloud(np.nan_to_num(P)), p2)
        b2 = mio.import_landmark_file(p2)
        b2 = list(b2.values())[0] if isinstance(b2, dict) else b2[None] if hasattr(b2, 'n_groups') else b2
        ctx.check_true('pts/within-three-decimals', b2.points.shape == P.shape and bool(np.all(np.abs(b2.points - np.nan_to_num(P)) <= 5.1e-4)))


# ------------------------------------------------------------------------ C17: meshes with tens of triangles
@contract('C17', 'meshes_with_tens_of_triangles', level='bounded', native_samples=1, configs=[dict(pad=p) for p in (0, 2, 4, 5, 8, 12)],
          functions=['menpo.shape.mesh.base:TriMesh.boundary_tri_index', 'menpo.shape.mesh.base:TriMesh.from_mask', 'menpo.shape.mesh.base:TriMesh.from_tri_mask'])
def c17_larger_meshes(ctx, pad):
    """a closed tetrahedron with a fin glued to one edge (a non-manifold
    edge), padded with an open grid patch of 0 .. 242 triangles: the boundary
    triangles are exactly those owning an unshared edge; vertex and triangle
    masks keep exactly the surviving triangles with correct coordinates."""
    T, S = B.menpo_mods()
    rs = ctx.nprng
    pts = [[0, 0, 0], [1, 0, 0], [0, 1, 0], [0, 0, 1], [1, 1, 1]]
    tris = [[0, 2, 1], [0, 1, 3], [1, 2, 3], [2, 0, 3], [0, 1, 4]]
    if pad:
        base = len(pts)
        for i in range(pad):
            for j in range(pad):
                pts.append([3 + i, j, 0.1 * rs.rand()])
        for i in range(pad - 1):
            for j in range(pad - 1):
                a = base + i * pad + j
                tris.append([a, a + 1, a + pad])
                tris.append([a + 1, a + pad + 1, a + pad])
    pts, tris = np.array(pts, dtype=float), np.array(tris)
    perm = rs.permutation(len(tris))
    for order, tl in (('as-built', tris), ('shuffled', tris[perm])):
        m = S.TriMesh(pts.copy(), trilist=tl.copy())
        owners = {}
        for k, tri in enumerate(tl):
            for a, b in ((tri[0], tri[1]), (tri[1], tri[2]), (tri[2], tri[0])):
                owners.setdefault((min(a, b), max(a, b)), []).append(k)
        want = np.zeros(len(tl), bool)
        for e, ks in owners.items():
            if len(ks) == 1:
                want[ks[0]] = True
        got = np.asarray(m.boundary_tri_index())
        tag = 'n_tris=%d/%s' % (len(tl), order)
        ctx.check_true(tag + '/boundary-triangles==owners-of-an-unshared-edge', got.shape == want.shape and np.array_equal(got.astype(bool), want),
                       'differs at %s' % (np.flatnonzero(got.astype(bool) != want)[:5].tolist() if got.shape == want.shape else got.shape))
        # masks: drop a vertex with a low index and one with a high index
        for drop in ([1], [len(pts) - 1], [0, len(pts) // 2]):
            vm = np.ones(len(pts), bool); vm[drop] = False
            keep_t = vm[tl].all(1)
            if not keep_t.any():
                continue
            used = np.zeros(len(pts), bool); used[tl[keep_t].reshape(-1)] = True
            r = m.from_mask(vm.copy())
            want_tris = pts[tl[keep_t]]
            got_tris = r.points[r.trilist]
            ctx.check_true(tag + '/vertex-mask-drop%s/kept-triangles-join-the-same-coordinates' % drop, got_tris.shape == want_tris.shape and np.array_equal(got_tris, want_tris))
            ctx.check_true(tag + '/vertex-mask-drop%s/orphans-dropped' % drop, r.n_points == int((vm & used).sum()))
        tm = rs.rand(len(tl)) > 0.4
        r = m.from_tri_mask(tm.copy())
        # (menpo keeps every triangle whose three vertices survive - the selected ones and possibly more)
        pm = np.zeros(len(pts), bool); pm[tl[tm].reshape(-1)] = True
        ctx.check_true(tag + '/tri-mask/triangles-among-the-surviving-vertices-join-the-same-coordinates', np.array_equal(r.points[r.trilist], pts[tl[pm[tl].all(1)]]))


# ------------------------------------------------------------------------ C18: normalisers on images of more than a thousand pixels
@contract('C18', 'normalisers_on_larger_images', level='bounded', native_samples=1,
          configs=[dict(fn=fn, mode=mode) for fn in ('normalize_std', 'normalize_norm', 'normalize_var') for mode in ('all', 'per_channel')],
          functions=['menpo.feature.features:normalize', 'menpo.feature.features:normalize_std', 'menpo.feature.features:normalize_norm',
                     'menpo.feature.features:normalize_var'])
def c18_large_normalisers(ctx, fn, mode):
    """images of 31x33 .. 120x90 pixels with an illumination ramp (content
    that differs between blocks of pixels): zero mean, divided by the right
    statistic, unit std / norm, second application changes nothing."""
    import menpo.feature as F
    from menpo.image import Image, MaskedImage
    rs = ctx.nprng
    f = getattr(F, fn)
    for shape in ((31, 33), (32, 32), (33, 32), (40, 40), (50, 37), (64, 64), (120, 90)):
        ramp = np.linspace(0, 3, shape[0] * shape[1]).reshape(shape) ** 2
        x = rs.randn(3, *shape) * (0.2 + ramp) + ramp * np.array([1.0, -2.0, 0.5]).reshape(3, 1, 1)
        flat = x.reshape(3, -1)
        if mode == 'all':
            c = flat - flat.mean()
            s = {'normalize_std': c.std(), 'normalize_norm': np.linalg.norm(c), 'normalize_var': c.var()}[fn]
        else:
            c = flat - flat.mean(1, keepdims=True)
            s = {'normalize_std': c.std(1), 'normalize_norm': np.linalg.norm(c, axis=1), 'normalize_var': c.var(1)}[fn].reshape(-1, 1)
        want = (c / s).reshape(x.shape)
        tag = 'shape=%s' % (shape,)
        for kind, obj in (('array', x.copy()), ('Image', Image(x.copy())), ('MaskedImage', MaskedImage(x.copy(), mask=rs.rand(*shape) > 0.3))):
            r = f(obj, mode=mode)
            got = np.asarray(r if kind == 'array' else r.pixels)
            close(ctx, '%s/%s/==(x-mean)/statistic' % (tag, kind), got, want, 1e-9)
            if fn != 'normalize_var':
                rr = f(r, mode=mode)
                close(ctx, '%s/%s/second-application-changes-nothing' % (tag, kind), np.asarray(rr if kind == 'array' else rr.pixels), got, 1e-9)


# ------------------------------------------------------------------------ C19: long lazy lists
@contract('C19', 'long_lazy_lists', level='bounded', native_samples=1, configs=[dict(n=n) for n in (0, 1, 255, 256, 257, 300, 1000, 70000)],
          functions=['menpo.base:LazyList.map', 'menpo.base:LazyList.__getitem__', 'menpo.base:LazyList.repeat', 'menpo.base:LazyList.__add__',
                     'menpo.base:LazyList.init_from_iterable'])
def c19_long_lists(ctx, n):
    """lazy lists of 0 .. 70000 elements behave like lists: per-element and
    single-callable maps, slices, index lists, ranges, repeat, +, copy - with
    nothing evaluated before it is asked for."""
    from menpo.base import LazyList
    calls = []

    def mk(i):
        def f():
            calls.append(i)
            return i * 3
        return f
    ll = LazyList([mk(i) for i in range(n)])
    ref = [i * 3 for i in range(n)]
    ctx.check_true('len', len(ll) == n)
    fs = [(lambda v, k=k: v + k) for k in range(n)]
    try:
        m1 = ll.map(fs)
        ok = len(m1) == n and (n == 0 or (m1[0] == ref[0] and m1[n - 1] == ref[n - 1] + n - 1 and m1[n // 2] == ref[n // 2] + n // 2))
        ctx.check_true('map(one-callable-per-element)', ok)
    except Exception as e:
        ctx.check_true('map(one-callable-per-element)', False, '%s: %s' % (type(e).__name__, e))
    m2 = ll.map(lambda v: v + 1)
    ctx.check_true('map(single-callable)', len(m2) == n and (n == 0 or (m2[n - 1] == ref[n - 1] + 1)))
    ctx.check_true('nothing-evaluated-except-what-was-asked', set(calls) <= {0, n - 1, n // 2})
    if n:
        idx = [n - 1, 0, n // 2, n // 3]
        ctx.check_true('index-list', list(ll[idx]) == [ref[i] for i in idx])
        ctx.check_true('index-array', list(ll[np.array(idx)]) == [ref[i] for i in idx])
        sl = ll[n // 4: n // 4 + 5]
        ctx.check_true('slice', list(sl) == ref[n // 4: n // 4 + 5])
        ctx.check_true('negative-slice', list(ll[-3:]) == ref[-3:])
        ctx.check_true('strided-slice-length', len(ll[::7]) == len(ref[::7]))
        rg = range(n - 1, max(n - 6, -1), -1)
        ctx.check_true('range-index', list(ll[rg]) == [ref[i] for i in rg])
        ctx.check_true('getitem-last', ll[n - 1] == ref[n - 1] and ll[-1] == ref[-1])
    rp = ll.repeat(2)
    ctx.check_true('repeat-length', len(rp) == 2 * n)
    if n:
        ctx.check_true('repeat-order', rp[1] == ref[0] and rp[2 * n - 1] == ref[n - 1])
    pl = ll + ll
    ctx.check_true('+-length', len(pl) == 2 * n and (n == 0 or pl[n] == ref[0]))
    cp = ll.copy()
    ctx.check_true('copy', len(cp) == n and (n == 0 or cp[n - 1] == ref[n - 1]))
    it = LazyList.init_from_iterable(range(n))
    ctx.check_true('init_from_iterable', len(it) == n and (n == 0 or it[n - 1] == n - 1))


# ------------------------------------------------------------------------ C20: texture coordinates of large, nearly square images
@contract('C20', 'large_nearly_square_images', level='bounded', native_samples=1, configs=[dict(kind=k) for k in ('tcoords', 'scale-factory', 'about-centre')],
          functions=['menpo.transform.tcoords:tcoords_to_image_coords', 'menpo.transform.tcoords:image_coords_to_tcoords', 'menpo.transform.homogeneous.scale:Scale'])
def c20_large_images(ctx, kind):
    """image shapes from 2x3 to 4000x4004, especially nearly square ones:
    the unit square maps onto the image corners and back; the Scale factory
    returns a uniform scale only for (numerically) equal factors; scaling
    about a centre keeps the centre fixed and scales offsets per axis."""
    T, S = B.menpo_mods()
    from menpo.transform.tcoords import tcoords_to_image_coords, image_coords_to_tcoords
    shapes = [(2, 3), (10, 11), (100, 101), (121, 251), (319, 320), (480, 481), (512, 513), (1024, 1022), (2000, 2004), (4000, 4004), (640, 640)]
    for sh in shapes:
        h, w = sh
        tag = 'shape=%s' % (sh,)
        if kind == 'tcoords':
            t = tcoords_to_image_coords(sh)
            corners_t = np.array([[0., 0.], [1., 0.], [0., 1.], [1., 1.], [0.5, 0.25]])
            # tcoords are (x, y) with y up; image coordinates are (row, col) with row down
            want = np.array([[(1 - y) * (h - 1), x * (w - 1)] for x, y in corners_t])
            close(ctx, tag + '/unit-square-onto-image-corners', t.apply(corners_t.copy()), want, 1e-12)
            back = image_coords_to_tcoords(sh)
            close(ctx, tag + '/and-back', back.apply(want.copy()), corners_t, 1e-12)
            close(ctx, tag + '/inverse-pair', back.apply(t.apply(corners_t.copy())), corners_t, 1e-12)
        elif kind == 'scale-factory':
            f = np.array([h - 1.0, w - 1.0])
            s = T.Scale(f)
            x = np.array([[1.0, 1.0], [0.5, -2.0]])
            close(ctx, tag + '/Scale(factors)-scales-each-axis-by-its-factor', s.apply(x.copy()), x * f, 1e-12)
            ctx.check_true(tag + '/uniform-only-if-factors-equal', isinstance(s, T.UniformScale) == bool(np.allclose(f, f[0])))
        else:
            from menpo.transform import scale_about_centre
            pc = S.PointCloud(np.array([[0., 0.], [h - 1.0, 0.], [0., w - 1.0], [h - 1.0, w - 1.0]]))
            f = np.array([(h - 1.0) / h, (w - 1.0) / w]) if h > 2 else np.array([0.5, 0.75])
            t = scale_about_centre(pc, f)
            c = pc.centre()
            close(ctx, tag + '/centre-fixed', t.apply(c.reshape(1, -1)), c.reshape(1, -1), 1e-9)
            off = np.array([[1.0, 2.0], [-3.0, 0.5]])
            close(ctx, tag + '/offsets-scaled-per-axis', t.apply(c + off) - c, off * f, 1e-9)


# ------------------------------------------------------------------------ C06: managers with many groups
@contract('C06', 'managers_with_many_groups', level='bounded', native_samples=1, configs=[dict(n_groups=n) for n in (1, 3, 8, 9, 12, 40)],
          functions=['menpo.landmark.base:LandmarkManager.copy', 'menpo.landmark.base:Landmarkable.landmarks', 'menpo.landmark.base:LandmarkManager.__setitem__',
                     'menpo.base:Copyable.copy'])
def c06_many_groups(ctx, n_groups):
    """landmark managers with 1 .. 40 groups (point clouds, graphs, labelled
    graphs, groups that carry landmarks themselves): a copy - of the manager,
    of its owner, by assignment to another owner, by applying a transform -
    equals the original and shares nothing with it."""
    from menpo.image import Image
    from .state import state_of, shared_storage
    T, S = B.menpo_mods()
    rs = ctx.nprng

    def build():
        owner = Image(rs.randn(1, 20, 20))
        for i in range(n_groups):
            P = rs.randn(4, 2) * 3 + 10
            if i % 3 == 0:
                g = S.PointCloud(P)
            elif i % 3 == 1:
                g = S.PointUndirectedGraph.init_from_edges(P, np.array([[0, 1], [1, 2]]))
            else:
                g = S.TriMesh(P, trilist=np.array([[0, 1, 2], [1, 2, 3]]))
            if i % 4 == 3:
                g.landmarks['inner'] = S.PointCloud(rs.randn(2, 2))
            owner.landmarks['group%02d' % i] = g
        return owner
    owner = build()
    lm = owner.landmarks
    flat = lambda m: {k: m[k].points.copy() for k in m}
    orig = flat(lm)
    other = Image(rs.randn(1, 20, 20))
    other.landmarks = lm
    derived = [('manager.copy()', lm.copy()), ('owner.copy().landmarks', owner.copy().landmarks), ('assigned-to-another-owner', other.landmarks),
               ('Translation.apply(manager)', T.Translation([0.0, 0.0]).apply(lm))]
    for name, c in derived:
        ctx.check_true(name + '/same-groups-in-order', list(c) == list(lm))
        ctx.check_true(name + '/equal', all(np.array_equal(c[k].points, orig[k]) for k in lm))
        shared = shared_storage(c, lm)
        ctx.check_true(name + '/shares-no-mutable-storage-with-the-original', not shared, 'shared: %s' % (shared[:2],))
        ctx.check_true(name + '/group-objects-are-new', all(c[k] is not lm[k] for k in lm))
        # write into every group of the derived manager, then transform it in place
        for k in c:
            c[k].points[0, 0] += 5.0
        ctx.check_true(name + '/writing-into-it-leaves-the-original-alone', all(np.array_equal(lm[k].points, orig[k]) for k in lm))
    for k in lm:
        lm[k].points[1, 1] -= 7.0
    for name, c in derived:
        ctx.check_true(name + '/writing-into-the-original-leaves-it-alone', all(c[k].points[1, 1] == orig[k][1, 1] for k in lm))
