"""C19 — lazy lists are faithful and truly lazy under every combination of operations."""
import itertools

import numpy as np
import z3

from vp.registry import contract
from vp import pyvc

TRUSTED = [
    'E1 builtin contracts for python lists: indexing with (possibly negative) ints / IndexError, slicing = pyslice, concatenation, list(l) = fresh equal list, comprehension = pointwise map, functools.partial(f, x)() = f(x), chain(*zip(*[l]*n)) = element k is l[k div n]',
]
ASSUMPTIONS = [
    'G0: every operation returns a LazyList satisfying the same representation invariant and its contract is stated over arbitrary views, so every program built from the operations (any nesting depth) is covered by composing contracts',
    '"evaluates" = invocation of a stored thunk by LazyList code; what a thunk evaluates when it runs is that element\'s own dependency chain',
]


class Counter(object):
    """thunk factory that records every evaluation"""

    def __init__(self):
        self.calls = []

    def thunk(self, tag):
        def t():
            self.calls.append(tag)
            return ('v', tag)
        return t


def _ops(rs, depth, base_len):
    """a random program over lazy lists / reference lists"""
    prog = []
    for _ in range(depth):
        op = rs.choice(['map', 'map_each', 'slice', 'index_list', 'index_array', 'index_range', 'repeat', 'add_lazy', 'add_list', 'copy', 'neg_slice'])
        prog.append(op)
    return prog


@contract('C19', 'programs_native', level='bounded', native_samples=25, configs=[dict(base_len=n, depth=d) for n in (0, 1, 2, 5) for d in (1, 3, 6)],
          functions=['menpo.base:LazyList.__getitem__', 'menpo.base:LazyList.map', 'menpo.base:LazyList.repeat', 'menpo.base:LazyList.__add__',
                     'menpo.base:LazyList.copy', 'menpo.base:LazyList.__len__', 'menpo.base:LazyList.init_from_iterable',
                     'menpo.base:LazyList.init_from_index_callable'])
def programs_native(ctx, base_len, depth):
    """bounded cross-check: seeded random programs (map with one callable or
    one per element, slices with any start/stop/step, index lists / arrays /
    ranges incl. negative, repeat, + lazy and plain lists, copy) executed on the
    real class and on plain python lists of call-counting thunks: same length,
    same values, nothing evaluated until an element is read, one read evaluates
    exactly that element's chain, operands behave afterwards as before."""
    from menpo.base import LazyList
    rs = ctx.nprng
    C = Counter()
    thunks = [C.thunk(i) for i in range(base_len)]
    ll = LazyList(list(thunks))
    ref = list(thunks)                     # reference: list of thunks
    history = [(ll, list(ref))]
    for step, op in enumerate(_ops(rs, depth, base_len)):
        n = len(ref)
        before_calls = len(C.calls)
        try:
            if op == 'map':
                k = step
                f = (lambda kk: (lambda v: ('m', kk, v)))(k)
                new, nref = ll.map(f), [(lambda t, ff: (lambda: ff(t())))(t, f) for t in ref]
            elif op == 'map_each':
                fs = [(lambda kk, j: (lambda v: ('e', kk, j, v)))(step, j) for j in range(n)]
                new, nref = ll.map(fs), [(lambda t, ff: (lambda: ff(t())))(t, ff) for t, ff in zip(ref, fs)]
            elif op in ('slice', 'neg_slice'):
                lim = n + 2
                a = rs.choice([None] + list(range(-lim, lim + 1)))
                b = rs.choice([None] + list(range(-lim, lim + 1)))
                c = rs.choice([None, 1, 2, 3, -1, -2]) if op == 'slice' else rs.choice([-1, -2, -3])
                sl = slice(a, b, c)
                new, nref = ll[sl], ref[sl]
            elif op in ('index_list', 'index_array', 'index_range'):
                if n == 0:
                    continue
                if op == 'index_range':
                    a, b = int(rs.randint(-n, n)), int(rs.randint(-n, n + 1))
                    c = int(rs.choice([1, 2, -1, -2]))
                    idx = range(a, b, c)
                    lst = list(idx)
                else:
                    lst = [int(v) for v in rs.randint(-n, n, size=rs.randint(0, 5))]
                    idx = lst if op == 'index_list' else np.array(lst, dtype=int)
                new, nref = ll[idx], [ref[i] for i in lst]
            elif op == 'repeat':
                r = int(rs.randint(1, 4))
                new, nref = ll.repeat(r), [t for t in ref for _ in range(r)]
            elif op == 'add_lazy':
                extra = [C.thunk(('x', step, j)) for j in range(rs.randint(0, 3))]
                new, nref = ll + LazyList(list(extra)), ref + extra
            elif op == 'add_list':
                vals = [('plain', step, j) for j in range(rs.randint(0, 3))]
                new, nref = ll + vals, ref + [(lambda v: (lambda: v))(v) for v in vals]
            else:
                new, nref = ll.copy(), list(ref)
        except Exception as e:                      # an operation may only raise if the list operation raises too
            ctx.check_true('step%d:%s/raises-only-like-a-list' % (step, op), False, repr(e))
            return
        ctx.check_true('step%d:%s/nothing-evaluated' % (step, op), len(C.calls) == before_calls)
        ctx.check_true('step%d:%s/length' % (step, op), len(new) == len(nref), '%d vs %d' % (len(new), len(nref)))
        ctx.check_true('step%d:%s/is-lazy-list' % (step, op), type(new) is LazyList)
        ctx.check_true('step%d:%s/result-list-not-aliasing-operand' % (step, op), new._callables is not ll._callables)
        history.append((new, list(nref)))
        ll, ref = new, nref
    # read elements from every list of the history: same values, exactly the element's own chain is evaluated
    for hi, (lst, r) in enumerate(history):
        ctx.check_true('history%d/length-unchanged-afterwards' % hi, len(lst) == len(r))
        for j in list(range(len(r)))[:4] + ([-1] if r else []):
            C.calls[:] = []
            got = lst[j]
            calls_real = list(C.calls)
            C.calls[:] = []
            want = r[j]()
            ctx.check_true('history%d/element%d/value' % (hi, j), got == want, '%r vs %r' % (got, want))
            ctx.check_true('history%d/element%d/evaluates-exactly-its-own-chain' % (hi, j), calls_real == list(C.calls), '%r vs %r' % (calls_real, C.calls))
        if r:
            try:
                lst[len(r)]
                ctx.check_true('history%d/index-out-of-range-raises' % hi, False)
            except IndexError:
                pass


# ------------------------------------------------------------------ E1 part
from vp import pyvc_seq as PS


def _copy_obj(gen, s, ob):
    fields = {}
    for k, v in ob.fields.items():
        fields[k] = PS.SeqV(v.length, v.at, gen.new_ident(), v.kind) if isinstance(v, PS.SeqV) else v
    return gen.alloc(s, PS.ObjV(ob.cls, fields))


def c_copyable_copy(gen, s, args, kw):
    """Copyable.copy(obj): new object of the same class; every attribute that
    has .copy() is copied (list.copy(): fresh list object, same elements)"""
    return [(s, _copy_obj(gen, s, s.heap[args[1].i]))]


def c_lazylist_copy(gen, s, args, kw):
    """contract of LazyList.copy (proved by its own VC run)"""
    return [(s, _copy_obj(gen, s, s.heap[args[0].i]))]


def c_lazylist_add(gen, s, args, kw):
    """contract of LazyList.__add__ for a LazyList right operand (proved by its own VC run)"""
    a, b = args
    va = s.heap[a.i].fields['_callables'] if isinstance(a, PS.ORef) else a.payload
    vb = s.heap[b.i].fields['_callables'] if isinstance(b, PS.ORef) else b.payload
    return [(s, gen.alloc(s, PS.ObjV('LazyList', {'_callables': gen.seq_concat(s, va, vb)})))]


def c_init_from_iterable(gen, s, args, kw):
    """contract of LazyList.init_from_iterable(iterable) with f=None (proved by its own VC run):
    element k is a thunk returning iterable[k]"""
    it = args[1].payload
    r = gen.fresh_seq('fromiter', 'thunk')
    k = z3.Int('k!fi')
    v0 = z3.Const('v!gen', PS.Val)
    s.pc.append(z3.ForAll([v0], PS.evalT(PS.ConstT(v0)) == v0))
    s.pc.append(r.length == it.length)
    s.pc.append(z3.ForAll([k], z3.Implies(z3.And(k >= 0, k < it.length), r.at[k] == PS.ConstT(it.at[k]))))
    return [(s, gen.alloc(s, PS.ObjV('LazyList', {'_callables': r})))]


E1_CONTRACTS = {'Copyable.copy': c_copyable_copy, 'LazyList.copy': c_lazylist_copy, 'LazyList.__add__': c_lazylist_add,
                'LazyList.init_from_iterable': c_init_from_iterable}

CASES = [('__len__', None), ('__getitem__', 'int'), ('__getitem__', 'index-like'), ('__getitem__', 'slice'), ('__getitem__', 'iterable-of-ints'),
         ('map', 'callable'), ('map', 'iterable-of-callables'), ('map', 'callable-iterable'), ('repeat', None), ('copy', None),
         ('__add__', 'LazyList'), ('__add__', 'plain-iterable'), ('__add__', 'non-iterable'), ('init_from_iterable', 'plain-iterable')]


def _val_seq(gen, base):
    gen.counter += 1
    n = z3.Int('%s_len!%d' % (base, gen.counter))
    at = z3.Array('%s_at!%d' % (base, gen.counter), z3.IntSort(), PS.Val)
    return PS.SeqV(n, at, gen.new_ident(), 'val')


@contract('C19', 'e1_lazylist', configs=[dict(method=m, kind=k) for m, k in CASES], functions=[
    'menpo.base:LazyList.__getitem__', 'menpo.base:LazyList.__len__', 'menpo.base:LazyList.map', 'menpo.base:LazyList.repeat',
    'menpo.base:LazyList.copy', 'menpo.base:LazyList.__add__', 'menpo.base:LazyList.init_from_iterable'])
def e1_lazylist(ctx, method, kind):
    """unbounded (list length symbolic): every LazyList operation against its
    whole-view contract: result view, IndexError / ValueError exactly when a
    list would raise, nothing evaluated except by integer indexing (exactly one
    stored thunk), receiver and argument lists neither rebound nor aliased."""
    from menpo.base import LazyList
    if not ctx.sym:
        # native counterpart (replay / cross-check of the E1 model): random programs on the real class
        for bl, dp in ((0, 2), (1, 4), (3, 4), (5, 6)):
            programs_native(ctx, base_len=bl, depth=dp)
        return
    fn = getattr(LazyList, method)
    fn = getattr(fn, '__func__', fn)
    g = PS.SeqGen(fn, E1_CONTRACTS, name='LazyList.%s[%s]' % (method, kind))
    view = g.fresh_seq('view', 'thunk')
    view.ident = 1
    pre = [view.length >= 0]
    s0_objs = {}
    self_ref = PS.ORef(50)
    params = {'self': self_ref, '$invoked': g.invoked0, '$n_invocations': z3.IntVal(0)}
    arg = None
    if method == '__getitem__':
        if kind in ('int', 'index-like'):
            arg = PS.Param(kind, z3.Int('i'))
        elif kind == 'slice':
            arg = PS.SliceObj(7)
            arg = PS.Param('slice', arg)
        else:
            idx = g.fresh_seq('idx', 'int')
            pre.append(idx.length >= 0)
            arg = PS.Param(kind, idx)
        params['slice_'] = arg
    elif method == 'map':
        if kind == 'callable':
            arg = PS.Param(kind, z3.Const('f', PS.Fn))
        elif kind == 'iterable-of-callables':
            fs = g.fresh_seq('fs', 'fn')
            pre.append(fs.length >= 0)
            arg = PS.Param(kind, fs)
        else:
            arg = PS.Param(kind, None)
        params['f'] = arg
    elif method == 'repeat':
        params['n'] = z3.Int('n')
        pre.append(params['n'] >= 1)
    elif method == '__add__':
        if kind == 'LazyList':
            other = g.fresh_seq('other', 'thunk')
            other.ident = 2
            pre.append(other.length >= 0)
            arg = PS.Param('LazyList', other)
        elif kind == 'plain-iterable':
            ov = _val_seq(g, 'items')
            pre.append(ov.length >= 0)
            arg = PS.Param('plain-iterable', ov)
        else:
            arg = PS.Param('non-iterable', None)
        params['other'] = arg
    elif method == 'init_from_iterable':
        ov = _val_seq(g, 'items')
        pre.append(ov.length >= 0)
        params = {'cls': PS.Param('builtin', 'cls'), 'iterable': PS.Param('plain-iterable', ov), 'f': pyvc.NONE,
                  '$invoked': g.invoked0, '$n_invocations': z3.IntVal(0)}
        arg = params['iterable']
    n = view.length
    k = z3.Int('k!post')

    def view_of(s, r):
        return s.heap[r.i].fields['_callables']

    def frame(gen, s, tag):
        if 'self' in s.env:
            sv = view_of(s, s.env['self'])
            gen.oblige(tag + '/frame/receiver-list-not-rebound', s, z3.BoolVal(sv.ident == 1 and sv.at.eq(view.at) and sv.length.eq(view.length)))

    def lazy(gen, s, tag, expected=0):
        gen.oblige(tag + '/lazy/number-of-thunks-invoked==%d' % expected, s, s.env['$n_invocations'] == expected)
        if expected == 0:
            gen.oblige(tag + '/lazy/invoked-set-unchanged', s, z3.BoolVal(s.env['$invoked'].eq(g.invoked0)))

    def fresh(gen, s, tag, r):
        rv = view_of(s, r)
        idents = [1] + ([2] if method == '__add__' and kind == 'LazyList' else [])
        gen.oblige(tag + '/frame/result-list-is-a-new-object', s, z3.BoolVal(rv.ident not in idents))

    def post(gen, s, out):
        tag = gen.name
        frame(gen, s, tag)
        if method == '__len__':
            gen.oblige(tag + '/returns/len(view)', s, out[1] == n)
            lazy(gen, s, tag)
        elif method == '__getitem__' and kind in ('int', 'index-like'):
            i = arg.payload
            j = z3.If(i < 0, i + n, i)
            inr = z3.And(j >= 0, j < n)
            if out[0] == 'raise':
                gen.oblige(tag + '/IndexError-only-if-out-of-range', s, z3.And(z3.BoolVal(out[1].cls == 'IndexError'), z3.Not(inr)))
                lazy(gen, s, tag)
            else:
                gen.oblige(tag + '/returns-only-if-in-range', s, inr)
                gen.oblige(tag + '/value==eval(view[i mod len])', s, out[1][1] == PS.evalT(view.at[j]))
                lazy(gen, s, tag, expected=1)
                gen.oblige(tag + '/lazy/evaluates-exactly-that-element', s, z3.BoolVal(True) if s.env['$invoked'].eq(z3.Store(g.invoked0, view.at[j], True)) else
                           s.env['$invoked'] == z3.Store(g.invoked0, view.at[j], True))
        elif method == '__getitem__' and kind == 'slice':
            gen.oblige(tag + '/never-raises', s, z3.BoolVal(out[0] == 'return'))
            if out[0] == 'return':
                rv = view_of(s, out[1])
                gen.oblige(tag + '/view==pyslice(view)/length', s, rv.length == PS.SliceLen(z3.IntVal(7), n))
                gen.oblige(tag + '/view==pyslice(view)/elements', s, z3.ForAll([k], z3.Implies(z3.And(k >= 0, k < rv.length),
                           rv.at[k] == view.at[PS.SliceIdx(z3.IntVal(7), n, k)])))
                fresh(gen, s, tag, out[1])
            lazy(gen, s, tag)
        elif method == '__getitem__':
            idx = arg.payload
            nj = lambda e: z3.If(e < 0, e + n, e)
            allin = z3.ForAll([k], z3.Implies(z3.And(k >= 0, k < idx.length), z3.And(nj(idx.at[k]) >= 0, nj(idx.at[k]) < n)))
            if out[0] == 'raise':
                gen.oblige(tag + '/IndexError-only-if-some-index-out-of-range', s, z3.And(z3.BoolVal(out[1].cls == 'IndexError'), z3.Not(allin)))
            else:
                rv = view_of(s, out[1])
                gen.oblige(tag + '/returns-only-if-all-indices-in-range', s, allin)
                gen.oblige(tag + '/length==number-of-indices', s, rv.length == idx.length)
                gen.oblige(tag + '/element-k==view[index-k]', s, z3.ForAll([k], z3.Implies(z3.And(k >= 0, k < idx.length), rv.at[k] == view.at[nj(idx.at[k])])))
                fresh(gen, s, tag, out[1])
            lazy(gen, s, tag)
        elif method == 'map':
            if kind == 'callable-iterable':
                gen.oblige(tag + '/ambiguous-argument-refused', s, z3.BoolVal(out[0] == 'raise' and out[1].cls == 'ValueError'))
            elif kind == 'callable':
                gen.oblige(tag + '/never-raises', s, z3.BoolVal(out[0] == 'return'))
                if out[0] == 'return':
                    rv = view_of(s, out[1])
                    f = arg.payload
                    gen.oblige(tag + '/same-length', s, rv.length == n)
                    gen.oblige(tag + '/eval(view\'[k])==f(eval(view[k]))', s, z3.ForAll([k], z3.Implies(z3.And(k >= 0, k < n),
                               PS.evalT(rv.at[k]) == PS.appF(f, PS.evalT(view.at[k])))))
                    fresh(gen, s, tag, out[1])
            else:
                fs = arg.payload
                if out[0] == 'raise':
                    gen.oblige(tag + '/ValueError-only-if-lengths-differ', s, z3.And(z3.BoolVal(out[1].cls == 'ValueError'), fs.length != n))
                else:
                    rv = view_of(s, out[1])
                    gen.oblige(tag + '/returns-only-if-one-callable-per-element', s, fs.length == n)
                    gen.oblige(tag + '/same-length', s, rv.length == n)
                    gen.oblige(tag + '/eval(view\'[k])==f_k(eval(view[k]))', s, z3.ForAll([k], z3.Implies(z3.And(k >= 0, k < n),
                               PS.evalT(rv.at[k]) == PS.appF(fs.at[k], PS.evalT(view.at[k])))))
                    fresh(gen, s, tag, out[1])
            lazy(gen, s, tag)
        elif method == 'repeat':
            gen.oblige(tag + '/never-raises', s, z3.BoolVal(out[0] == 'return'))
            if out[0] == 'return':
                rv = view_of(s, out[1])
                nn = params['n']
                gen.oblige(tag + '/length==n*len', s, rv.length == n * nn)
                gen.oblige(tag + '/element-k==view[k div n]', s, z3.ForAll([k], z3.Implies(z3.And(k >= 0, k < n * nn), rv.at[k] == view.at[k / nn])))
                fresh(gen, s, tag, out[1])
            lazy(gen, s, tag)
        elif method == 'copy':
            gen.oblige(tag + '/never-raises', s, z3.BoolVal(out[0] == 'return'))
            if out[0] == 'return':
                rv = view_of(s, out[1])
                gen.oblige(tag + '/same-view', s, z3.And(rv.length == n, z3.ForAll([k], z3.Implies(z3.And(k >= 0, k < n), rv.at[k] == view.at[k]))))
                gen.oblige(tag + '/class-kept', s, z3.BoolVal(s.heap[out[1].i].cls == 'LazyList'))
                fresh(gen, s, tag, out[1])
            lazy(gen, s, tag)
        elif method == '__add__':
            if kind == 'non-iterable':
                gen.oblige(tag + '/non-iterable-refused', s, z3.BoolVal(out[0] == 'raise' and out[1].cls == 'ValueError'))
            else:
                gen.oblige(tag + '/never-raises', s, z3.BoolVal(out[0] == 'return'))
                if out[0] == 'return':
                    rv = view_of(s, out[1])
                    ov = arg.payload
                    gen.oblige(tag + '/length==sum', s, rv.length == n + ov.length)
                    gen.oblige(tag + '/prefix==view', s, z3.ForAll([k], z3.Implies(z3.And(k >= 0, k < n), rv.at[k] == view.at[k])))
                    if kind == 'LazyList':
                        gen.oblige(tag + '/suffix==other-view', s, z3.ForAll([k], z3.Implies(z3.And(k >= n, k < n + ov.length), rv.at[k] == ov.at[k - n])))
                    else:
                        gen.oblige(tag + '/suffix-elements-return-the-items', s, z3.ForAll([k], z3.Implies(z3.And(k >= n, k < n + ov.length),
                                   PS.evalT(rv.at[k]) == ov.at[k - n])))
                    fresh(gen, s, tag, out[1])
            lazy(gen, s, tag)
        elif method == 'init_from_iterable':
            gen.oblige(tag + '/never-raises', s, z3.BoolVal(out[0] == 'return'))
            if out[0] == 'return':
                rv = view_of(s, out[1])
                ov = arg.payload
                gen.oblige(tag + '/length', s, rv.length == ov.length)
                gen.oblige(tag + '/element-k-returns-item-k', s, z3.ForAll([k], z3.Implies(z3.And(k >= 0, k < ov.length), PS.evalT(rv.at[k]) == ov.at[k])))
            lazy(gen, s, tag)

    st = pyvc.State(params, {50: PS.ObjV('LazyList', {'_callables': view})}, list(pre))
    g.paths = g.vacuous_paths = 0
    for s_end, out in g.run_block(g.body, st):
        g.paths += 1
        post(g, s_end, out if out is not None else ('return', pyvc.NONE))
    recs = pyvc.discharge(g.vcs)
    ctx.check_true('vc-generated>0', len(recs) > 0 and g.paths > 0)
    native_fail = None
    if any(r['status'] == 'unknown' for r in recs):
        # an undischarged VC is reported as violated only if the real class
        # misbehaves natively (seeded programs); otherwise it stays undecided
        from vp.core import Ctx
        from vp.sreal import ENG
        was = ENG.active
        ENG.active = False
        try:
            fails = []
            for sd in range(12):
                nctx = Ctx('native', seed=sd)
                for bl, dp in ((1, 4), (3, 4), (5, 6)):
                    programs_native(nctx, base_len=bl, depth=dp)
                fails += nctx.native_failures
        finally:
            ENG.active = was
        native_fail = fails[:2]
    for r in recs:
        if r['status'] == 'unknown' and native_fail:
            r = dict(r, status='refuted', backend=r['backend'] + '+native-counterexample', model={'native_failing_case': native_fail[0]['clause']})
        rec = dict(name='VC:' + r['name'], status=r['status'], backend='E1:' + r['backend'], time_s=r['time_s'])
        if r['status'] != 'proved':
            rec['detail'] = 'solver model (list lengths / indices): %s' % {kk: vv for kk, vv in (r.get('model') or {}).items() if not kk.startswith('k!')}
            rec['model'] = r.get('model')
        ctx.extra_results.append(rec)
    ctx.note('extraction dropped: %s' % g.dropped)
