"""C09 — apply() is pure: no history, aliasing or batch-size effects."""
import itertools

import numpy as np
import z3

from vp.registry import contract
from vp import pyvc
from . import builders as B
from .state import state_of, compare_states
from .c04 import pwa_setup

TRUSTED = [
    'E1 builtin contracts: python slicing of arrays, list.append on a list built from [], np.vstack / np.hstack = concatenation of the appended batches, np.zeros(k, dtype=bool) = k False values, range(a, b, c)',
    'callee contract of _apply used by the batching proofs: row-wise map F, resp. (PWA) raises TriangleContainmentError with one flag per input point iff some point is outside - verified per class by C02/apply_is_rowwise_pure and C09/pwa_error_identifies_points',
]
ASSUMPTIONS = ['python ints are mathematical integers; arrays are (length, element function) pairs; **kwargs merely forwarded are ignored']


# ----------------------------------------------------------------- E1 sidecar
def _sym_array(name, kind='rows'):
    n = z3.Int(name + '_n')
    at = z3.Array(name + '_at', z3.IntSort(), pyvc.Row if kind == 'rows' else z3.BoolSort())
    return pyvc.ArrV(n, at, kind)


F = z3.Function('F_apply', pyvc.Row, pyvc.Row)          # the row-wise map of the transform
OUT = z3.Function('outside', pyvc.Row, z3.BoolSort())    # point lies outside the source domain


def c_apply_rowwise(gen, s, args, kw):
    """contract of Transform._apply: same length, out[i] = F(in[i])"""
    v = args[0]
    r = pyvc.ArrV(v.length, gen.fresh_arr('applied'), 'rows')
    i = z3.Int('i!ap')
    s.pc.append(z3.ForAll([i], z3.Implies(z3.And(i >= 0, i < v.length), r.at[i] == F(v.at[i]))))
    return [(s, r)]


def c_apply_pwa(gen, s, args, kw):
    """contract of AbstractPWA._apply: normal return (row-wise F) iff no point
    of the batch is outside; otherwise TriangleContainmentError carrying one
    flag per input point, flag[i] <=> outside(in[i])"""
    v = args[0]
    i = z3.Int('i!pw')
    some_out = z3.Exists([i], z3.And(i >= 0, i < v.length, OUT(v.at[i])))
    ok = s.fork([z3.ForAll([i], z3.Implies(z3.And(i >= 0, i < v.length), z3.Not(OUT(v.at[i]))))])
    r = pyvc.ArrV(v.length, gen.fresh_arr('applied'), 'rows')
    ok.pc.append(z3.ForAll([i], z3.Implies(z3.And(i >= 0, i < v.length), r.at[i] == F(v.at[i]))))
    j = gen.fresh_int('outside_idx')
    bad = s.fork([z3.And(j >= 0, j < v.length, OUT(v.at[j]))])
    m = pyvc.ArrV(v.length, gen.fresh_arr('flags', 'mask'), 'mask')
    bad.pc.append(z3.ForAll([i], z3.Implies(z3.And(i >= 0, i < v.length), m.at[i] == OUT(v.at[i]))))
    return [(ok, r), (bad, pyvc.ExcV('TriangleContainmentError', dict(points_outside_source_domain=m)))]


def c_stack(gen, s, args, kw):
    """np.vstack / np.hstack of a list built by appends: its ghost concatenation"""
    l = s.heap[args[0].i]
    gen.oblige('%s/stack/non-empty-list' % gen.name, s, l.count >= 1)
    return [(s, pyvc.ArrV(l.cat_len, pyvc.cat(gen, l, l.kind or 'rows'), l.kind or 'rows'))]


def c_zeros_bool(gen, s, args, kw):
    k = args[0]
    gen.oblige('%s/np.zeros/non-negative-length' % gen.name, s, k >= 0)
    at = z3.K(z3.IntSort(), z3.BoolVal(False))
    return [(s, pyvc.ArrV(k, at, 'mask'))]


def c_tce(gen, s, args, kw):
    return [(s, pyvc.ExcV('TriangleContainmentError', dict(points_outside_source_domain=args[0])))]


def _min(a, b):
    return z3.If(a < b, a, b)


def _run_e1(ctx, func, contracts, invariants, post, which, native=None):
    x = _sym_array('x')
    b = z3.Int('batch_size')
    params = dict(self=pyvc.NONE, x=x, batch_size=b, kwargs=pyvc.NONE)
    pre = [x.length >= 1, b >= 1]
    g = pyvc.Gen(func, contracts, invariants, name=which)
    vcs = g.run(params, pre, post)
    recs = pyvc.discharge(vcs)
    ctx.check_true('vc-generated>0', len(recs) > 0)
    native_fail = None
    if native is not None and any(r['status'] != 'proved' for r in recs):
        # an undischarged VC is only reported as violated if the real code
        # fails the same postcondition natively (bounded search); otherwise it stays undecided
        from vp.core import Ctx
        from vp.sreal import ENG
        nctx = Ctx('native', seed=1)
        was = ENG.active
        ENG.active = False
        try:
            native(nctx)
        finally:
            ENG.active = was
        native_fail = nctx.native_failures[:3]
    for r in recs:
        if r['status'] != 'proved' and native_fail:
            r = dict(r, status='refuted', backend=r['backend'] + '+native-counterexample', model={'native_failing_case': native_fail[0]['clause']})
        rec = dict(name='VC:' + r['name'], status=r['status'], backend='E1:' + r['backend'], time_s=r['time_s'])
        if r['status'] != 'proved':
            rec['detail'] = 'solver: %s' % {k: v for k, v in (r.get('model') or {}).items() if k in ('x_n', 'batch_size', 'native_failing_case')}
            rec['model'] = {k: v for k, v in (r.get('model') or {}).items() if k in ('x_n', 'batch_size', 'native_failing_case')}
        ctx.extra_results.append(rec)
    ctx.note('extraction dropped: %s; source lines: %d' % (g.dropped, g.src_lines))
    ctx.check_true('vacuity/terminating-paths-with-satisfiable-assumptions', g.paths - g.vacuous_paths >= 1, '%d paths, %d vacuous' % (g.paths, g.vacuous_paths))
    # also the None branch: batch_size is None -> plain _apply
    g2 = pyvc.Gen(func, contracts, invariants, name=which + '[batch_size=None]')
    params2 = dict(self=pyvc.NONE, x=x, batch_size=pyvc.NONE, kwargs=pyvc.NONE)
    for r in pyvc.discharge(g2.run(params2, [x.length >= 1], post)):
        ctx.extra_results.append(dict(name='VC:' + r['name'], status=r['status'], backend='E1:' + r['backend'], time_s=r['time_s']))


def _post_rowwise(x):
    def post(gen, s, out):
        if out[0] == 'raise':
            gen.oblige('%s/never-raises' % gen.name, s, z3.BoolVal(False))
            return
        r = out[1]
        i = z3.Int('i!post')
        gen.oblige('%s/ensures/length==n' % gen.name, s, r.length == x.length)
        gen.oblige('%s/ensures/row-i==F(x-i) (== unbatched result)' % gen.name, s,
                   z3.ForAll([i], z3.Implies(z3.And(i >= 0, i < x.length), r.at[i] == F(x.at[i]))))
    return post


@contract('C09', 'e1_transform_apply_batched', configs=[{}], functions=['menpo.transform.base:Transform._apply_batched', 'menpo.transform.base:Transform.apply'])
def e1_transform_apply_batched(ctx):
    """unbounded: for every number of points n >= 1 and every batch size
    b >= 1 (dividing n or not, larger than n): the batched result has n rows
    and row i is F(x_i), i.e. exactly the unbatched result."""
    from menpo.transform.base import Transform
    if not ctx.sym:
        return _native_transform_batched(ctx)
    x = _sym_array('x')

    def inv(gen, s, k, s_entry, role):
        l = s.heap[s.env['outputs'].i]
        i = z3.Int('i!inv')
        n = x.length
        return z3.And(l.cat_len == _min(k, n), l.count >= 0, z3.Implies(k > 0, l.count >= 1),
                      z3.ForAll([i], z3.Implies(z3.And(i >= 0, i < l.cat_len), pyvc.cat(gen, l, 'rows')[i] == F(x.at[i]))))
    contracts = {'self._apply': c_apply_rowwise, 'np.vstack': c_stack}
    _run_e1(ctx, Transform._apply_batched, contracts, {0: inv}, _post_rowwise(x), 'Transform._apply_batched', native=_native_transform_batched)


@contract('C09', 'e1_pwa_apply_batched', configs=[{}], functions=['menpo.transform.piecewiseaffine.base:AbstractPWA._apply_batched'])
def e1_pwa_apply_batched(ctx):
    """unbounded: normal return iff no point is outside, then == unbatched;
    otherwise TriangleContainmentError whose mask has exactly n entries and
    flags exactly the outside points, for every n >= 1 and b >= 1."""
    from menpo.transform.piecewiseaffine.base import AbstractPWA
    if not ctx.sym:
        return _native_pwa_batched(ctx)
    x = _sym_array('x')
    n = x.length
    i = z3.Int('i!inv')

    def inv(gen, s, k, s_entry, role):
        lo = s.heap[s.env['outputs'].i]
        lm = s.heap[s.env['points_outside_source_domain'].i]
        thrown = s.env['exception_thrown']
        seen = _min(k, n)
        # "thrown <=> some seen point is outside", with an explicit witness:
        # a fresh constant when the invariant is assumed, an existential when it is asserted
        w = gen.fresh_int('witness')
        wit = z3.And(w >= 0, w < seen, OUT(x.at[w]))
        none_out = z3.ForAll([i], z3.Implies(z3.And(i >= 0, i < seen), z3.Not(OUT(x.at[i]))))
        some = z3.And(z3.Implies(thrown, wit if role == 'assume' else z3.Exists([w], wit)), z3.Implies(z3.Not(thrown), none_out))
        return z3.And(lm.cat_len == seen, lm.count >= 0, lo.count >= 0, z3.Implies(k > 0, lm.count >= 1),
                      z3.ForAll([i], z3.Implies(z3.And(i >= 0, i < seen), pyvc.cat(gen, lm, 'mask')[i] == OUT(x.at[i]))),
                      some,
                      z3.Implies(z3.Not(thrown), z3.And(lo.cat_len == seen, z3.Implies(k > 0, lo.count >= 1),
                                                        z3.ForAll([i], z3.Implies(z3.And(i >= 0, i < seen), pyvc.cat(gen, lo, 'rows')[i] == F(x.at[i]))))))

    def post(gen, s, out):
        some = z3.Exists([i], z3.And(i >= 0, i < n, OUT(x.at[i])))
        if out[0] == 'raise':
            e = out[1]
            gen.oblige('%s/raises-only-if-some-point-outside' % gen.name, s, some)
            m = e.payload['points_outside_source_domain']
            gen.oblige('%s/error/one-flag-per-input-point (len == n)' % gen.name, s, m.length == n)
            gen.oblige('%s/error/flags-exactly-the-outside-points' % gen.name, s,
                       z3.ForAll([i], z3.Implies(z3.And(i >= 0, i < n), m.at[i] == OUT(x.at[i]))))
        else:
            r = out[1]
            gen.oblige('%s/returns-only-if-no-point-outside' % gen.name, s, z3.Not(some))
            gen.oblige('%s/ensures/length==n' % gen.name, s, r.length == n)
            gen.oblige('%s/ensures/row-i==F(x-i) (== unbatched result)' % gen.name, s,
                       z3.ForAll([i], z3.Implies(z3.And(i >= 0, i < n), r.at[i] == F(x.at[i]))))
    contracts = {'self._apply': c_apply_pwa, 'np.vstack': c_stack, 'np.hstack': c_stack, 'np.zeros': c_zeros_bool,
                 'TriangleContainmentError': c_tce}
    _run_e1(ctx, AbstractPWA._apply_batched, contracts, {0: inv}, post, 'AbstractPWA._apply_batched', native=_native_pwa_batched)


def _native_transform_batched(ctx):
    """native counterpart (used for replay and as cross-check of the E1 model)"""
    T, S = B.menpo_mods()
    rs = ctx.nprng
    t = T.Affine(np.vstack([np.hstack([np.eye(2) + .2 * rs.randn(2, 2), rs.randn(2, 1)]), [0, 0, 1]]))
    for n in range(1, 7):
        x = rs.randn(n, 2)
        ref = t.apply(x)
        for b in range(1, 10):
            ctx.check_true('n=%d,b=%d/batched==unbatched' % (n, b), np.array_equal(t.apply(x, batch_size=b), ref))
        # inputs that are not float64 (integer pixel indices as the image warps pass them, float32 data)
        for name, xi in (('int-grid', rs.randint(0, 9, size=(n, 2))), ('float32', rs.randn(n, 2).astype(np.float32))):
            refi = t.apply(xi)
            for b in (1, 2, 5, 20):
                got = t.apply(xi, batch_size=b)
                ctx.check_true('n=%d,b=%d,%s/batched==unbatched' % (n, b, name), got.dtype == refi.dtype and np.array_equal(got, refi),
                               'max abs diff %g, dtype %s vs %s' % (np.abs(np.asarray(got, dtype=float) - refi).max(), got.dtype, refi.dtype))
            pc = S.PointCloud(xi.astype(float))
            ctx.check_true('n=%d,%s/pointcloud-batched==unbatched' % (n, name), np.array_equal(t.apply(pc, batch_size=2).points, t.apply(pc).points))


def _pwa_and_points(rs, pattern):
    T, S = B.menpo_mods()
    src = S.TriMesh(np.array([[0., 0.], [1., 0.], [0., 1.], [1., 1.]]), trilist=np.array([[0, 1, 2], [1, 3, 2]]))
    tgt = S.PointCloud(src.points * 2 + 1)
    def point(kind):
        if kind is True or kind == 'in':
            return [rs.uniform(0.1, 0.9), rs.uniform(0.1, 0.9)]
        if kind == 'edge':          # exactly on the edge shared by the two triangles: contained in both
            return [0.5, 0.5]
        if kind == 'vertex':        # a vertex shared by the two triangles
            return [1.0, 0.0]
        return [rs.uniform(1.5, 3), rs.uniform(-2, -0.5)]
    pts = np.array([point(k) for k in pattern])
    return T.PiecewiseAffine(src, tgt), pts


def _native_pwa_batched(ctx):
    from menpo.transform.piecewiseaffine.base import TriangleContainmentError
    rs = ctx.nprng
    patterns = [p for n in range(1, 6) for p in itertools.product([True, False], repeat=n)]
    # points lying in two triangles at once (shared edge / shared vertex) mixed with inside and outside ones
    patterns += [p for n in range(1, 5) for p in itertools.product(['in', 'out', 'edge', 'vertex'], repeat=n) if 'edge' in p or 'vertex' in p]
    for pattern in patterns:
        n = len(pattern)
        if True:
            pwa, pts = _pwa_and_points(rs, pattern)
            outside = np.array([p is False or p == 'out' for p in pattern])
            for b in (1, 2, 3, 4, 5, 7):
                tag = 'n=%d,b=%d,points=%s' % (n, b, ''.join('o' if (p is False or p == 'out') else 'e' if p == 'edge' else 'v' if p == 'vertex' else 'i' for p in pattern))
                try:
                    r = pwa.apply(pts, batch_size=b)
                    ctx.check_true(tag + '/returns-only-if-no-point-outside', not outside.any())
                    ctx.check_true(tag + '/batched==unbatched', np.array_equal(r, pwa.apply(pts)))
                except TriangleContainmentError as e:
                    m = np.asarray(e.points_outside_source_domain)
                    ctx.check_true(tag + '/raises-only-if-some-point-outside', bool(outside.any()))
                    ctx.check_true(tag + '/error/one-flag-per-input-point', m.shape == (n,), str(m.shape))
                    ctx.check_true(tag + '/error/flags-exactly-the-outside-points', m.shape == (n,) and np.array_equal(m.astype(bool), outside))


@contract('C09', 'batching_native', level='bounded', native_samples=2, configs=[dict(which=w) for w in ('transform', 'pwa', 'pwa_point_in_pointcloud')],
          functions=['menpo.transform.base:Transform._apply_batched', 'menpo.transform.piecewiseaffine.base:AbstractPWA._apply_batched',
                     'menpo.image.boolean:pwa_point_in_pointcloud'])
def batching_native(ctx, which):
    """bounded stand-in / cross-check of the E1 models on the real code: all
    n <= 6 resp. 5, batch sizes from 1 to beyond n, every inside/outside pattern."""
    if which == 'transform':
        return _native_transform_batched(ctx)
    if which == 'pwa':
        return _native_pwa_batched(ctx)
    from menpo.image.boolean import pwa_point_in_pointcloud
    T, S = B.menpo_mods()
    rs = ctx.nprng
    pc = S.PointCloud(np.array([[0., 0.], [4., 0.], [0., 4.], [4., 4.]]))
    for n in (1, 2, 3, 5, 8):
        idx = np.array([[rs.uniform(-2, 6), rs.uniform(-2, 6)] for _ in range(n)])
        ref = pwa_point_in_pointcloud(pc, idx, batch_size=None)
        ctx.check_true('n=%d/unbatched-mask-length' % n, ref.shape == (n,))
        for b in (1, 2, 3, 4, 7, 20):
            m = pwa_point_in_pointcloud(pc, idx, batch_size=b)
            ctx.check_true('n=%d,b=%d/mask-length==n' % (n, b), m.shape == (n,), str(m.shape))
            ctx.check_true('n=%d,b=%d/mask==unbatched' % (n, b), m.shape == ref.shape and np.array_equal(m, ref))


# ------------------------------------------------------------ E2: histories
@contract('C09', 'pwa_error_identifies_points', configs=[dict(pattern=list(p)) for p in itertools.product([True, False], repeat=2)] +
          [dict(pattern=[True, False, True])], max_paths=300, functions=[
    'menpo.transform.piecewiseaffine.base:AbstractPWA._apply', 'menpo.transform.piecewiseaffine.base:containment_from_alpha_beta',
    'menpo.transform.piecewiseaffine.base:index_alpha_beta', 'menpo.transform.piecewiseaffine.base:CachedPWA.index_alpha_beta',
    'menpo.transform.piecewiseaffine.base:TriangleContainmentError.__init__'])
def pwa_error_identifies_points(ctx, pattern):
    """callee contract used by the batching proof + history independence on
    the caching PWA: points symbolic (inside / clearly outside one triangle)."""
    from menpo.transform.piecewiseaffine.base import TriangleContainmentError
    T, S = B.menpo_mods()
    src, tgt, trilist = pwa_setup(ctx, 1)
    pwa = T.PiecewiseAffine(src, tgt)
    a, b, c = (np.asarray(src.points)[k] for k in range(3))
    rows = []
    for k, inside in enumerate(pattern):
        if inside:
            al = ctx.real('al%d' % k, lo=0.05, hi=0.9); be = ctx.real('be%d' % k, lo=0.05, hi=0.9)
            ctx.assume(al + be < 0.95, 'inside')
        else:
            al = ctx.real('al%d' % k, lo=-3.0, hi=-0.1); be = ctx.real('be%d' % k, lo=0.05, hi=0.9)
        rows.append(a + al * (b - a) + be * (c - a))
    x = np.array(rows, dtype=object if ctx.sym else float)
    outside = np.array([not p for p in pattern])
    ta, tb, tc = (np.asarray(tgt.points)[k] for k in range(3))

    def expect(call_tag, pts, outs):
        try:
            r = pwa.apply(pts)
            ctx.check_true(call_tag + '/returns-only-if-no-point-outside', not outs.any())
            return r
        except TriangleContainmentError as e:
            m = np.asarray(e.points_outside_source_domain)
            ctx.check_true(call_tag + '/raises-only-if-some-point-outside', bool(outs.any()))
            ctx.check_true(call_tag + '/one-flag-per-point', m.shape == (len(outs),))
            ctx.check_true(call_tag + '/flags-exactly-the-outside-points', m.shape == (len(outs),) and np.array_equal(m.astype(bool), outs))
            return None
    # an all-inside array first, then the mixed one twice, then the first again
    ins = np.array([a + ctx.real('ia%d' % k, lo=0.05, hi=0.45) * (b - a) + ctx.real('ib%d' % k, lo=0.05, hi=0.45) * (c - a) for k in range(len(pattern))],
                   dtype=object if ctx.sym else float)
    r1 = expect('call1(inside)', ins.copy(), np.zeros(len(pattern), dtype=bool))
    expect('call2(mixed)', x.copy(), outside)
    expect('call3(mixed-again: same answer, the failed call left no trace)', x.copy(), outside)
    r4 = expect('call4(inside-again)', ins.copy(), np.zeros(len(pattern), dtype=bool))
    if r1 is not None and r4 is not None:
        ctx.check_eq('same-input-same-result-whatever-happened-in-between', r4, r1)
    # in-place edit of a previously passed array
    buf = ins.copy()
    ra = pwa.apply(buf)
    buf[0] = a + ctx.real('ea', lo=0.5, hi=0.9) * (b - a) + ctx.real('eb', lo=0.01, hi=0.05) * (c - a)
    rb = pwa.apply(buf)
    rc = pwa.apply(np.array(buf, dtype=object if ctx.sym else float, copy=True))
    ctx.check_eq('in-place-edit-of-a-passed-array/result-follows-the-current-values', rb, rc)
