#!/usr/bin/env python3
"""round-13 prompt: the same object in two roles (aliased arguments)."""
import json, sys
HINT = ('a change that is wrong only under ALIASING - when the same object, or arrays sharing memory, appear in two roles of one call or one short '
        'sequence: an argument that is (or is a view of) the receiver\'s own state, source and target being the same object, a transform composed with itself, '
        'the same shape attached twice (as two landmark groups, or as landmark of itself\'s copy), an output of one call fed back as input of the next while the '
        'first result is still in use, a list containing the same element twice; with distinct, freshly built objects everything keeps working')

pid = sys.argv[1]
for l in open('/verif/properties.jsonl'):
    p = json.loads(l)
    if p['id'] == pid:
        break
W = '/tmp/wt13_%s' % pid
print(f"""You are given a git worktree of the open-source Python library `menpo` at {W} (a checkout of the current HEAD). Work ONLY inside {W}. Do not read or touch /repo, /verif or any other directory. Python with all dependencies is /venv/bin/python; run the library's tests with e.g.
  cd {W} && /venv/bin/python -m pytest -q -p no:cacheprovider --timeout=900 --continue-on-collection-errors menpo
(the full suite takes a couple of minutes; about 31 tests fail already on the unmodified tree because of the installed numpy/matplotlib versions - record which ones fail BEFORE your change and make sure exactly the same set fails AFTER it). To run scripts against the worktree use PYTHONPATH={W}.

Here is a semantic property that the library is supposed to satisfy:

TITLE: {p['title']}
STATEMENT: {p['statement']}
QUANTIFIED OVER: {p['quantifier']['text']}

Your task: craft ONE realistic change (a bug a developer could plausibly introduce: a refactoring slip, an optimisation, an off-by-one, a dropped copy, a wrong branch, two cooperating sites that each look fine alone) to the library source under menpo/ (NOT to the tests) that BREAKS this property, while the library still imports and the existing test-suite result is unchanged (same tests pass, same pre-existing failures). The breakage must need something SPECIFIC to manifest - an unusual input, a particular class or option combination, a multi-step sequence of operations, a particular size/shape/batch relation - not something ordinary use would expose at once.

To diversify the changes being collected, prefer {HINT}.

Deliverables, all written into the directory {W}/_seed/ :
  1. patch.diff  - output of `git -C {W} diff -- menpo` for your change (the working tree must contain exactly this change when you finish).
  2. demo.py     - a small standalone program (run as: PYTHONPATH=<tree> /venv/bin/python demo.py) that exits 0 on the unmodified tree and exits non-zero (assertion failure) on the modified tree, demonstrating the property violation through the public API.
  3. meta.json   - {{"property": "{pid}", "summary": "...what the change does...", "needs": "...what specific input/sequence is needed to manifest...", "files": [...], "tests_run": "...command and result before/after..."}}
Verify yourself: (a) demo.py passes on a clean checkout and fails with the change - to get a clean tree use `git -C {W} diff -- menpo > /tmp/wt13_{pid}.patch; git -C {W} apply -R /tmp/wt13_{pid}.patch` and re-apply with `git -C {W} apply /tmp/wt13_{pid}.patch` (do NOT use git stash: the stash is shared with other worktrees); (b) the test-suite outcome is identical before and after. Report briefly what you did. Keep the change small (a few lines).""")
