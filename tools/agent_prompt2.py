#!/usr/bin/env python3
"""round-2 prompt: as agent_prompt.py, with a focus clause taken from the
property statement itself (so that the second change differs from the first)
and without git stash (shared between worktrees)."""
import json, sys
FOCUS = {
 'C01': 'the crop family, rescale/resize family, mirror or the pyramids, and what happens to LANDMARKS and the returned transform (rather than masks in warp_to_shape)',
 'C02': 'connectivity, triangle lists, labels, per-vertex colours, textures and texture coordinates being carried over unchanged, and the input shape / transform not being modified',
 'C03': 'the result of composing two homogeneous-family transforms being a single transform of an HONEST class (never a chain, never an alignment), or the affine decomposition recomposing',
 'C04': 'the pseudoinverse of ALIGNMENT transforms (source and target exchanged) or of the interpolating warps (thin-plate splines, piecewise affine) fitted in the reverse direction',
 'C05': 'shapes (point clouds, graphs, meshes) or alignment transforms keeping their target equal to the aligned source after a parameter update, or as_vector() being read-only / from_vector not changing the receiver',
 'C06': 'the landmark manager: assigning stores a copy, insertion order, one dimensionality for all groups, resolution of the None key; or copies of images / transforms / models',
 'C07': 'thin-plate-spline and piecewise-affine interpolation, scale/similarity alignments reproducing centroid and size, or aligned_source / alignment_error',
 'C08': 'generalized Procrustes analysis, the rejection of incompatible targets, or retargeting never altering the source / the passed point sets; or the non-similarity alignment classes',
 'C09': 'batching (any batch size gives the same result) and the error of out-of-domain points identifying exactly those points, once per input point',
 'C10': 'projection / reconstruction / instance building / residual orthogonality, or n_active_components and variance bookkeeping other than double trimming',
 'C11': 'the incremental Gaussian Markov random field (mean and precision equal to the batch model), or the sample count / mean bookkeeping of incremental PCA',
 'C12': 'Mahalanobis distances (single vs batched, zero at mean), the dense precision, the model mean, or symmetry',
 'C13': 'cropping (floored minimum / ceiled maximum, landmarks shifted, clipping vs ImageBoundaryError, any number of dimensions, dtype)',
 'C14': 'graph (not tree) masking, neighbours / children / parents / isolated vertices, minimum spanning trees, has_cycles / is_tree, or tree depth / leaf relations',
 'C15': 'the predefined labelling functions (faces, eyes, hands, poses, cars, tongues), or with_labels / without_labels / add_label and label order',
 'C16': 'the overwrite guard for the various exporters and path spellings, pickles, the points (.pts) format, or 8-bit images',
 'C17': 'masking a mesh by vertices or triangles (kept triangles, dropped orphan vertices, renumbering, colours / texture coordinates carried), boundary detection or unique edges',
 'C18': 'the feature wrappers: same values for array and image, input not modified, landmarks and mask unchanged or RESCALED when the feature changes the image size',
 'C19': 'map, repeat, concatenation (+), copy, slicing, laziness (nothing evaluated; one element evaluates only what it depends on) and the receivers behaving afterwards as before',
 'C20': "transforms built 'about the centre', the scale factory, the texture-coordinate transforms, or the counter-clockwise constructors (degrees/radians, axis sense)",
}
pid = sys.argv[1]
for l in open('/verif/properties.jsonl'):
    p = json.loads(l)
    if p['id'] == pid:
        break
W = '/tmp/wt2_%s' % pid
print(f"""You are given a git worktree of the open-source Python library `menpo` at {W} (a checkout of the current HEAD). Work ONLY inside {W}. Do not read or touch /repo, /verif or any other directory. Python with all dependencies is /venv/bin/python; run the library's tests with e.g.
  cd {W} && /venv/bin/python -m pytest -q -p no:cacheprovider --timeout=900 --continue-on-collection-errors menpo
(the full suite takes a couple of minutes; about 31 tests fail already on the unmodified tree because of the installed numpy/matplotlib versions - record which ones fail BEFORE your change and make sure exactly the same set fails AFTER it). To run scripts against the worktree use PYTHONPATH={W}.

Here is a semantic property that the library is supposed to satisfy:

TITLE: {p['title']}
STATEMENT: {p['statement']}
QUANTIFIED OVER: {p['quantifier']['text']}

Your task: craft ONE realistic change (a bug a developer could plausibly introduce: a refactoring slip, an optimisation, an off-by-one, a dropped copy, a wrong branch, two cooperating sites that each look fine alone) to the library source under menpo/ (NOT to the tests) that BREAKS this property, while the library still imports and the existing test-suite result is unchanged (same tests pass, same pre-existing failures). The breakage must need something SPECIFIC to manifest - an unusual input, a particular class or option combination, a multi-step sequence of operations, a particular size/shape/batch relation - not something ordinary use would expose at once.
To diversify the changes being collected, aim yours at this part of the statement: {FOCUS[pid]}.

Deliverables, all written into the directory {W}/_seed/ :
  1. patch.diff  - output of `git -C {W} diff -- menpo` for your change (the working tree must contain exactly this change when you finish).
  2. demo.py     - a small standalone program (run as: PYTHONPATH=<tree> /venv/bin/python demo.py) that exits 0 on the unmodified tree and exits non-zero (assertion failure) on the modified tree, demonstrating the property violation through the public API.
  3. meta.json   - {{"property": "{pid}", "summary": "...what the change does...", "needs": "...what specific input/sequence is needed to manifest...", "files": [...], "tests_run": "...command and result before/after..."}}
Verify yourself: (a) demo.py passes on a clean checkout and fails with the change - to get a clean tree use `git -C {W} diff -- menpo > /tmp/wt2_{pid}.patch; git -C {W} apply -R /tmp/wt2_{pid}.patch` and re-apply with `git -C {W} apply /tmp/wt2_{pid}.patch` (do NOT use git stash: the stash is shared with other worktrees); (b) the test-suite outcome is identical before and after. Report briefly what you did. Keep the change small (a few lines).""")
