#!/usr/bin/env python3
"""Rewrite the table between the EVIDENCE-TABLE markers of DESIGN.md from evidence/*.json."""
import glob, json, os, re
ROOT = os.path.dirname(os.path.dirname(os.path.abspath(__file__)))
rows = ['| property | level | obligations (all discharged) | by back end | symbolic paths | bounded cases | functions under contract | wall (s) |', '|---|---|---|---|---|---|---|---|']
for f in sorted(glob.glob(os.path.join(ROOT, 'evidence', 'C*.json'))):
    e = json.load(open(f)); c = e['coverage']
    be = ', '.join('%s %d' % (k, v) for k, v in sorted(c['by_backend'].items(), key=lambda kv: -kv[1]))
    rows.append('| %s | %s | %d | %s | %d | %d | %d | %.0f |' % (e['property_id'], e['level'], c['obligations'], be or '-', c['paths_explored'], c['bounded_cases'],
                                                                len({x['function'] for x in c['functions_under_contract']}), e['wall_s']))
p = os.path.join(ROOT, 'DESIGN.md'); s = open(p).read()
block = '<!-- EVIDENCE-TABLE -->\n' + '\n'.join(rows) + '\n<!-- /EVIDENCE-TABLE -->'
if '<!-- EVIDENCE-TABLE -->' in s:
    s = re.sub(r'<!-- EVIDENCE-TABLE -->.*?<!-- /EVIDENCE-TABLE -->', lambda m: block, s, flags=re.S)
else:
    s = s.replace('## 7. Findings on the pinned tree', 'Current numbers (regenerated from `evidence/*.json` by `tools/evidence_table.py`; the figures quoted in the paragraphs above are from the first full run and have only grown since):\n\n' + block + '\n\n## 7. Findings on the pinned tree', 1)
open(p, 'w').write(s)
print('\n'.join(rows))
