#!/bin/bash
# runs every stored seed against the check of its property (scratch worktree) and records the outcome
cd /verif
for d in ${@:-seeded/*/}; do
  id=$(basename $d); p=${id%-*}
  out=$(tools/try_seed.sh $d $p 2>&1)
  rc=$(echo "$out" | grep '^exit=' | cut -d= -f2)
  first=$(echo "$out" | grep '^VIOLATION' | head -1 | sed 's/.*obligation=//' | cut -c1-200)
  n=$(echo "$out" | grep '^violations:' | cut -d' ' -f2)
  echo "$id exit=$rc violations=$n first=$first"
  .venv/bin/python - "$d" "$rc" "$n" "$first" <<'PY'
import json, sys
d, rc, n, first = sys.argv[1:5]
p = d + '/meta.json'
m = json.load(open(p))
m['check_result'] = dict(command='tools/try_seed.sh %s %s  (patch applied in a scratch worktree of /repo, ./check run with VERIF_REPO pointing at it)' % (d, d.split('/')[1].split('-')[0]),
                         exit_code=int(rc) if rc.isdigit() else rc, violated_obligations=int(n) if n.isdigit() else n, first_violated_obligation=first)
json.dump(m, open(p, 'w'), indent=1)
PY
done
