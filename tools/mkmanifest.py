#!/usr/bin/env python3
"""Regenerate MANIFEST.json from vp/manifest_levels.py (single source of truth
for the claimed level, so evidence files and manifest cannot disagree)."""
import json, os, sys
ROOT = os.path.dirname(os.path.dirname(os.path.abspath(__file__)))
sys.path.insert(0, ROOT)
from vp import manifest_levels as ML

PERSONA_PROPS = {'C01', 'C02', 'C03', 'C04', 'C05', 'C06', 'C07', 'C08', 'C09', 'C10', 'C11', 'C12', 'C13', 'C14', 'C16', 'C17', 'C19', 'C20'}
props = [json.loads(l) for l in open(os.path.join(ROOT, 'properties.jsonl'))]
checks, na = [], []
for p in props:
    pid = p['id']
    if pid in ML.CLAIMS:
        c = ML.CLAIMS[pid]
        checks.append(dict(
            property_id=pid,
            quick_cmd='./check %s --tier quick' % pid,
            thorough_cmd='./check %s --tier thorough' % pid,
            evidence_file='evidence/%s.json' % pid,
            replay_cmd_template='./check --replay {path}',
            engine=c['engine'],
            level_claimed=dict(category=ML.LEVELS[pid], text=c['text'], design_ref=c['design_ref']),
            level_note=c['note'] + (' Bounded representation- / history-independence contracts (contracts/personas.py) and the state-reconstruction oracle over random operation histories (contracts/fuzz.py) run with this check and are counted under bounded_cases, never as proved.' if pid in PERSONA_PROPS else '') + ' A bounded size-sweeping contract (contracts/sizes.py: the same law on inputs that cross size thresholds, which the fixed-size symbolic configurations cannot reach) also runs with this check, counted under bounded_cases; so do, where the property has one, the bounded aliased-argument contracts of contracts/aliasing.py.',
            technique=c['technique'],
        ))
    else:
        na.append(dict(property_id=pid, reason=ML.NOT_CLAIMED.get(pid, 'no check built yet for this property in this round (work in progress); nothing is claimed')))
m = dict(
    version=1,
    setup_cmd='./setup.sh',
    hooks=dict(guard='MENPO_VERIF', enable='none: all contracts are sidecars under /verif; no hook code exists in /repo',
               baseline_off_cmd='cd /repo && /venv/bin/python -m pytest -q -p no:cacheprovider --timeout=900 --continue-on-collection-errors',
               source_commits=[], add_only=True),
    engines=[
        dict(name='symnp (E2)', path='vp/sreal.py vp/proxy.py vp/core.py vp/discharge.py vp/poly.py',
             serves_properties=sorted(k for k, v in ML.CLAIMS.items() if 'E2' in v['engine']),
             kind_free_text='symbolic execution of the unmodified menpo function objects on numpy object arrays of symbolic reals; per-path proof obligations from sidecar contracts discharged by polynomial normal form, Groebner bases (sympy), z3, cvc5'),
        dict(name='pyvc (E1)', path='vp/pyvc',
             serves_properties=sorted(k for k, v in ML.CLAIMS.items() if 'E1' in v['engine']),
             kind_free_text='weakest-precondition VC generation from the AST of the real source (re-read every run) with sidecar loop invariants and callee contracts; z3/cvc5'),
    ],
    checks=checks,
    not_applicable=na,
    notes='See DESIGN.md. Exit codes of ./check: 0 held, 1 violation (VIOLATION line), 2 undecided, 3 engine gap/crash.',
)
json.dump(m, open(os.path.join(ROOT, 'MANIFEST.json'), 'w'), indent=1)
print('MANIFEST.json: %d checks, %d not_applicable' % (len(checks), len(na)))
