#!/bin/sh
# tools/try_seed.sh <seed dir containing patch.diff> <Cxx> [extra check args]
# applies the patch in a scratch worktree of /repo (so /repo itself stays
# clean and other checks can run meanwhile), runs the check against it via
# VERIF_REPO, removes the worktree.
set -u
D=$(cd "$1" && pwd); P=$2; shift 2
W=/tmp/seedrun_$(basename "$D")_$$
git -C /repo worktree add -q --detach "$W" HEAD || exit 9
trap 'git -C /repo worktree remove --force "$W" 2>/dev/null' EXIT INT TERM
git -C "$W" apply "$D/patch.diff" || { echo "patch does not apply"; exit 9; }
cd /verif
VERIF_REPO="$W" timeout 1400 ./check "$P" --no-evidence "$@" > /tmp/try_seed_$(basename "$D")_$P.log 2>&1
rc=$?
grep -c '^VIOLATION' /tmp/try_seed_$(basename "$D")_$P.log | sed 's/^/violations: /'
grep '^VIOLATION' /tmp/try_seed_$(basename "$D")_$P.log | head -5 | cut -c1-260
tail -1 /tmp/try_seed_$(basename "$D")_$P.log | cut -c1-300
echo "exit=$rc"
