#!/bin/sh
# tools/try_seed.sh <seed dir containing patch.diff> <Cxx> [extra check args]
# applies the patch to /repo, runs the check, and always reverts.
set -u
D=$(cd "$1" && pwd); P=$2; shift 2
cd /repo || exit 9
git diff --quiet || { echo "/repo not clean"; exit 9; }
git apply "$D/patch.diff" || { echo "patch does not apply"; exit 9; }
cd /verif
./check "$P" --no-evidence "$@" > /tmp/try_seed_$P.log 2>&1
rc=$?
git -C /repo checkout -- .
grep -c '^VIOLATION' /tmp/try_seed_$P.log | sed 's/^/violations: /'
grep '^VIOLATION' /tmp/try_seed_$P.log | head -5 | cut -c1-260
tail -1 /tmp/try_seed_$P.log | cut -c1-300
echo "exit=$rc"
