#!/bin/sh
# tools/confirm_seed.sh seeded/<id> : confirm in a scratch worktree that the demo
# passes without and fails with the patch and that the pinned suite is unchanged.
D=$(cd "$1" && pwd); ID=$(basename "$D"); W=/tmp/confirm_$ID
git -C /repo worktree remove --force $W 2>/dev/null
git -C /repo worktree add -q --detach $W HEAD || exit 9
{
echo "== demo on clean tree"; (cd $W && PYTHONPATH=$W /venv/bin/python -W ignore "$D/demo.py" >/dev/null 2>&1; echo "exit=$?")
git -C $W apply "$D/patch.diff" || echo "PATCH FAILED"
echo "== demo on patched tree"; (cd $W && PYTHONPATH=$W /venv/bin/python -W ignore "$D/demo.py" >/dev/null 2>&1; echo "exit=$?")
echo "== pinned suite on patched tree"; /verif/.venv/bin/python /verif/tools/baseline_check.py $W
} > "$D/confirm.log" 2>&1
git -C /repo worktree remove --force $W
cat "$D/confirm.log"
