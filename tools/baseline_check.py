#!/usr/bin/env python3
"""Run the repository's pinned test command and compare with BASELINE.json
stable_pass: prints tests that were stable-pass and are no longer passing."""
import json, subprocess, sys, tempfile, os, xml.etree.ElementTree as ET
repo = sys.argv[1] if len(sys.argv) > 1 else '/repo'
base = json.load(open('/root/.vp/BASELINE.json'))
out = tempfile.mktemp(suffix='.xml')
subprocess.run('cd %s && /venv/bin/python -m pytest -q -p no:cacheprovider --timeout=900 --continue-on-collection-errors --junitxml=%s > /dev/null 2>&1' % (repo, out), shell=True)
passed = set()
for tc in ET.parse(out).getroot().iter('testcase'):
    if not any(ch.tag in ('failure', 'error', 'skipped') for ch in tc):
        passed.add('%s::%s' % (tc.get('classname'), tc.get('name')))
os.unlink(out)
missing = [t for t in base['stable_pass'] if t not in passed]
print('stable_pass=%d now_passing=%d missing=%d' % (len(base['stable_pass']), len(passed), len(missing)))
for t in missing[:40]:
    print('  LOST', t)
sys.exit(1 if missing else 0)
