#!/usr/bin/env python3
"""Print a python file without docstrings and _view* methods (reading aid)."""
import ast, sys
src = open(sys.argv[1]).read()
t = ast.parse(src)
for n in ast.walk(t):
    if isinstance(n, (ast.FunctionDef, ast.ClassDef, ast.Module)):
        b = n.body
        if b and isinstance(b[0], ast.Expr) and isinstance(getattr(b[0], 'value', None), ast.Constant) and isinstance(b[0].value.value, str):
            n.body = b[1:] or [ast.Pass()]
        if isinstance(n, ast.ClassDef):
            n.body = [m for m in n.body if not (isinstance(m, ast.FunctionDef) and (m.name.startswith('_view') or m.name.startswith('view') or m.name in ('__str__','_str_shape')))] or [ast.Pass()]
print(ast.unparse(t))
