#!/bin/sh
# Build the overlay venv used by every check. Offline: wheels come from
# /opt/veriftools/wheels, menpo's own deps come from /venv via a .pth file.
set -e
cd "$(dirname "$0")"
V=.venv
if [ ! -x "$V/bin/python" ] || ! "$V/bin/python" -c "import z3, sympy, numpy, scipy" 2>/dev/null; then
  rm -rf "$V"
  /venv/bin/python -m venv "$V"
  PIP_NO_INDEX=1 "$V/bin/pip" install -q --no-index --find-links /opt/veriftools/wheels z3-solver cvc5 sympy jsonschema
  echo "import site; site.addsitedir('/venv/lib/python3.12/site-packages')" > "$V/lib/python3.12/site-packages/_venv.pth"
fi
"$V/bin/python" -c "import z3, sympy, numpy, scipy, cvc5; print('setup ok: z3', z3.get_version_string(), 'sympy', sympy.__version__, 'numpy', numpy.__version__)"
mkdir -p evidence replays .cache
